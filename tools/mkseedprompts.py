#!/usr/bin/env python3
"""Generate the prompts for independent seeding agents (they get only the property text and a scratch worktree).
usage: mkseedprompts.py <round-tag> <kind: break|refactor|refactor2|refactor3|small|small3> <outdir> [ids...]"""
import json
import os
import subprocess
import sys

HEAD = '''# Task: {what}

You are helping to evaluate a verification effort by playing the role of a developer working on the Python project
Erotemic/xdoctest.  Work ONLY inside the git worktree `{wt}` (a checkout of the project, sources under `src/xdoctest`).
Do NOT read, list or write anything under `/verif` or `/repo`, and do not look at other directories under `/tmp/wt` or
`/tmp/seedout` except your own output directories named below.  Do NOT use `git stash` (it is shared with other people's
worktrees); use `git diff > file`, `git checkout -- .`, `git apply file`.

## The property (this is all you are given)

id: {id}
title: {title}

statement: {statement}

quantifier: {qover} -- {qtext}

why the existing tests cannot settle it: {why}

code anchors (line numbers are approximate):
{anchors}
'''

BREAK = '''
## What to produce

Up to THREE distinct changes (different mechanisms, in different functions where possible) to the source under `src/xdoctest/`
each of which BREAKS the property above while

 (a) the package still imports and byte-compiles, and
 (b) the existing test suite, unedited, still passes.  Suite command (about 2-5 minutes):
     `cd {wt} && PYTHONPATH={wt}/src /venv/bin/python -m pytest -q -p no:cacheprovider --timeout=900`
     Expected on the unchanged tree AND with your change: 298 passed, 2 failed, where the two failures are
     tests/test_entry_point.py::test_xdoc_console_script_exec and ::test_xdoc_console_script_location
     (they fail on the unchanged tree too).  Any other failure disqualifies the change.

Each change must be realistic -- what a maintainer could write and a reviewer could merge -- and SUBTLE: it must need
something specific to manifest (a particular multi-step sequence of operations, an unusual input, a fault at a particular
point, a particular history of earlier runs, or two cooperating sites that each look fine alone), not something ordinary use
would expose at once.  This is the SECOND round: make the changes harder to spot than a deleted line or a flipped operator:
 * at least one change should be embedded in a larger, otherwise behaviour-preserving refactoring of the function (extracted
   helper, renamed variables, different but nearly equivalent library call, restructured control flow, changed data
   representation), so that the defect is one detail of a diff that mostly preserves behaviour;
 * at least one change should involve state or data that flows between two functions/modules (a value computed in one place and
   consumed in another, a default that differs between caller and callee, an attribute reset in one method and read in another);
 * prefer places OTHER than the most obvious function named in the anchors when the property can also be broken elsewhere.
Do NOT merely reproduce the example edits or 'mutants' that the property text itself names.  Do not edit tests; stubs (.pyi) need
not be updated.

For each change k = 1, 2, 3 create the directory `/tmp/seedout/{tag}-{id}-k/` containing

 * `patch.diff`  -- output of `git diff` against HEAD, must apply with `git apply` from the worktree root;
 * `demo.py`     -- standalone script, run from the worktree root as
                    `PYTHONPATH={wt}/src /venv/bin/python /tmp/seedout/{tag}-{id}-k/demo.py`;
                    exit 0 (and say so) when the property holds -- i.e. on the unchanged tree -- and exit 1 when it observes the
                    violation -- i.e. with the patch applied.  Deterministic, under a minute, writes only to a temp dir it removes.
 * `notes.md`    -- what the change does, which clause of the property it breaks, why the tests miss it, what exactly is needed for it
                    to manifest.

Verify each one yourself before finishing: demo exits 0 on the clean worktree, exits 1 with the patch, and the full suite result with
the patch is exactly the expected one.  Restore the worktree (`git checkout -- .`) between changes and when you are done.  Keep only one
full-suite run going at a time.

Final answer: for each change one paragraph (directory, files touched, mechanism, what it needs to manifest, the suite and demo results you
observed).  If you could not find a change that passes the suite, say so rather than weakening requirement (b).
'''

REFACTOR = '''
## What to produce

FOUR distinct, realistic, BEHAVIOUR-PRESERVING refactorings of the code that implements the property above (the functions named in the
anchors and their close helpers).  The property, and all observable behaviour of the library, must be exactly the same after each
refactoring -- these are the kind of clean-ups a maintainer makes: renaming locals, extracting or inlining a helper, replacing an idiom by an
equivalent one (`if not x: ... else` inverted, `for`+`append` by a comprehension, `a = a + [x]` vs `append`, `dict.get` vs `in` test,
`try/finally` vs `with`, early return vs nested if, `%`-format vs f-string, merging or splitting conditions, hoisting a loop-invariant,
re-ordering INDEPENDENT statements, converting a chain of `elif` to a dispatch table, moving a nested function to module level...).
Each refactoring should touch the core mechanism of the property (not just comments or docstrings) and change 5-40 lines.  Make the four
differ in kind and, where possible, in the function they touch.  They must NOT change behaviour in any corner case: think about
exceptions, empty inputs, aliasing and evaluation order.

Requirements for each refactoring k = 1..4:
 (a) the package imports and byte-compiles;
 (b) the existing suite, unedited, passes exactly as on the unchanged tree:
     `cd {wt} && PYTHONPATH={wt}/src /venv/bin/python -m pytest -q -p no:cacheprovider --timeout=900`
     expected: 298 passed, 2 failed (tests/test_entry_point.py::test_xdoc_console_script_exec and ::test_xdoc_console_script_location fail
     on the unchanged tree too);
 (c) you have convinced yourself (by reasoning, and by a small equivalence script) that behaviour is unchanged.

Create the directory `/tmp/seedout/{tag}-{id}-k/` containing
 * `patch.diff` -- `git diff` against HEAD, applies with `git apply` from the worktree root;
 * `demo.py`    -- standalone script run as `PYTHONPATH={wt}/src /venv/bin/python /tmp/seedout/{tag}-{id}-k/demo.py` that exercises the
                   refactored code on a handful of inputs relevant to the property and prints a digest of the observable results; it must
                   print the SAME digest and exit 0 both on the unchanged tree and with the patch applied (include the expected digest in
                   the script and compare);
 * `notes.md`   -- what was refactored and why it is behaviour-preserving.

Restore the worktree (`git checkout -- .`) between refactorings and when you are done.  Keep only one full-suite run going at a time.
Final answer: one paragraph per refactoring (directory, function touched, kind of refactoring, suite/demo results).
'''


REFACTOR2 = REFACTOR.replace('''these are the kind of clean-ups a maintainer makes: renaming locals, extracting or inlining a helper,''', '''this round asks for STRUCTURAL clean-ups, at least three of the four must be of these kinds: extracting a block into a new private helper function or method (including one that is called from inside an expression or returns early from a loop), inlining an existing small helper into its only caller, moving a helper to another module of the package and importing it, renaming a private function / method / parameter / attribute consistently, splitting a long function into two phases, merging two small functions, replacing a nested function by a method, introducing a small value object or tuple for values that travel together.  The fourth may be a local idiom change: renaming locals,''')

REFACTOR3 = REFACTOR.replace('''these are the kind of clean-ups a maintainer makes: renaming locals, extracting or inlining a helper,''', '''this round asks for DEEPER structural clean-ups; the refactorings must be of DIFFERENT kinds chosen from: introducing a small class (state plus two or three methods) for values and steps that belong together and using an object of it inside the function; turning a nested function into a method or a callable object; replacing a `while` loop by a `for` loop over a generator (or the reverse), or a hand-written loop by `itertools` / `enumerate` / `zip` / `any` / `next(...)`; splitting a function into a "collect" phase and an "act" phase with an intermediate list; changing a signature consistently (a positional parameter becomes keyword-only, two parameters are merged into one tuple or options object, a default moves from callee to caller) together with all call sites; replacing a chain of conditions by a table of (predicate, action) pairs or by small strategy functions; moving a method to another class or module and delegating; replacing a tuple/dict that travels between two functions by a namedtuple; caching an attribute lookup or a compiled pattern in a module-level or class-level name; un-nesting `try`/`if` with guard clauses.  One of them may instead be a local idiom change: renaming locals,''').replace('FOUR distinct', 'THREE distinct').replace('k = 1..4', 'k = 1..3').replace('Make the four', 'Make the three')

SMALL = '''
## What to produce

FIVE distinct SMALL changes (1-6 changed lines each, each in a different function where possible) to the source under `src/xdoctest/`,
each of which BREAKS the property above while

 (a) the package still imports and byte-compiles, and
 (b) the existing test suite, unedited, still passes.  Suite command (about 2-5 minutes):
     `cd {wt} && PYTHONPATH={wt}/src /venv/bin/python -m pytest -q -p no:cacheprovider --timeout=900`
     Expected on the unchanged tree AND with your change: 298 passed, 2 failed, where the two failures are
     tests/test_entry_point.py::test_xdoc_console_script_exec and ::test_xdoc_console_script_location
     (they fail on the unchanged tree too).  Any other failure disqualifies the change.

These are the slips a maintainer makes in an ordinary commit and a reviewer waves through.  Use DIFFERENT kinds for the five, e.g.:
an off-by-one or wrong boundary (`<` / `<=`, `[1:]` / `[:-1]`, `+ 1` dropped or added); the wrong one of two similar variables or
attributes; two arguments swapped or a keyword argument dropped so a default applies; a condition weakened, strengthened or inverted in
one corner (`and` / `or`, a missing `not`, `is None` vs falsy); a changed default value or constant; a reset / clear / copy that was
dropped or moved; an early `return` / `continue` / `break` added or removed; the wrong dictionary key or a `.get` default; two
statements re-ordered that are not independent; an exception class narrowed or widened; a regular expression changed by a character
or a flag.  Each must be SUBTLE: ordinary use (and the test suite) must not expose it; it needs a particular input, option combination,
sequence of runs or corner case to manifest.  Look beyond the most obvious function named in the anchors: helpers it calls, callers that
consume its result, option plumbing and defaults are all fair game as long as the PROPERTY ABOVE is what breaks.
Do NOT merely reproduce example edits or 'mutants' that the property text itself names.  Do not edit tests; stubs (.pyi) need not be updated.

For each change k = 1..5 create the directory `/tmp/seedout/{tag}-{id}-k/` containing

 * `patch.diff`  -- output of `git diff` against HEAD, must apply with `git apply` from the worktree root;
 * `demo.py`     -- standalone script, run from the worktree root as
                    `PYTHONPATH={wt}/src /venv/bin/python /tmp/seedout/{tag}-{id}-k/demo.py`;
                    exit 0 (and say so) when the property holds -- i.e. on the unchanged tree -- and exit 1 when it observes the
                    violation -- i.e. with the patch applied.  Deterministic, under a minute, writes only to a temp dir it removes.
 * `notes.md`    -- what the change does, which clause of the property it breaks, why the tests miss it, what exactly is needed for it
                    to manifest.

Verify each one yourself before finishing: demo exits 0 on the clean worktree, exits 1 with the patch, and the full suite result with
the patch is exactly the expected one.  Restore the worktree (`git checkout -- .`) between changes and when you are done.  Keep only one
full-suite run going at a time (you may check several candidate patches quickly with the demo first and run the suite only on the ones you keep).

Final answer: for each change one short paragraph (directory, file/function touched, kind of slip, what it needs to manifest, the suite and demo
results you observed).  If you could not find five that pass the suite, deliver fewer rather than weakening requirement (b).
'''


def main():
    tag, kind, outdir = sys.argv[1:4]
    ids = sys.argv[4:]
    os.makedirs(outdir, exist_ok=True)
    verif = os.path.dirname(os.path.dirname(os.path.abspath(__file__)))
    for line in open(os.path.join(verif, 'properties.jsonl')):
        d = json.loads(line)
        if ids and d['id'] not in ids:
            continue
        wt = '/tmp/wt/%s-%s' % (tag, d['id'])
        subprocess.run(['git', '-C', '/repo', 'worktree', 'add', '--detach', wt, 'HEAD'], capture_output=True)
        a = d['anchors']
        anchors = 'files: ' + ', '.join(a['files']) + '\n' + '\n'.join('- %s: %s (%s)' % (s['name'], s.get('meaning', ''), s['where']) for s in a.get('state', [])) + '\n' + \
            '\n'.join('- %s (%s)' % (m['name'], m['where']) for m in a.get('mechanism', [])) + '\nobserve at: ' + '; '.join(a.get('observe_at', []))
        what = {'break': 'seed a property-breaking change into Erotemic/xdoctest (second round)', 'small': 'seed small property-breaking slips into Erotemic/xdoctest', 'refactor': 'behaviour-preserving refactorings of Erotemic/xdoctest', 'refactor2': 'behaviour-preserving structural refactorings of Erotemic/xdoctest', 'refactor3': 'behaviour-preserving structural refactorings of Erotemic/xdoctest', 'small3': 'seed small property-breaking slips into Erotemic/xdoctest'}[kind]
        text = (HEAD + {'break': BREAK, 'refactor': REFACTOR, 'refactor2': REFACTOR2, 'refactor3': REFACTOR3, 'small': SMALL, 'small3': SMALL.replace('FIVE distinct', 'THREE distinct').replace('for the five', 'for the three').replace('k = 1..5', 'k = 1..3').replace('find five', 'find three')}[kind]).format(what=what, wt=wt, id=d['id'], title=d['title'], statement=d['statement'], qover=d['quantifier']['over'],
                                                                         qtext=d['quantifier']['text'], why=d['why_tests_cant'], anchors=anchors, tag=tag)
        open(os.path.join(outdir, '%s-%s.md' % (tag, d['id'])), 'w').write(text)
        print(tag, d['id'], wt)


if __name__ == '__main__':
    main()
