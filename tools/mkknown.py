#!/usr/bin/env python3
"""Regenerate xdstat/known_functions.json: the functions and methods of the package as they are on the tree that was read by hand
(/repo at the time of running).  The loader expands functions that are NOT in this table into their callers (extract-function
refactorings); the table takes no part in a verdict.  Run it only after reviewing a tree, e.g. after a `fix:` commit that adds a function.
usage: mkknown.py [src-root]"""
import ast
import json
import os
import sys
sys.path.insert(0, os.path.dirname(os.path.dirname(os.path.abspath(__file__))))

from xdstat import loader  # noqa: E402


def top(body):
    for n in body:
        if isinstance(n, (ast.If, ast.Try)):
            for fld in ('body', 'orelse', 'finalbody'):
                yield from top(getattr(n, fld, []) or [])
            for h in getattr(n, 'handlers', []):
                yield from top(h.body)
        else:
            yield n


def main():
    # the digests are dumps of syntax trees: they must be made by the interpreter that runs the checks
    if os.path.realpath(sys.executable) != os.path.realpath('/venv/bin/python') and os.path.exists('/venv/bin/python'):
        os.execv('/venv/bin/python', ['/venv/bin/python', '-I', '-S', os.path.abspath(__file__)] + sys.argv[1:])
    root = sys.argv[1] if len(sys.argv) > 1 else '/repo/src'
    tab = {}
    digests = {}
    attrs = {}
    features = {}
    params = {}
    shapes = {}
    constants = {}
    for dp, _dn, fn in os.walk(os.path.join(root, 'xdoctest')):
        for f in fn:
            if not f.endswith('.py'):
                continue
            path = os.path.join(dp, f)
            rel = os.path.relpath(path, root)
            t = ast.parse(open(path).read())
            names = []
            for n in top(t.body):
                if isinstance(n, (ast.FunctionDef, ast.AsyncFunctionDef)):
                    names.append(n.name)
                elif isinstance(n, ast.ClassDef):
                    names.append(n.name + '.')
                    for m in n.body:
                        if isinstance(m, (ast.FunctionDef, ast.AsyncFunctionDef)):
                            names.append(n.name + '.' + m.name)
            tab[rel] = sorted(names)
            digests[rel] = {q: loader.fn_digest(n) for q, n in loader.function_table(t).items()}
            attrs[rel] = loader.attr_signatures(t)
            features[rel] = {q: loader.fn_features(n) for q, n in loader.function_table(t).items() if q.count('.') >= 1}
            params[rel] = {q: [a.arg for a in n.args.posonlyargs + n.args.args + n.args.kwonlyargs] for q, n in loader.function_table(t).items()}
            shapes[rel] = {q: loader.fn_shape(n) for q, n in loader.function_table(t).items()}
            constants[rel] = loader.module_constants(t)
    out = os.path.join(os.path.dirname(os.path.dirname(os.path.abspath(__file__))), 'xdstat', 'known_functions.json')
    json.dump({'functions': tab, 'digests': digests, 'attrs': attrs, 'constants': constants, 'shapes': shapes, 'params': params, 'features': features}, open(out, 'w'), indent=0, sort_keys=True)
    print('%d names in %d modules -> %s' % (sum(len(v) for v in tab.values()), len(tab), out))


if __name__ == '__main__':
    main()
