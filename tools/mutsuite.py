#!/usr/bin/env python3
"""
Second stage of the blind-spot finder (development aid, not a registered check): run the project's own test suite on the mutants that no
rule objected to, in scratch copies of the repository under /tmp/mut (removed at the end).  A mutant that ALSO passes the suite is a
candidate for reading: if it breaks a property, a rule is missing.

usage: mutsuite.py <mutscan.json> [--jobs N] [--only substring] [--out FILE]
"""
import json
import os
import shutil
import subprocess
import sys
import time
from concurrent.futures import ThreadPoolExecutor
import threading

PY = '/venv/bin/python'
BASE = '/tmp/mut'
DESELECT = ['tests/test_entry_point.py::test_xdoc_console_script_location', 'tests/test_entry_point.py::test_xdoc_console_script_exec']


def main(argv):
    src_json = argv[0]
    jobs, only, out = 6, None, None
    args = argv[1:]
    while args:
        a = args.pop(0)
        if a == '--jobs':
            jobs = int(args.pop(0))
        elif a == '--only':
            only = args.pop(0)
        elif a == '--out':
            out = args.pop(0)
    out = out or src_json.replace('.json', '.suite.json')
    data = json.load(open(src_json))
    edits = data['edits']
    keys = [k for k in data['survivors'] if only is None or only in k]
    done = {}
    if os.path.exists(out):
        done = json.load(open(out))
    keys = [k for k in keys if k not in done]
    print('%d mutants to run through the suite (%d already done)' % (len(keys), len(done)), flush=True)
    os.makedirs(BASE, exist_ok=True)
    pool = []
    for i in range(jobs):
        d = os.path.join(BASE, 'w%d' % i)
        if os.path.exists(d):
            shutil.rmtree(d)
        subprocess.run(['rsync', '-a', '--exclude', '.git', '/repo/', d + '/'], check=True)
        pool.append(d)
    lock = threading.Lock()
    free = list(pool)

    def run(k):
        with lock:
            d = free.pop()
        try:
            e = edits[k]
            path = os.path.join(d, 'src', e['relpath'])
            orig = open(os.path.join('/repo/src', e['relpath']), 'rb').read()
            a, b = e['span']
            open(path, 'wb').write(orig[:a] + e['new'].encode('utf8') + orig[b:])
            t0 = time.time()
            cmd = [PY, '-m', 'pytest', '-x', '-q', '-p', 'no:cacheprovider', '--timeout=300'] + sum((['--deselect', t] for t in DESELECT), [])
            env = dict(os.environ, PYTHONPATH=os.path.join(d, 'src'), PYTHONDONTWRITEBYTECODE='1')
            try:
                p = subprocess.run(cmd, cwd=d, env=env, stdout=subprocess.PIPE, stderr=subprocess.STDOUT, text=True, timeout=1500)
                tail = p.stdout[-400:]
                rc = p.returncode
            except subprocess.TimeoutExpired:
                tail, rc = 'TIMEOUT', 124
            open(path, 'wb').write(orig)
            return k, {'rc': rc, 'passed': rc == 0, 'wall_s': round(time.time() - t0, 1), 'tail': tail[-200:]}
        finally:
            with lock:
                free.append(d)
    n = 0
    with ThreadPoolExecutor(max_workers=jobs) as ex:
        for k, r in ex.map(run, keys):
            done[k] = r
            n += 1
            if n % 10 == 0 or r['passed']:
                print('%d/%d %s %s' % (n, len(keys), 'SUITE-PASSES' if r['passed'] else 'killed', k[:160]), flush=True)
                json.dump(done, open(out, 'w'), indent=1)
    json.dump(done, open(out, 'w'), indent=1)
    shutil.rmtree(BASE, ignore_errors=True)
    alive = [k for k, r in done.items() if r['passed']]
    print('suite passes for %d of %d' % (len(alive), len(done)))
    with open(out.replace('.json', '.txt'), 'w') as f:
        for k in sorted(alive):
            f.write(k + '\n')


if __name__ == '__main__':
    main(sys.argv[1:])
