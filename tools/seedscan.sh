#!/bin/sh
# pre-screen seed patches against the checks without touching /repo:
# usage: seedscan.sh <seed_dir>...   (each holds patch.diff)
# uses one scratch worktree /tmp/wt/scan (removed at the end)
WT=${WT:-/tmp/wt/scan}
git -C /repo worktree remove --force $WT >/dev/null 2>&1
git -C /repo worktree add --detach $WT HEAD >/dev/null 2>&1 || exit 2
for d in "$@"; do
  name=$(basename "$d")
  if [ ! -f "$d/patch.diff" ]; then echo "$name: no patch.diff"; continue; fi
  git -C $WT checkout -q -- . 
  if ! git -C $WT apply "$d/patch.diff" 2>/tmp/scan_apply.err; then echo "$name: PATCH DOES NOT APPLY: $(head -c 200 /tmp/scan_apply.err)"; continue; fi
  ev=$(mktemp -d /tmp/scanev-XXXX)
  out=$(/verif/check --all --root $WT/src --evidence-dir $ev 2>&1)
  rc=$?
  rm -rf $ev
  v=$(echo "$out" | grep -o 'VIOLATION property=C[0-9]*' | sort -u | tr '\n' ' ')
  rules=$(echo "$out" | grep -o '^  C[0-9]*\.R[0-9a-z]*' | sort -u | tr '\n' ' ')
  ae=$(echo "$out" | grep -c '^ANALYSIS-ERROR')
  echo "$name: exit=$rc violations=[$v] rules=[$rules] analysis_errors=$ae"
  if [ "$ae" != "0" ]; then echo "$out" | grep '^ANALYSIS-ERROR' | head -3 | sed 's/^/    /'; fi
done
git -C /repo worktree remove --force $WT >/dev/null 2>&1
