#!/bin/sh
# show the full check output for one patch applied to a scratch worktree: seedshow.sh <seed_dir> [props...]
WT=/tmp/wt/show
d=$1; shift
git -C /repo worktree remove --force $WT >/dev/null 2>&1
git -C /repo worktree add --detach $WT HEAD >/dev/null 2>&1 || exit 2
git -C $WT apply "$d/patch.diff" || exit 2
ev=$(mktemp -d /tmp/showev-XXXX)
if [ $# -eq 0 ]; then set -- --all; fi
/verif/check "$@" --root $WT/src --evidence-dir $ev 2>&1 | grep -v "^WARNING\|HOLDS\|^KNOWN"
rm -rf $ev
git -C /repo worktree remove --force $WT >/dev/null 2>&1
