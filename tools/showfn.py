#!/usr/bin/env python3
"""print a function as the rules see it (after the loader's normalisations): showfn.py <src-root> <relpath> <funcname>"""
import ast
import os
import sys
sys.path.insert(0, os.path.dirname(os.path.dirname(os.path.abspath(__file__))))
from xdstat import loader  # noqa: E402

root, rel, name = sys.argv[1:4]
src = open(os.path.join(root, rel)).read()
m = loader.Module('x', rel, src)
for n in ast.walk(m.tree):
    if isinstance(n, ast.FunctionDef) and n.name == name:
        print(ast.unparse(n))
