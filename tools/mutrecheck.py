#!/usr/bin/env python3
"""re-analyse, with the current rules, the mutants that passed both the earlier static scan and the test suite (development aid).
usage: mutrecheck.py <mutscan.json> [<mutsuite.json>]   -> prints the mutants no rule objects to today"""
import json
import os
import sys
from concurrent.futures import ProcessPoolExecutor

sys.path.insert(0, os.path.dirname(os.path.abspath(__file__)))
sys.path.insert(0, os.path.dirname(os.path.dirname(os.path.abspath(__file__))))
import mutscan      # noqa: E402


def main(argv):
    data = json.load(open(argv[0]))
    suite = json.load(open(argv[1])) if len(argv) > 1 else None
    edits = data['edits']
    keys = [k for k in data['survivors'] if suite is None or (k in suite and suite[k]['passed'])]
    _, relevant = mutscan.anchored_functions()
    jobs = []
    for k in keys:
        e = edits[k]
        orig = open(os.path.join(mutscan.ROOT, e['relpath']), 'rb').read()
        a, b = e['span']
        jobs.append((e['relpath'], (orig[:a] + e['new'].encode('utf8') + orig[b:]).decode('utf8'), k))
    out = []
    with ProcessPoolExecutor(max_workers=int(os.environ.get("JOBS", "8")), initializer=mutscan._init, initargs=(relevant,)) as ex:
        for key, caught, err2 in ex.map(mutscan._analyse, jobs, chunksize=2):
            out.append((key, caught, err2))
    alive = [k for (k, c, e2) in out if not c and not e2]
    print('%d suite-passing mutants: %d now caught, %d analysis-error, %d still unnoticed' % (len(out), sum(1 for x in out if x[1]), sum(1 for x in out if not x[1] and x[2]), len(alive)))
    for k in sorted(alive):
        print('  ' + k[:230])


if __name__ == '__main__':
    main(sys.argv[1:])
