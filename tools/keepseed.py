#!/usr/bin/env python3
"""Copy confirmed seeds (verify.json says confirmed) from /tmp/seedout/<id> to /verif/seeded/<id>/ with a meta.json.
usage: keepseed.py <seed_dir>...  [--needs "<text>"]"""
import json
import os
import shutil
import sys

VERIF = os.path.dirname(os.path.dirname(os.path.abspath(__file__)))


def first_para(text, key):
    low = text.lower()
    i = low.find(key)
    if i < 0:
        return None
    seg = text[i:i + 900]
    return ' '.join(seg.split())


def main():
    for d in sys.argv[1:]:
        d = d.rstrip('/')
        name = os.path.basename(d)
        vj = os.path.join(d, 'verify.json')
        if not os.path.exists(vj):
            print(name, 'no verify.json'); continue
        v = json.load(open(vj))
        if not v.get('confirmed'):
            print(name, 'NOT confirmed, not kept'); continue
        out = os.path.join(VERIF, 'seeded', name)
        os.makedirs(out, exist_ok=True)
        for fn in ('patch.diff', 'demo.py', 'notes.md'):
            if os.path.exists(os.path.join(d, fn)):
                shutil.copy(os.path.join(d, fn), os.path.join(out, fn))
        notes = open(os.path.join(d, 'notes.md')).read() if os.path.exists(os.path.join(d, 'notes.md')) else ''
        needs = first_para(notes, 'needs') or first_para(notes, 'manifest') or first_para(notes, 'trigger') or ' '.join(notes.split())[:600]
        meta = {
            'seed': name,
            'property': [x for x in name.split('-') if x.startswith('C')][0],
            'kind': v.get('kind', 'break'),
            'origin': 'independent sub-agent given only the property text and a scratch worktree of /repo',
            'breaks': 'see notes.md (written by the seeding agent)',
            'needs_to_manifest': needs,
            'confirmed_by': {
                'ran': ['demo.py on a clean scratch worktree of /repo HEAD (must exit 0)', 'git apply patch.diff', 'import xdoctest', 'demo.py with the patch (must exit 1 for a breaking change, 0 with the same digest for a refactoring)',
                        'full suite: python -m pytest -q -p no:cacheprovider --timeout=900 (must be 298 passed, only the two always-failing test_entry_point tests failing)'],
                'demo_clean_rc': v['demo_clean']['rc'], 'demo_patched_rc': v['demo_patched']['rc'], 'suite': v['suite'], 'at': v.get('at'),
            },
        }
        cj = os.path.join(d, 'check.json')
        if os.path.exists(cj):
            meta['checks'] = json.load(open(cj))
        json.dump(meta, open(os.path.join(out, 'meta.json'), 'w'), indent=1)
        print(name, 'kept')


if __name__ == '__main__':
    main()
