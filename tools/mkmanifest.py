#!/usr/bin/env python3
"""Regenerate /verif/MANIFEST.json from the table below (keeps it schema-valid)."""
import json
import os
import sys

VERIF = os.path.dirname(os.path.dirname(os.path.abspath(__file__)))

LEVEL_TEXT = ('static rule conformance: the named structural clauses (necessary conditions of the property) hold on every '
              'path of the analysed functions of the current /repo/src tree; the value-level remainder of the property is '
              'not decided (see DESIGN.md section 4, "Not decided")')
NOTE = ('trusted: CPython ast/re parsers, language guarantees for with/finally/except, table of total stdlib callees '
        '(xdstat/policy.py), _tokenize.py and stdlib as black boxes, receiver types from the package stubs; '
        'the check never imports or runs /repo code')

# property -> (design section, technique)
CLAIMED = {
    'C01': ('4/C01', 'def-use FLOW (one namespace, coroutine driven, tab-expansion taint), PATH-COUNT of exec sites per iteration, lexical capture + MUST-PASS of the stdout log'),
    'C02': ('4/C02', 'NEVER-AFTER reachability on CFG with exceptional edges, edge-dominance guards, typestate of the unmatched buffer with path counting, FLOW through repr, truth-table evaluation of the summary flags'),
    'C03': ('4/C03', 'ESCAPE analysis of the exec handler and of check_exception (bare re-raise on non-traceback want, guarded normal return), edge-dominance of detail stripping, MUST-PASS continuation, regex facts of the traceback pattern'),
    'C04': ('4/C04', 'MUST-PASS overlay clearing, alias-sensitive WHO-MAY on persistent state under the inline condition, read-before-write CONTRADICTION on the overlay, edge-dominance of the skip test, FLOW of directive text from tokenizer comments'),
    'C05': ('4/C05', 'flag->step table by edge dominance over run-state key reads, got/want sibling symmetry along def-use chains, regex facts via re._parser'),
    'C06': ('4/C06', 'WHO-MAY + edge dominance of the matcher call, exactness exit, FLOW of both scan bounds into every middle-piece search'),
    'C07': ('4/C07', 'EXHAUSTIVE visitor-kind table, reachability of generic_visit in function handlers, edge-dominance of the class-nesting and main guards, pruning of the package walk'),
    'C08': ('4/C08', 'AFFINE abstract evaluation of line arithmetic against declared denotations, first-doctest-frame MUST-PASS, finite evaluation of the docstring-prefix predicate'),
    'C09': ('4/C09', 'ESCAPE per fallible site under on_error=return, user-code call consistency in the checker, index taint in report rendering, constant propagation of the runner policy'),
    'C10': ('4/C10', 'truth tables of summary flags, edge-dominance of the failed list, writer/reader key TABLE-AGREE, SIGN evaluation of the exit status, gathering guards'),
    'C11': ('4/C11', 'WHO-MAY on the default state template, MUST-PASS fresh run state, reset PAIRING for loop accumulators, namespace-cleared PAIRING on the CFG x once-flag product, alias FLOW of the module dict'),
    'C12': ('4/C12', 'WHO-MAY single owners of sys.stdout/sys.path/warning filters, acquire/release PAIRING incl. BaseException exits, context-manager-only use, bounds CONTRADICTION'),
    'C13': ('4/C13', 'FLOW pre-processing order, PATH-COUNT consume/emit pairing in the labeller, finite evaluation of the label transition table, grouping arity'),
    'C14': ('4/C14', 'ESCAPE of DoctestParser.parse on str input, containment handler shape in parse_docstr_examples, style dispatch call-graph extent, loop VARIANT recognition'),
    'C15': ('4/C15', 'TABLE-AGREE of collector and option table between the two front ends, record<->raise PAIRING, skip predicate coincidence by PATH-COUNT'),
    'C16': ('4/C16', 'TABLE-AGREE between the kind tables of the AST visitor and of the module-dict walk'),
    'C17': ('4/C17', 'edge-dominance guards and precedence of the per-directory candidates, first-hit reachability in search-path order, loop shape of the package walk, def-use derivation of the dotted name, guard table of __init__/__main__ normalisation, FLOW of directory and name into the import by path'),
    'C18': ('4/C18', 'AFFINE numbering of displayed lines, PATH-COUNT of source and want line emission'),
    'C19': ('4/C19', 'PATH-COUNT of emitted functions per example and body entries per part, identity components of the generated name (TABLE-AGREE with unique_callname), constant formatting options, drop guard of executable lines, want-comment FLOW through utils.indent'),
    'C20': ('4/C20', 'REGEX-FACT of the accepted directive prefixes on a finite sample set, TABLE-AGREE of option names and defaults, polarity parsing, label-transition guard of the bare continuation, guards of the single compile mode, def-use sources of the compared text (REPL display), expected-traceback acceptance (C03.R2)'),
}
NA = {
}


def main():
    built = [p for p in sorted(CLAIMED) if os.path.exists(os.path.join(VERIF, 'xdstat', 'rules', p.lower() + '.py'))]
    if len(sys.argv) > 1:
        built = [p for p in built if p in sys.argv[1:]] if sys.argv[1] != '--all' else built
    checks = []
    for p in built:
        sec, tech = CLAIMED[p]
        checks.append({
            'property_id': p,
            'quick_cmd': './check %s --tier quick' % p,
            'thorough_cmd': './check %s --tier thorough' % p,
            'evidence_file': 'evidence/%s.json' % p,
            'replay_cmd_template': './check --explain {path}',
            'engine': 'xdstat',
            'level_claimed': {'category': 'other', 'text': LEVEL_TEXT, 'design_ref': 'DESIGN.md section ' + sec},
            'level_note': NOTE,
            'technique': 'static analysis: ' + tech,
        })
    na = [{'property_id': p, 'reason': r} for p, r in sorted(NA.items())]
    for p in sorted(CLAIMED):
        if p not in built:
            na.append({'property_id': p, 'reason': 'static check designed (DESIGN.md section %s) but not built yet' % CLAIMED[p][0]})
    m = {
        'version': 1,
        'setup_cmd': 'true',
        'hooks': {
            'guard': 'XDOCTEST_VERIF',
            'enable': 'none needed: the analyser reads /repo/src as it is; no guarded hook commit exists',
            'baseline_off_cmd': 'cd /repo && /venv/bin/python -m pytest -ra -q -p no:cacheprovider --timeout=900 --continue-on-collection-errors',
            'source_commits': [],
            'add_only': True,
        },
        'engines': [{'name': 'xdstat', 'path': '/verif/xdstat', 'serves_properties': built,
                     'kind_free_text': 'repository-specific static analyser: ast loader + call resolver, statement CFG with exceptional edges, edge dominance, reaching definitions, escape summaries, finite / affine / regex evaluators; stdlib only, runs as /venv/bin/python -I -S and never imports xdoctest'}],
        'checks': checks,
        'notes': 'Static analysis only (DESIGN.md). Exit codes: 0 held, 1 violation (VIOLATION line), 2 analysis error (ANALYSIS-ERROR line). thorough = quick rules + in-memory mutation self-test of the checker (must-fire / must-stay-silent variants). Known findings: known_findings.json.',
        'not_applicable': sorted(na, key=lambda x: x['property_id']),
    }
    with open(os.path.join(VERIF, 'MANIFEST.json'), 'w') as f:
        json.dump(m, f, indent=1)
    print('MANIFEST: %d checks, %d not applicable' % (len(checks), len(na)))


if __name__ == '__main__':
    main()
