#!/usr/bin/env python3
"""
Confirm independently seeded changes and run the checks against them.

usage: seedcheck.py verify <seed_dir>...      demo both ways + full suite in scratch worktrees (parallel)
       seedcheck.py check  <seed_dir>...      apply to /repo, run ./check --all, undo (sequential)

A seed dir holds patch.diff and demo.py.  Results: <seed_dir>/verify.json, <seed_dir>/check.json
Scratch worktrees live under /tmp/wt/verify-* and are removed when done.
"""
import json
import os
import re
import subprocess
import sys
import tempfile
import time
from concurrent.futures import ThreadPoolExecutor

REPO = '/repo'
VERIF = os.path.dirname(os.path.dirname(os.path.abspath(__file__)))
PY = '/venv/bin/python'


def sh(cmd, cwd=None, env=None, timeout=3600):
    e = dict(os.environ)
    if env:
        e.update(env)
    p = subprocess.run(cmd, shell=True, cwd=cwd, env=e, stdout=subprocess.PIPE, stderr=subprocess.STDOUT, timeout=timeout, text=True)
    return p.returncode, p.stdout


def verify(seed):
    seed = os.path.abspath(seed)
    name = os.path.basename(seed.rstrip('/'))
    wt = '/tmp/wt/verify-%s' % name
    res = {'seed': name, 'at': time.strftime('%Y-%m-%dT%H:%M:%S')}
    sh('git -C %s worktree remove --force %s' % (REPO, wt))
    rc, out = sh('git -C %s worktree add --detach %s HEAD' % (REPO, wt))
    if rc != 0:
        res['error'] = out[-400:]
        return res
    try:
        env = {'PYTHONPATH': wt + '/src'}
        rc, out = sh('%s %s/demo.py' % (PY, seed), cwd=wt, env=env, timeout=600)
        res['demo_clean'] = {'rc': rc, 'tail': out[-300:]}
        rc, out = sh('git apply %s/patch.diff' % seed, cwd=wt)
        res['apply'] = {'rc': rc, 'out': out[-300:]}
        if rc == 0:
            rc, out = sh('%s -c "import xdoctest"' % PY, cwd=wt, env=env)
            res['imports'] = rc == 0
            rc, out = sh('%s %s/demo.py' % (PY, seed), cwd=wt, env=env, timeout=600)
            res['demo_patched'] = {'rc': rc, 'tail': out[-300:]}
            rc, out = sh('%s -m pytest -q -p no:cacheprovider --timeout=900 2>&1 | tail -6' % PY, cwd=wt, env=env, timeout=3000)
            res['suite_tail'] = out[-600:]
            m = re.search(r'(\d+) failed, (\d+) passed', out)
            m2 = re.search(r'(\d+) passed', out)
            res['suite'] = {'failed': int(m.group(1)) if m else 0, 'passed': int(m.group(2)) if m else (int(m2.group(1)) if m2 else 0)}
            failed_names = re.findall(r'FAILED (\S+)', out)
            res['suite']['failed_names'] = failed_names
            res['suite_ok'] = res['suite']['passed'] == 298 and set(n.split('::')[-1] for n in failed_names) <= {'test_xdoc_console_script_location', 'test_xdoc_console_script_exec'}
        want_patched = 0 if name.startswith(('ref-', 'rf3-', 'rf4-', 'rf5-', 'rf6-', 'rf7-', 'rf8-', 'rf9-')) else 1      # refactorings keep behaviour: the demo digest must be unchanged
        res['kind'] = 'refactoring' if name.startswith(('ref-', 'rf3-', 'rf4-', 'rf5-', 'rf6-', 'rf7-', 'rf8-', 'rf9-')) else 'break'
        res['confirmed'] = bool(res.get('apply', {}).get('rc') == 0 and res.get('imports') and res['demo_clean']['rc'] == 0 and res.get('demo_patched', {}).get('rc') == want_patched and res.get('suite_ok'))
    finally:
        sh('git -C %s worktree remove --force %s' % (REPO, wt))
    with open(os.path.join(seed, 'verify.json'), 'w') as f:
        json.dump(res, f, indent=1)
    return res


def check(seed):
    seed = os.path.abspath(seed)
    name = os.path.basename(seed.rstrip('/'))
    rc, out = sh('git -C %s status --porcelain' % REPO)
    if out.strip():
        raise SystemExit('/repo is not clean:\n' + out)
    res = {'seed': name}
    rc, out = sh('git -C %s apply %s/patch.diff' % (REPO, seed))
    if rc != 0:
        res['error'] = 'patch does not apply: ' + out[-300:]
        return res
    try:
        evd = tempfile.mkdtemp(prefix='seedev-')
        rc, out = sh('./check --all --evidence-dir %s' % evd, cwd=VERIF, timeout=600)
        res['exit'] = rc
        res['violations'] = sorted(set(re.findall(r'VIOLATION property=(C\d+)', out)))
        res['rules'] = sorted(set(re.findall(r'^  (C\d+\.R\w+) at', out, flags=re.M)))
        res['analysis_errors'] = re.findall(r'^ANALYSIS-ERROR.*$', out, flags=re.M)[:10]
        res['detail'] = [l.strip()[:300] for l in out.splitlines() if re.match(r'^  C\d+\.R', l)][:10]
        sh('rm -rf %s' % evd)
    finally:
        sh('git -C %s checkout -- .' % REPO)
    rc, out = sh('git -C %s status --porcelain' % REPO)
    assert not out.strip(), 'repo not restored: ' + out
    with open(os.path.join(seed, 'check.json'), 'w') as f:
        json.dump(res, f, indent=1)
    return res


def main():
    mode = sys.argv[1]
    seeds = sys.argv[2:]
    if mode == 'verify':
        with ThreadPoolExecutor(max_workers=int(os.environ.get('JOBS', '6'))) as ex:
            for r in ex.map(verify, seeds):
                print(r['seed'], 'CONFIRMED' if r.get('confirmed') else 'REJECTED', {k: (v if not isinstance(v, dict) else v.get('rc', v)) for k, v in r.items() if k in ('demo_clean', 'demo_patched', 'suite', 'apply', 'error')})
    elif mode == 'check':
        for s in seeds:
            r = check(s)
            print(r['seed'], 'exit=%s' % r.get('exit'), 'violations=%s' % r.get('violations'), 'rules=%s' % r.get('rules'), r.get('analysis_errors') or '', r.get('error') or '')


if __name__ == '__main__':
    main()
