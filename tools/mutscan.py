#!/usr/bin/env python3
"""
Blind-spot finder for the checks (a development aid, not a registered check): generate small syntactic mutants of the functions the rules
anchor in, analyse each mutant IN MEMORY with every property's rules (nothing is executed, /repo is not touched) and list the mutants no
rule objects to.  A survivor is not a defect of the checks by itself -- most mutants do not break any property -- it is a place to read.

usage: mutscan.py [--files a.py,b.py] [--funcs qualname-substring,...] [--jobs N] [--out FILE] [--all-functions]
"""
import ast
import json
import os
import sys
import time
from concurrent.futures import ProcessPoolExecutor

sys.path.insert(0, os.path.dirname(os.path.dirname(os.path.abspath(__file__))))

from xdstat.loader import Program, load_tree      # noqa: E402
from xdstat import selftest                        # noqa: E402
from xdstat.cli import CLAIMED                     # noqa: E402

ROOT = '/repo/src'
SKIP_FILES = ('xdoctest/_tokenize.py', 'xdoctest/demo.py', 'xdoctest/__init__.py', 'xdoctest/utils/util_deprecation.py', 'xdoctest/utils/util_notebook.py',
              'xdoctest/utils/util_mixins.py', 'xdoctest/utils/util_misc.py', 'xdoctest/utils/util_path.py', 'xdoctest/docstr/docscrape_numpy.py')

# report rendering, colouring and debugging helpers: the content of rendered text is not decided by any property clause
SKIP_FUNCS = ('GotWantException', 'ExtractGotReprException', '_color', '_print_captured', '__nice__', '__repr__', '__str__', 'cmdline', '_do_a_fancy_diff')

CMP = {ast.Lt: '<=', ast.LtE: '<', ast.Gt: '>=', ast.GtE: '>', ast.Eq: '!=', ast.NotEq: '==', ast.Is: 'is not', ast.IsNot: 'is', ast.In: 'not in', ast.NotIn: 'in'}


def seg(src_lines, node):
    return ast.get_source_segment('\n'.join(src_lines), node)


class Mut:
    def __init__(self, relpath, func, lineno, kind, old, new, span):
        self.relpath, self.func, self.lineno, self.kind, self.old, self.new, self.span = relpath, func, lineno, kind, old, new, span

    def key(self):
        return '%s:%d %s [%s] %r -> %r' % (self.relpath, self.lineno, self.func, self.kind, self.old[:70], self.new[:70])


def offsets(src):
    offs = [0]
    for ln in src.split('\n'):
        offs.append(offs[-1] + len(ln.encode('utf8')) + 1)
    return offs


def mutants_of(relpath, src, want_func):
    tree = ast.parse(src)
    bsrc = src.encode('utf8')
    offs = offsets(src)

    def span(n):
        return offs[n.lineno - 1] + n.col_offset, offs[n.end_lineno - 1] + n.end_col_offset

    def text(a, b):
        return bsrc[a:b].decode('utf8')
    out = []

    def visit(node, qual):
        for child in ast.iter_child_nodes(node):
            q = qual
            if isinstance(child, (ast.FunctionDef, ast.AsyncFunctionDef, ast.ClassDef)):
                q = (qual + '.' if qual else '') + child.name
            visit(child, q)
            if not qual or not want_func(relpath, qual) or any(sk in qual for sk in SKIP_FUNCS):
                continue
            if isinstance(child, ast.Expr) and isinstance(child.value, ast.Constant):
                continue
            add = lambda kind, a, b, new: out.append(Mut(relpath, qual, child.lineno, kind, text(a, b), new, (a, b)))
            if isinstance(child, ast.Compare):
                prev = child.left
                for op, comp in zip(child.ops, child.comparators):
                    a, b = span(prev)[1], span(comp)[0]
                    t = text(a, b)
                    if type(op) in CMP and '(' not in t and ')' not in t:
                        add('cmp', a, b, ' %s ' % CMP[type(op)])
                    prev = comp
            elif isinstance(child, ast.BoolOp):
                for v1, v2 in zip(child.values, child.values[1:]):
                    a, b = span(v1)[1], span(v2)[0]
                    t = text(a, b)
                    if '(' in t or ')' in t:
                        continue
                    add('boolop', a, b, t.replace('and', 'or') if isinstance(child.op, ast.And) else t.replace('or', 'and'))
            elif isinstance(child, ast.UnaryOp) and isinstance(child.op, ast.Not):
                a, b = span(child)
                oa, ob = span(child.operand)
                add('unnot', a, b, '(' + text(oa, ob) + ')')
            elif isinstance(child, (ast.If, ast.While)) and not (isinstance(child.test, ast.UnaryOp) and isinstance(child.test.op, ast.Not)):
                a, b = span(child.test)
                add('negate', a, b, 'not (' + text(a, b) + ')')
            elif isinstance(child, ast.IfExp):
                a, b = span(child.test)
                add('negate', a, b, 'not (' + text(a, b) + ')')
            elif isinstance(child, ast.BinOp) and isinstance(child.op, (ast.Add, ast.Sub)) and not isinstance(child.left, ast.Constant):
                a, b = span(child.left)[1], span(child.right)[0]
                t = text(a, b)
                if '(' not in t and ')' not in t and ('+' in t or '-' in t):
                    add('arith', a, b, t.replace('+', '-') if isinstance(child.op, ast.Add) else t.replace('-', '+'))
            elif isinstance(child, ast.Constant) and isinstance(child.value, bool):
                a, b = span(child)
                add('const', a, b, str(not child.value))
            elif isinstance(child, ast.Constant) and isinstance(child.value, int) and not isinstance(child.value, bool) and abs(child.value) <= 10:
                a, b = span(child)
                add('const', a, b, str(child.value + 1))
                if child.value > 0:
                    add('const', a, b, str(child.value - 1))
            elif isinstance(child, ast.Call):
                for kw in child.keywords:
                    if kw.arg is None:
                        continue
                    # drop a keyword argument (the default applies)
                    ka, kb = offs[kw.value.lineno - 1] + kw.value.col_offset - len(kw.arg) - 1, span(kw.value)[1]
                    if text(ka, kb).startswith(kw.arg + '='):
                        rest = bsrc[kb:kb + 40].decode('utf8', 'ignore')
                        stripped = rest.lstrip()
                        if stripped.startswith(','):
                            kb2 = kb + (len(rest) - len(stripped)) + 1
                            add('dropkw', ka, kb2, '')
                if len(child.args) >= 2 and not any(isinstance(a_, ast.Starred) for a_ in child.args[:2]):
                    a0, a1 = span(child.args[0]), span(child.args[1])
                    if text(*a0) != text(*a1):
                        add('swapargs', a0[0], a1[1], text(*a1) + text(a0[1], a1[0]) + text(*a0))
            if isinstance(child, (ast.Expr, ast.Assign, ast.AugAssign, ast.Continue, ast.Break, ast.Raise, ast.Delete)) and child.lineno == child.end_lineno or \
                    isinstance(child, (ast.Expr, ast.Assign, ast.AugAssign)) and child.end_lineno - child.lineno < 6:
                if isinstance(child, ast.Expr) and not isinstance(child.value, (ast.Call, ast.Await, ast.Yield, ast.YieldFrom)):
                    continue
                if isinstance(child, ast.Expr) and isinstance(child.value, ast.Call) and isinstance(child.value.func, ast.Name) and child.value.func.id == 'print':
                    continue
                a, b = span(child)
                add('delete', a, b, 'pass')
            elif isinstance(child, ast.Return) and child.value is not None and not (isinstance(child.value, ast.Constant) and child.value.value is None):
                a, b = span(child.value)
                if isinstance(child.value, ast.Constant) and isinstance(child.value.value, bool):
                    pass
                else:
                    add('retnone', a, b, 'None')
    visit(tree, '')
    res = []
    for m in out:
        a, b = m.span
        new = (bsrc[:a] + m.new.encode('utf8') + bsrc[b:]).decode('utf8')
        try:
            compile(new, relpath, 'exec', dont_inherit=True)
        except SyntaxError:
            continue
        m.src = new
        res.append(m)
    return res


_SOURCES = None
_BASE = None


def _init(relevant=None):
    global _SOURCES, _BASE, _RELEVANT
    _SOURCES = load_tree(ROOT)
    _BASE = Program(_SOURCES, root=ROOT)
    _RELEVANT = relevant


_RELEVANT = None


def _analyse(args):
    relpath, src, key = args
    sources = dict(_SOURCES)
    sources[relpath] = src
    caught, err2 = [], []
    for prop in CLAIMED:
        if _RELEVANT is not None and relpath not in _RELEVANT.get(prop, ()):
            continue
        code, viol, err = selftest.analyse(prop, sources, reuse=_BASE)
        if code == 1:
            caught.append('%s:%s' % (prop, ','.join(sorted({v[0].split('.')[1] for v in viol}))))
        elif code == 2:
            err2.append(prop)
    return key, caught, err2


def anchored_functions():
    """qualified names (relative to the module) of the functions any obligation of any property is anchored in, on the clean tree"""
    from xdstat.context import Ctx
    from xdstat.report import Report
    import importlib
    sources = load_tree(ROOT)
    prog = Program(sources, root=ROOT)
    anchors = set()
    relevant = {}
    for prop in CLAIMED:
        mod = importlib.import_module('xdstat.rules.%s' % prop.lower())
        rep = Report(prop, 'quick', 0)
        files = set()

        class RecCtx(Ctx):
            def func(self, q):
                fn = Ctx.func(self, q)
                files.add(fn.module.relpath)
                return fn

            def cls(self, q):
                c = Ctx.cls(self, q)
                files.add(c.module.relpath)
                return c
        ctx = RecCtx(prog, rep)
        mod.run(ctx)
        if prop in ('C11', 'C12', 'C17', 'C05', 'C06'):
            files |= set(sources)       # these have package-wide who-may / re-call-shape rules
        for o in rep.obligations:
            if o.anchor:
                anchors.add(o.anchor)
            if o.loc and o.loc.startswith('src/'):
                files.add(o.loc[4:].split(':')[0])
        # every module a rule of the property built a flow graph or looked a function up in
        for (qn, _k) in ctx._cfg:
            fn = prog.func(qn)
            files.add(fn.module.relpath)
        relevant[prop] = files
    return anchors, relevant


def main(argv):
    jobs = 16
    files = None
    funcs = None
    out = '/tmp/mutscan.json'
    allf = False
    args = list(argv)
    while args:
        a = args.pop(0)
        if a == '--jobs':
            jobs = int(args.pop(0))
        elif a == '--files':
            files = args.pop(0).split(',')
        elif a == '--funcs':
            funcs = args.pop(0).split(',')
        elif a == '--out':
            out = args.pop(0)
        elif a == '--all-functions':
            allf = True
    sources = load_tree(ROOT)
    anchors, relevant = anchored_functions()
    if allf:
        anchors = None

    def modname(relpath):
        return relpath[:-3].replace('/', '.').replace('.__init__', '')

    def want_func(relpath, qual):
        full = modname(relpath) + '.' + qual
        if funcs and not any(s in full for s in funcs):
            return False
        if anchors is None:
            return True
        return any(full == a or full.startswith(a + '.') or a.startswith(full + '.') for a in anchors)
    muts = []
    for relpath, src in sorted(sources.items()):
        if relpath in SKIP_FILES or (files and not any(relpath.endswith(f) for f in files)):
            continue
        muts += mutants_of(relpath, src, want_func)
    print('%d mutants in %d files' % (len(muts), len({m.relpath for m in muts})), flush=True)
    t0 = time.time()
    results = {}
    bykey = {m.key(): m for m in muts}
    with ProcessPoolExecutor(max_workers=jobs, initializer=_init, initargs=(relevant,)) as ex:
        for i, (key, caught, err2) in enumerate(ex.map(_analyse, [(m.relpath, m.src, m.key()) for m in muts], chunksize=4)):
            results[key] = {'caught': caught, 'exit2': err2}
            if (i + 1) % 200 == 0:
                print('  %d / %d  (%.0fs)' % (i + 1, len(muts), time.time() - t0), flush=True)
    surv = [k for k, r in results.items() if not r['caught'] and not r['exit2']]
    only2 = [k for k, r in results.items() if not r['caught'] and r['exit2']]
    print('caught %d, analysis-error only %d, survived %d  (%.0fs)' % (len(results) - len(surv) - len(only2), len(only2), len(surv), time.time() - t0))
    json.dump({'results': results, 'survivors': surv, 'exit2_only': only2,
               'edits': {k: {'relpath': bykey[k].relpath, 'span': list(bykey[k].span), 'new': bykey[k].new, 'func': bykey[k].func, 'lineno': bykey[k].lineno, 'kind': bykey[k].kind, 'old': bykey[k].old} for k in surv}},
              open(out, 'w'), indent=1)
    byfunc = {}
    for k in surv:
        m = bykey[k]
        byfunc.setdefault((m.relpath, m.func), []).append(m)
    with open(out.replace('.json', '.txt'), 'w') as f:
        for (rp, fn), ms in sorted(byfunc.items()):
            f.write('\n== %s %s (%d survivors)\n' % (rp, fn, len(ms)))
            for m in sorted(ms, key=lambda m: m.lineno):
                f.write('  L%d [%s] %s  ->  %s\n' % (m.lineno, m.kind, ' '.join(m.old.split())[:90], ' '.join(m.new.split())[:60]))
    print('survivor listing: %s' % out.replace('.json', '.txt'))


if __name__ == '__main__':
    main(sys.argv[1:])
