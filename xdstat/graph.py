"""
L3: graph queries over a CFG: reachability, dominance of branch edges
(GUARD-DOM), must-pass, witness paths, event counting on acyclic paths.
"""
import ast
from collections import deque


def _succ(n, efilter):
    for (t, k, tok) in n.succ:
        if efilter is None or efilter(n, t, k, tok):
            yield t


def normal_only(a, b, kind, tok):
    return kind == 'n'


def reachable(starts, efilter=None, avoid=(), stop=()):
    """nodes reachable from `starts` (inclusive).  Nodes in `avoid` are never
    entered; nodes in `stop` are entered but not left."""
    avoid = set(id(x) for x in avoid)
    stop = set(id(x) for x in stop)
    seen = {}
    work = deque()
    for s in starts:
        if id(s) not in avoid and id(s) not in seen:
            seen[id(s)] = s
            work.append(s)
    while work:
        n = work.popleft()
        if id(n) in stop:
            continue
        for t in _succ(n, efilter):
            if id(t) in avoid or id(t) in seen:
                continue
            seen[id(t)] = t
            work.append(t)
    return list(seen.values())


def reachable_with_values(starts, efilter=None, nonempty_loops=(), limit=20000):
    """reachability that follows the values of simple locals through the graph (a small abstract interpretation, used where a plain graph
    search calls a path feasible that no execution takes): a local is None / not-None / True / False / unknown; `x = <constant>`, `x = <name
    bound by an except clause>` (an exception object: not None, true) and plain copies are followed, every other binding makes it unknown;
    a branch whose test (`x`, `not x`, `x is None`, `x is not None`, and / or of those) is decided by the values is taken one way only.
    A `for` head in nonempty_loops cannot take its `done` edge before its body ran once.  Returns the nodes reached."""
    nonempty = set(id(x) for x in nonempty_loops)

    def absval(e, env, handler_names):
        if isinstance(e, ast.Constant):
            if e.value is None:
                return 'none'
            if e.value is True:
                return 'true'
            if e.value is False:
                return 'false'
            return 'obj+' if e.value else 'obj-'
        if isinstance(e, ast.Name):
            if e.id in env:
                return env[e.id]
            if e.id in handler_names:
                return 'obj+'
        return None

    def truth(e, env):
        """True / False / None (unknown)"""
        if isinstance(e, ast.UnaryOp) and isinstance(e.op, ast.Not):
            t = truth(e.operand, env)
            return None if t is None else (not t)
        if isinstance(e, ast.BoolOp):
            ts = [truth(v, env) for v in e.values]
            if isinstance(e.op, ast.And):
                return False if any(t is False for t in ts) else (True if all(t is True for t in ts) else None)
            return True if any(t is True for t in ts) else (False if all(t is False for t in ts) else None)
        if isinstance(e, ast.Compare) and len(e.ops) == 1 and isinstance(e.ops[0], (ast.Is, ast.IsNot)) and isinstance(e.comparators[0], ast.Constant) and e.comparators[0].value is None \
                and isinstance(e.left, ast.Name) and e.left.id in env:
            v = env[e.left.id]
            if v is None:
                return None
            return (v == 'none') == isinstance(e.ops[0], ast.Is)
        if isinstance(e, ast.Name) and e.id in env:
            v = env[e.id]
            return {'none': False, 'true': True, 'false': False, 'obj+': True, 'obj-': False}.get(v)
        return None
    seen = set()
    out = {}
    work = deque()
    for s_ in starts:
        work.append((s_, frozenset(), frozenset()))
    steps = 0
    while work:
        n, envf, iterated = work.popleft()
        key = (id(n), envf, iterated)
        if key in seen:
            continue
        seen.add(key)
        out[id(n)] = n
        steps += 1
        if steps > limit:
            raise RuntimeError('reachable_with_values: state limit')
        env = dict(envf)
        handler_names = {x for x in env if env[x] == '@handler'}
        # effect of the node
        if n.kind == 'handler' and isinstance(n.ast, ast.ExceptHandler) and n.ast.name:
            env[n.ast.name] = 'obj+'
        elif n.kind == 'stmt' and isinstance(n.ast, ast.Assign):
            for t in n.ast.targets:
                if isinstance(t, ast.Name):
                    env[t.id] = absval(n.ast.value, env, handler_names)
                else:
                    for y in ast.walk(t):
                        if isinstance(y, ast.Name) and isinstance(y.ctx, ast.Store):
                            env[y.id] = None
        elif n.kind in ('stmt', 'for', 'with_enter') and isinstance(n.ast, ast.AST):
            for y in ast.walk(n.ast if n.kind != 'for' else n.ast.target):
                if isinstance(y, ast.Name) and isinstance(y.ctx, (ast.Store, ast.Del)):
                    env[y.id] = None
        if n.kind == 'branch':
            tn = n.attrs.get('test')
            pol = n.attrs.get('polarity')
            if tn is not None and tn.kind == 'test' and pol in (True, False):
                t = truth(tn.ast, env)
                if t is not None and t != pol:
                    continue
                # refine
                e = tn.ast
                neg = False
                while isinstance(e, ast.UnaryOp) and isinstance(e.op, ast.Not):
                    e, neg = e.operand, not neg
                holds = (pol != neg)
                if isinstance(e, ast.Compare) and len(e.ops) == 1 and isinstance(e.ops[0], (ast.Is, ast.IsNot)) and isinstance(e.left, ast.Name) and \
                        isinstance(e.comparators[0], ast.Constant) and e.comparators[0].value is None:
                    is_none = holds == isinstance(e.ops[0], ast.Is)
                    if is_none:
                        env[e.left.id] = 'none'
                    elif env.get(e.left.id) in (None, 'none'):
                        env[e.left.id] = env.get(e.left.id) if env.get(e.left.id) not in ('none',) else None
            if tn is not None and tn.kind == 'for':
                if pol == 'iter':
                    iterated = iterated | {id(tn)}
                elif pol == 'done' and id(tn) in nonempty and id(tn) not in iterated:
                    continue
        envf2 = frozenset((k, v) for k, v in env.items() if v is not None)
        is_binding = n.kind == 'stmt' and isinstance(n.ast, ast.Assign)
        for (t_, k_, tok_) in n.succ:
            if efilter is None or efilter(n, t_, k_, tok_):
                # an exception raised by `x = <value>` is raised while the value is computed: x still holds what it held before
                work.append((t_, envf if (k_ == 'e' and is_binding) else envf2, iterated))
    return list(out.values())


def path(starts, goal_pred, efilter=None, avoid=(), stop=()):
    """shortest path (list of nodes) from any start to a node satisfying
    goal_pred, or None."""
    avoid = set(id(x) for x in avoid)
    stop = set(id(x) for x in stop)
    prev = {}
    work = deque()
    for s in starts:
        if id(s) in avoid or id(s) in prev:
            continue
        prev[id(s)] = (s, None)
        work.append(s)
    while work:
        n = work.popleft()
        if goal_pred(n):
            out = []
            cur = n
            while cur is not None:
                out.append(cur)
                cur = prev[id(cur)][1]
            return out[::-1]
        if id(n) in stop:
            continue
        for t in _succ(n, efilter):
            if id(t) in avoid or id(t) in prev:
                continue
            prev[id(t)] = (t, n)
            work.append(t)
    return None


def exc_path(start_edges, goal_pred, efilter=None, avoid=(), stop=()):
    """token-sensitive shortest path: start_edges = [(node, token)] are the
    targets of exceptional edges.  While an exception is in flight or being
    handled, an exceptional edge that merely *continues / re-raises* (its
    token is not one the source node raises itself) is followed only when it
    carries the token currently handled."""
    avoid = set(id(x) for x in avoid)
    stop = set(id(x) for x in stop)
    prev = {}
    work = deque()
    for (s, tok) in start_edges:
        key = (id(s), tok)
        if id(s) in avoid or key in prev:
            continue
        prev[key] = (s, None)
        work.append((s, tok))
    while work:
        n, cur = work.popleft()
        if goal_pred(n):
            out = []
            key = (id(n), cur)
            while key is not None:
                node, pk = prev[key]
                out.append(node)
                key = pk
            return out[::-1]
        if id(n) in stop:
            continue
        own = n.attrs.get('own', None)
        for (t, kind, tok) in n.succ:
            if efilter is not None and not efilter(n, t, kind, tok):
                continue
            if id(t) in avoid:
                continue
            ncur = cur
            if kind == 'e':
                if own is not None and tok in own:
                    ncur = tok
                elif tok != cur:
                    continue
            key = (id(t), ncur)
            if key in prev:
                continue
            prev[key] = (t, (id(n), cur))
            work.append((t, ncur))
    return None


def _env_truth(e, env):
    """truth of test expression e under env {name: constant}; None if undecided"""
    if isinstance(e, ast.UnaryOp) and isinstance(e.op, ast.Not):
        t = _env_truth(e.operand, env)
        return None if t is None else not t
    if isinstance(e, ast.Name) and e.id in env:
        return bool(env[e.id])
    if isinstance(e, ast.Compare) and len(e.ops) == 1 and isinstance(e.left, ast.Name) and e.left.id in env and isinstance(e.comparators[0], ast.Constant):
        v, c, op = env[e.left.id], e.comparators[0].value, e.ops[0]
        if isinstance(op, (ast.Is, ast.IsNot)):
            r = (v is c) if (c is None or isinstance(c, bool)) else (v == c)
            return r if isinstance(op, ast.Is) else not r
        if isinstance(op, (ast.Eq, ast.NotEq)):
            return (v == c) if isinstance(op, ast.Eq) else (v != c)
    if isinstance(e, ast.BoolOp):
        ts = [_env_truth(v, env) for v in e.values]
        if isinstance(e.op, ast.And):
            if any(t is False for t in ts):
                return False
            return True if all(t is True for t in ts) else None
        if any(t is True for t in ts):
            return True
        return False if all(t is False for t in ts) else None
    return None


def env_search(starts, goal_pred=None, efilter=None, avoid=(), stop=(), env0=None):
    """path-sensitive search that remembers the constants assigned to plain local names on the way and prunes the branches those constants
    decide (a `reason = 'x'` ... `if reason is not None:` correlation).  Returns (reached nodes, witness path to the first goal node or None)."""
    avoid = set(id(x) for x in avoid)
    stop = set(id(x) for x in stop)
    env0 = tuple(sorted((env0 or {}).items(), key=repr))
    prev = {}
    work = deque()
    reached = {}
    for s in starts:
        if id(s) in avoid:
            continue
        k = (id(s), env0)
        if k in prev:
            continue
        prev[k] = (s, None)
        work.append((s, env0))
    while work:
        n, envt = work.popleft()
        reached[id(n)] = n
        if goal_pred is not None and goal_pred(n):
            out = []
            k = (id(n), envt)
            while k is not None:
                node, pk = prev[k]
                out.append(node)
                k = pk
            return list(reached.values()), out[::-1]
        if id(n) in stop:
            continue
        env = dict(envt)
        if n.kind == 'stmt' and isinstance(n.ast, ast.Assign) and len(n.ast.targets) == 1 and isinstance(n.ast.targets[0], ast.Name):
            nm = n.ast.targets[0].id
            if isinstance(n.ast.value, ast.Constant):
                env[nm] = n.ast.value.value
            else:
                env.pop(nm, None)
        elif n.kind == 'stmt' and isinstance(n.ast, (ast.AugAssign, ast.For, ast.With, ast.Delete)) or n.kind in ('branch',) and n.attrs.get('polarity') == 'iter':
            for x in ast.walk(n.ast if isinstance(n.ast, ast.AST) else ast.Pass()):
                if isinstance(x, ast.Name) and isinstance(x.ctx, (ast.Store, ast.Del)):
                    env.pop(x.id, None)
        nenvt = tuple(sorted(env.items(), key=repr))
        for (t, kind, tok) in n.succ:
            if efilter is not None and not efilter(n, t, kind, tok):
                continue
            if id(t) in avoid:
                continue
            if t.kind == 'branch' and t.attrs['test'].kind == 'test' and t.attrs['polarity'] in (True, False):
                tr = _env_truth(t.attrs['test'].ast, env)
                if tr is not None and tr != t.attrs['polarity']:
                    continue
            k = (id(t), nenvt)
            if k in prev:
                continue
            prev[k] = (t, (id(n), envt))
            work.append((t, nenvt))
    return list(reached.values()), None


def in_loop_body(node, loop_stmt):
    """node lies inside the body of the given for/while statement (code after
    the loop that is reachable through `break` does not)"""
    return any(fr.kind == 'loop' and fr.stmt is loop_stmt for fr in node.frames)


def const_branch_filter(rd):
    """edge filter pruning branches of tests `name ==/!= <const>` (or bare
    `name`) that are decided by the constants reaching the test"""
    import ast as _ast

    def ef(a, b, kind, tok):
        if b.kind == 'branch' and b.attrs['test'].kind == 'test':
            t = b.attrs['test']
            e = t.ast
            neg = False
            while isinstance(e, _ast.UnaryOp) and isinstance(e.op, _ast.Not):
                e = e.operand
                neg = not neg
            if isinstance(e, _ast.Name):
                defs = rd.at(t, e.id)
                if defs and all(isinstance(d.value, _ast.Constant) and d.kind == 'assign' for d in defs):
                    truths = {bool(d.value.value) != neg for d in defs}
                    if len(truths) == 1 and b.attrs['polarity'] != next(iter(truths)):
                        return False
                return True
            e = t.ast
            if isinstance(e, _ast.Compare) and len(e.ops) == 1 and isinstance(e.left, _ast.Name) and isinstance(e.comparators[0], _ast.Constant) \
                    and isinstance(e.ops[0], (_ast.Eq, _ast.NotEq, _ast.Is, _ast.IsNot)):
                defs = rd.at(t, e.left.id)
                if defs and all(isinstance(d.value, _ast.Constant) and d.kind == 'assign' for d in defs):
                    vals = {d.value.value for d in defs}
                    eq = isinstance(e.ops[0], (_ast.Eq, _ast.Is))
                    truths = {(v == e.comparators[0].value) == eq for v in vals}
                    if len(truths) == 1 and b.attrs['polarity'] != next(iter(truths)):
                        return False
        return True
    return ef


def region_of_loop(cfg, loop_head):
    """per-iteration region of a for/while loop: entry = the branch node that
    enters the body, back edges cut at the head."""
    for b in loop_head.nsucc():
        if b.kind == 'branch' and b.attrs['polarity'] in ('iter', True):
            return b, [loop_head]
    raise ValueError('loop head without body branch')


class Dom:
    """dominator sets relative to `entry`, never walking through `cut` nodes
    (back edges cut at a loop head make every statement per-iteration)."""

    def __init__(self, entry, cut=(), efilter=None):
        self.entry = entry
        self.cut = list(cut)
        self.efilter = efilter
        nodes = reachable([entry], efilter, avoid=cut)
        self.nodes = nodes
        index = {id(n): i for i, n in enumerate(nodes)}
        self.index = index
        preds = [[] for _ in nodes]
        for n in nodes:
            for t in _succ(n, efilter):
                if id(t) in index:
                    preds[index[id(t)]].append(index[id(n)])
        full = (1 << len(nodes)) - 1
        dom = [full] * len(nodes)
        e = index[id(entry)]
        dom[e] = 1 << e
        # reverse post order for fast convergence
        order = self._rpo(nodes, index, efilter)
        changed = True
        while changed:
            changed = False
            for i in order:
                if i == e:
                    continue
                new = full
                for p in preds[i]:
                    new &= dom[p]
                new |= (1 << i)
                if new != dom[i]:
                    dom[i] = new
                    changed = True
        self.dom = dom

    def _rpo(self, nodes, index, efilter):
        seen = set()
        order = []
        stack = [(index[id(self.entry)], iter(list(_succ(self.entry, efilter))))]
        seen.add(index[id(self.entry)])
        while stack:
            i, it = stack[-1]
            adv = False
            for t in it:
                j = index.get(id(t))
                if j is None or j in seen:
                    continue
                seen.add(j)
                stack.append((j, iter(list(_succ(nodes[j], efilter)))))
                adv = True
                break
            if not adv:
                order.append(i)
                stack.pop()
        return order[::-1]

    def has(self, n):
        return id(n) in self.index

    def dominators(self, n):
        i = self.index[id(n)]
        d = self.dom[i]
        return [m for j, m in enumerate(self.nodes) if (d >> j) & 1]

    def dominates(self, a, b):
        if id(a) not in self.index or id(b) not in self.index:
            return False
        return bool((self.dom[self.index[id(b)]] >> self.index[id(a)]) & 1)

    def guards(self, n):
        """branch / handler nodes that dominate n (the edges every path from
        the region entry to n traverses)."""
        return [m for m in self.dominators(n) if m.kind in ('branch', 'handler') and m is not n]


class Fact:
    """an atomic condition known to hold: expression `expr` has truth value
    `polarity` (or for-loop produced an item / is exhausted)."""

    def __init__(self, expr, polarity, origin=None):
        self.expr = expr
        self.polarity = polarity
        self.origin = origin
        self.text = ast.unparse(expr) if isinstance(expr, ast.AST) else str(expr)

    def key(self):
        return (self.text, self.polarity)

    def __repr__(self):
        return '%s%s' % ('' if self.polarity is True else ('!' if self.polarity is False else str(self.polarity) + ':'), self.text)


def facts_of(expr, polarity, origin=None):
    """atomic facts implied by `expr` evaluating to `polarity`; compound
    tests that do not decompose are kept as one fact."""
    if polarity in ('iter', 'done'):
        return [Fact(expr, polarity, origin)]
    if isinstance(expr, ast.UnaryOp) and isinstance(expr.op, ast.Not):
        return facts_of(expr.operand, not polarity, origin)
    if isinstance(expr, ast.BoolOp):
        if isinstance(expr.op, ast.And) and polarity is True:
            out = []
            for v in expr.values:
                out += facts_of(v, True, origin)
            return out
        if isinstance(expr.op, ast.Or) and polarity is False:
            out = []
            for v in expr.values:
                out += facts_of(v, False, origin)
            return out
        return [Fact(expr, polarity, origin)]
    if isinstance(expr, ast.Compare) and len(expr.ops) == 1:
        # normalise negated comparison operators
        neg = {ast.NotEq: ast.Eq, ast.IsNot: ast.Is, ast.NotIn: ast.In}
        for k, v in neg.items():
            if isinstance(expr.ops[0], k):
                e2 = ast.Compare(left=expr.left, ops=[v()], comparators=expr.comparators)
                return [Fact(e2, not polarity, origin)]
    return [Fact(expr, polarity, origin)]


def guard_facts(dom, n):
    out = []
    for b in dom.guards(n):
        if b.kind == 'branch':
            t = b.attrs['test']
            expr = t.ast if t.kind == 'test' else t.ast.iter
            out += facts_of(expr, b.attrs['polarity'], b)
        else:
            out.append(Fact(ast.Constant(value='except %s' % (b.attrs['classes'],)), 'handler', b))
    rdf = getattr(dom, 'rd_factory', None)
    if rdf is not None:
        out = _expand_named_facts(dom, out, rdf)
    return out


def _const_of(e):
    if isinstance(e, ast.Constant):
        return (True, e.value)
    return (False, None)


def _expand_named_facts(dom, facts, rdf, depth=0):
    """see through local names used as conditions:
    (a) `if flag:` where `flag` has one reaching definition, a boolean expression -> the facts of that expression;
    (b) `if reason is None:` / `== 'k'` / truthiness where every reaching definition of `reason` is a constant: if exactly one definition
        is consistent with the fact, the path went through it, so the facts guarding that definition hold as well."""
    if depth > 2:
        return facts
    rd = None
    extra = []
    for fa in facts:
        if fa.polarity not in (True, False) or fa.origin is None or fa.origin.kind != 'branch':
            continue
        e = fa.expr
        if isinstance(e, ast.Call) and getattr(dom, 'pred_resolver', None) is not None:
            # (c) a predicate extracted into a method of the same class: `if self._all_parts_skipped():`
            body = dom.pred_resolver(e)
            if body is not None:
                extra += _expand_named_facts(dom, facts_of(body, fa.polarity, fa.origin), rdf, depth + 1)
            continue
        name = None
        consistent = None
        if isinstance(e, ast.Name):
            name = e.id
            consistent = lambda v, pol=fa.polarity: bool(v) == pol
        elif isinstance(e, ast.Compare) and len(e.ops) == 1 and isinstance(e.left, ast.Name) and isinstance(e.comparators[0], ast.Constant) and isinstance(e.ops[0], (ast.Is, ast.Eq)):
            name = e.left.id
            c = e.comparators[0].value
            consistent = lambda v, pol=fa.polarity, c=c: ((v is c) if c is None or isinstance(c, bool) else (v == c)) == pol
        if name is None:
            continue
        if rd is None:
            try:
                rd = rdf()
            except Exception:
                return facts
        t = fa.origin.attrs['test']
        defs = rd.at(t, name)
        if not defs or any(d.kind != 'assign' for d in defs):
            continue
        pure_read = isinstance(defs[0].value, ast.Subscript) and isinstance(defs[0].value.slice, ast.Constant) and isinstance(defs[0].value.value, ast.Name) if len(defs) == 1 else False
        if isinstance(e, ast.Name) and len(defs) == 1 and (isinstance(defs[0].value, (ast.BoolOp, ast.Compare, ast.UnaryOp)) or pure_read):
            # (a) named condition
            if not _names_redefined_between(rd, defs[0], t):
                extra += _expand_named_facts(dom, facts_of(defs[0].value, fa.polarity, fa.origin), rdf, depth + 1)
            continue
        consts = [_const_of(d.value) if isinstance(d.value, ast.AST) else (False, None) for d in defs]
        if not all(ok for ok, _ in consts):
            continue
        cands = [d for d, (_, v) in zip(defs, consts) if consistent(v)]
        if len(cands) == 1 and dom.has(cands[0].node):
            for g_ in guard_facts_plain(dom, cands[0].node):
                extra.append(g_)
    if not extra:
        return facts
    seen = set(f.key() for f in facts)
    out = list(facts)
    for f in extra:
        if f.key() not in seen:
            seen.add(f.key())
            out.append(f)
    return out


def _names_redefined_between(rd, d, t):
    """some name read by the defining expression of d has a different set of reaching definitions at test node t than at d"""
    for x in ast.walk(d.value):
        if isinstance(x, ast.Name) and isinstance(x.ctx, ast.Load):
            a = set(id(z) for z in rd.at(d.node, x.id))
            b = set(id(z) for z in rd.at(t, x.id))
            if a != b:
                return True
    return False


def guard_facts_plain(dom, n):
    out = []
    for b in dom.guards(n):
        if b.kind == 'branch':
            t = b.attrs['test']
            expr = t.ast if t.kind == 'test' else t.ast.iter
            out += facts_of(expr, b.attrs['polarity'], b)
    return out


def short_circuit_facts(root, expr, origin=None):
    """facts that hold whenever sub-expression `expr` of `root` is evaluated: earlier operands of an enclosing `and` are true,
    of an enclosing `or` false, the test of an enclosing conditional expression has the polarity of the arm"""
    out = []
    chain = []
    cur = expr
    while cur is not None and cur is not root:
        par = getattr(cur, '_parent', None)
        if par is None:
            break
        chain.append((par, cur))
        cur = par
    for (par, child) in chain:
        if isinstance(par, ast.BoolOp):
            idx = [i for i, v in enumerate(par.values) if v is child]
            if idx:
                for v in par.values[:idx[0]]:
                    out += facts_of(v, isinstance(par.op, ast.And), origin)
        elif isinstance(par, ast.IfExp):
            if child is par.body:
                out += facts_of(par.test, True, origin)
            elif child is par.orelse:
                out += facts_of(par.test, False, origin)
    return out


def guard_facts_at(dom, n, expr):
    """guard_facts of node n plus the short-circuit facts under which `expr` (a sub-expression of n's statement / test) is evaluated"""
    out = guard_facts(dom, n)
    root = n.ast if isinstance(n.ast, ast.AST) else None
    if root is not None and expr is not None:
        sc = short_circuit_facts(root, expr)
        rdf = getattr(dom, 'rd_factory', None)
        if sc and rdf is not None:
            # give the short-circuit facts an origin so that local names in them can be resolved at this node
            class _O:
                kind = 'branch'
                attrs = {'test': n}
            for fa in sc:
                if fa.origin is None:
                    fa.origin = _O()
            sc = _expand_named_facts(dom, sc, rdf)
        out = out + sc
    return out


def must_pass(starts, goal_pred, through, efilter=None, avoid=(), stop=()):
    """None if every path start -> goal meets a node of `through`;
    otherwise a witness path avoiding `through`."""
    return path(starts, goal_pred, efilter, avoid=list(avoid) + list(through), stop=stop)


def back_edges(entry, efilter=None, avoid=()):
    """edges (a, b) closing a cycle in a DFS from entry"""
    avoid = set(id(x) for x in avoid)
    color = {}
    out = set()
    stack = [(entry, iter(list(_succ(entry, efilter))))]
    color[id(entry)] = 1
    while stack:
        n, it = stack[-1]
        adv = False
        for t in it:
            if id(t) in avoid:
                continue
            c = color.get(id(t), 0)
            if c == 0:
                color[id(t)] = 1
                stack.append((t, iter(list(_succ(t, efilter)))))
                adv = True
                break
            if c == 1:
                out.add((id(n), id(t)))
        if not adv:
            color[id(n)] = 2
            stack.pop()
    return out


def count_events(entry, is_event, is_exit, efilter=None, avoid=()):
    """(min, max, witness_min, witness_max) number of event nodes on acyclic
    paths from entry to each exit-kind node; result dict: exit node -> (lo, hi).
    Inner-loop back edges are cut (an event inside an inner loop counts once)."""
    be = back_edges(entry, efilter, avoid)
    avoid_ids = set(id(x) for x in avoid)
    nodes = reachable([entry], efilter, avoid=avoid)
    idx = {id(n): n for n in nodes}
    indeg = {id(n): 0 for n in nodes}
    succs = {}
    for n in nodes:
        ss = []
        for t in _succ(n, efilter):
            if id(t) in avoid_ids or (id(n), id(t)) in be or id(t) not in idx:
                continue
            ss.append(t)
        # dedupe
        uniq = []
        seen = set()
        for t in ss:
            if id(t) not in seen:
                seen.add(id(t))
                uniq.append(t)
        succs[id(n)] = uniq
        for t in uniq:
            indeg[id(t)] += 1
    lo = {}
    hi = {}
    lo_prev = {}
    hi_prev = {}
    e0 = 1 if is_event(entry) else 0
    lo[id(entry)] = hi[id(entry)] = e0
    work = deque([n for n in nodes if indeg[id(n)] == 0])
    order = []
    while work:
        n = work.popleft()
        order.append(n)
        for t in succs[id(n)]:
            indeg[id(t)] -= 1
            if indeg[id(t)] == 0:
                work.append(t)
    for n in order:
        if id(n) not in lo:
            continue
        for t in succs[id(n)]:
            ev = 1 if is_event(t) else 0
            a = lo[id(n)] + ev
            b = hi[id(n)] + ev
            if id(t) not in lo or a < lo[id(t)]:
                lo[id(t)] = a
                lo_prev[id(t)] = n
            if id(t) not in hi or b > hi[id(t)]:
                hi[id(t)] = b
                hi_prev[id(t)] = n
    res = {}
    for n in nodes:
        if is_exit(n) and id(n) in lo:
            res[id(n)] = (n, lo[id(n)], hi[id(n)], _trace(n, lo_prev), _trace(n, hi_prev))
    return res


def _trace(n, prev):
    out = [n]
    while id(out[-1]) in prev:
        out.append(prev[id(out[-1])])
    return out[::-1]


def fmt_path(p, relpath='', limit=40):
    steps = []
    for n in p:
        if n.kind in ('branch',):
            steps.append('%s:%d [%s branch]' % (relpath, n.lineno, n.attrs['polarity']))
        elif n.kind in ('entry', 'exit', 'raise'):
            steps.append(n.kind)
        else:
            steps.append('%s:%d %s' % (relpath, n.lineno, n.kind))
    if len(steps) > limit:
        steps = steps[:limit // 2] + ['...'] + steps[-limit // 2:]
    return steps
