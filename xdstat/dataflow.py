"""
L4: reaching definitions over a CFG (locals and `self.<attr>` fields).

A definition made by a statement does not flow along the exceptional edges
leaving that statement (the store did not happen when its evaluation raised).
"""
import ast


class Def:
    __slots__ = ('node', 'name', 'value', 'kind', 'target')

    def __init__(self, node, name, value, kind, target=None):
        self.node = node
        self.name = name
        self.value = value     # ast expr, or None
        self.kind = kind       # 'assign' | 'unpack' | 'aug' | 'iter' | 'with' | 'exc' | 'param' | 'def' | 'import' | 'del'
        self.target = target

    @property
    def lineno(self):
        return self.node.lineno if self.node is not None else 0

    @property
    def base(self):
        """the expression this definition takes its value from (the iterated /
        unpacked expression for loop targets and tuple targets)"""
        v = self.value
        while isinstance(v, tuple):
            v = v[1]
        return v

    def __repr__(self):
        v = ast.unparse(self.value) if isinstance(self.value, ast.AST) else self.value
        return '<Def %s@%s %s=%s>' % (self.kind, self.lineno, self.name, v)


def _target_defs(node, target, value, receiver, out, kind='assign'):
    if isinstance(target, ast.Name):
        out.append(Def(node, target.id, value, kind, target))
    elif isinstance(target, (ast.Tuple, ast.List)):
        for i, elt in enumerate(target.elts):
            sub = None
            if isinstance(value, (ast.Tuple, ast.List)) and len(value.elts) == len(target.elts) and kind == 'assign':
                _target_defs(node, elt, value.elts[i], receiver, out, 'assign')
            else:
                _target_defs(node, elt, ('unpack', value, i) if kind in ('assign', 'unpack') else (kind, value, i), receiver, out, 'unpack' if kind == 'assign' else kind)
    elif isinstance(target, ast.Attribute):
        name = field_name(target, receiver)
        if name:
            out.append(Def(node, name, value, kind, target))
    elif isinstance(target, ast.Starred):
        _target_defs(node, target.value, value, receiver, out, kind)


def field_name(expr, receiver):
    """'self.a' / 'self.a.b' for attribute chains rooted at the receiver"""
    parts = []
    cur = expr
    while isinstance(cur, ast.Attribute):
        parts.append(cur.attr)
        cur = cur.value
    if isinstance(cur, ast.Name) and cur.id == receiver:
        return receiver + '.' + '.'.join(reversed(parts))
    return None


def node_defs(node, receiver):
    out = []
    if node.kind == 'stmt':
        s = node.ast
        if isinstance(s, ast.Assign):
            for t in s.targets:
                _target_defs(node, t, s.value, receiver, out)
        elif isinstance(s, ast.AnnAssign):
            if s.value is not None:
                _target_defs(node, s.target, s.value, receiver, out)
        elif isinstance(s, ast.AugAssign):
            _target_defs(node, s.target, s, receiver, out, 'aug')
        elif isinstance(s, (ast.FunctionDef, ast.AsyncFunctionDef, ast.ClassDef)):
            out.append(Def(node, s.name, None, 'def'))
        elif isinstance(s, (ast.Import, ast.ImportFrom)):
            for al in s.names:
                out.append(Def(node, al.asname or al.name.split('.')[0], None, 'import'))
        elif isinstance(s, ast.Delete):
            for t in s.targets:
                if isinstance(t, ast.Name):
                    out.append(Def(node, t.id, None, 'del', t))
    elif node.kind == 'branch' and node.attrs['polarity'] == 'iter':
        f = node.attrs['test'].ast
        _target_defs(node, f.target, f.iter, receiver, out, 'iter')
    elif node.kind == 'with_enter':
        item = node.ast
        if item.optional_vars is not None:
            _target_defs(node, item.optional_vars, item.context_expr, receiver, out, 'with')
    elif node.kind == 'handler':
        h = node.ast
        if h.name:
            out.append(Def(node, h.name, None, 'exc'))
    # walrus
    if node.kind in ('stmt', 'test') and isinstance(node.ast, ast.AST):
        for sub in ast.walk(node.ast):
            if isinstance(sub, ast.NamedExpr):
                out.append(Def(node, sub.target.id, sub.value, 'assign', sub.target))
    return out


class ReachingDefs:
    def __init__(self, cfg, receiver='self', params=None):
        self.cfg = cfg
        self.receiver = receiver
        self.defs = []
        self.by_node = {}
        entry_defs = []
        fn = cfg.fnode
        if hasattr(fn, 'args'):
            a = fn.args
            for arg in a.posonlyargs + a.args + a.kwonlyargs + ([a.vararg] if a.vararg else []) + ([a.kwarg] if a.kwarg else []):
                entry_defs.append(Def(cfg.entry, arg.arg, None, 'param'))
        self.by_node[id(cfg.entry)] = entry_defs
        self.defs += entry_defs
        for n in cfg.nodes:
            if n is cfg.entry:
                continue
            ds = node_defs(n, receiver)
            if ds:
                self.by_node[id(n)] = ds
                self.defs += ds
        self.index = {id(d): i for i, d in enumerate(self.defs)}
        self.by_name = {}
        for d in self.defs:
            self.by_name.setdefault(d.name, []).append(d)
        self._solve()

    def _solve(self):
        cfg = self.cfg
        name_mask = {}
        for name, ds in self.by_name.items():
            m = 0
            for d in ds:
                m |= 1 << self.index[id(d)]
            name_mask[name] = m
            # a store to self.a kills self.a.b as well
        IN = {id(n): 0 for n in cfg.nodes}
        OUT = {id(n): 0 for n in cfg.nodes}
        gen = {}
        kill = {}
        for n in cfg.nodes:
            g = 0
            k = 0
            for d in self.by_node.get(id(n), []):
                k |= name_mask[d.name]
                for other in name_mask:
                    if other.startswith(d.name + '.'):
                        k |= name_mask[other]
            for d in self.by_node.get(id(n), []):
                g |= 1 << self.index[id(d)]
            gen[id(n)] = g
            kill[id(n)] = k
        work = list(cfg.nodes)
        inwork = set(id(n) for n in work)
        while work:
            n = work.pop()
            inwork.discard(id(n))
            i = IN[id(n)]
            o = (i & ~kill[id(n)]) | gen[id(n)]
            OUT[id(n)] = o
            for (t, kind, tok) in n.succ:
                flow = i if (kind == 'e' and n.kind != 'with_exit' and n.kind != 'finally_enter' and gen[id(n)]) else o
                # exceptional edge out of a defining statement: the store did not happen
                new = IN[id(t)] | flow
                if new != IN[id(t)]:
                    IN[id(t)] = new
                    if id(t) not in inwork:
                        inwork.add(id(t))
                        work.append(t)
        self.IN = IN
        self.OUT = OUT

    def at(self, node, name, after=False):
        """definitions of `name` reaching the entry (or exit) of node"""
        bits = (self.OUT if after else self.IN)[id(node)]
        return [d for d in self.by_name.get(name, []) if (bits >> self.index[id(d)]) & 1]

    def defs_of(self, name):
        return list(self.by_name.get(name, []))


def names_loaded(expr):
    return [n for n in ast.walk(expr) if isinstance(n, ast.Name) and isinstance(n.ctx, ast.Load)]


def contains(expr, sub):
    return any(n is sub for n in ast.walk(expr))


def find_calls(tree, pred=None):
    out = []
    for n in ast.walk(tree):
        if isinstance(n, ast.Call) and (pred is None or pred(n)):
            out.append(n)
    return out


def call_name(call):
    """written callee: 'exec', 'asyncio.run', 'self._post_run', ..."""
    try:
        return ast.unparse(call.func)
    except Exception:
        return '?'
