"""
L4: reaching definitions over a CFG (locals and `self.<attr>` fields).

A definition made by a statement does not flow along the exceptional edges
leaving that statement (the store did not happen when its evaluation raised).
"""
import ast


class Def:
    __slots__ = ('node', 'name', 'value', 'kind', 'target')

    def __init__(self, node, name, value, kind, target=None):
        self.node = node
        self.name = name
        self.value = value     # ast expr, or None
        self.kind = kind       # 'assign' | 'unpack' | 'aug' | 'iter' | 'with' | 'exc' | 'param' | 'def' | 'import' | 'del'
        self.target = target

    @property
    def lineno(self):
        return self.node.lineno if self.node is not None else 0

    @property
    def base(self):
        """the expression this definition takes its value from (the iterated /
        unpacked expression for loop targets and tuple targets)"""
        v = self.value
        while isinstance(v, tuple):
            v = v[1]
        return v

    def __repr__(self):
        v = ast.unparse(self.value) if isinstance(self.value, ast.AST) else self.value
        return '<Def %s@%s %s=%s>' % (self.kind, self.lineno, self.name, v)


def _target_defs(node, target, value, receiver, out, kind='assign'):
    if isinstance(target, ast.Name):
        out.append(Def(node, target.id, value, kind, target))
    elif isinstance(target, (ast.Tuple, ast.List)):
        for i, elt in enumerate(target.elts):
            sub = None
            if isinstance(value, (ast.Tuple, ast.List)) and len(value.elts) == len(target.elts) and kind == 'assign':
                _target_defs(node, elt, value.elts[i], receiver, out, 'assign')
            else:
                _target_defs(node, elt, ('unpack', value, i) if kind in ('assign', 'unpack') else (kind, value, i), receiver, out, 'unpack' if kind == 'assign' else kind)
    elif isinstance(target, ast.Attribute):
        name = field_name(target, receiver)
        if name:
            out.append(Def(node, name, value, kind, target))
    elif isinstance(target, ast.Starred):
        _target_defs(node, target.value, value, receiver, out, kind)


def field_name(expr, receiver):
    """'self.a' / 'self.a.b' for attribute chains rooted at the receiver"""
    parts = []
    cur = expr
    while isinstance(cur, ast.Attribute):
        parts.append(cur.attr)
        cur = cur.value
    if isinstance(cur, ast.Name) and cur.id == receiver:
        return receiver + '.' + '.'.join(reversed(parts))
    return None


def node_defs(node, receiver):
    out = []
    if node.kind == 'stmt':
        s = node.ast
        if isinstance(s, ast.Assign):
            for t in s.targets:
                _target_defs(node, t, s.value, receiver, out)
        elif isinstance(s, ast.AnnAssign):
            if s.value is not None:
                _target_defs(node, s.target, s.value, receiver, out)
        elif isinstance(s, ast.AugAssign):
            _target_defs(node, s.target, s, receiver, out, 'aug')
        elif isinstance(s, (ast.FunctionDef, ast.AsyncFunctionDef, ast.ClassDef)):
            out.append(Def(node, s.name, None, 'def'))
        elif isinstance(s, (ast.Import, ast.ImportFrom)):
            for al in s.names:
                out.append(Def(node, al.asname or al.name.split('.')[0], None, 'import'))
        elif isinstance(s, ast.Delete):
            for t in s.targets:
                if isinstance(t, ast.Name):
                    out.append(Def(node, t.id, None, 'del', t))
    elif node.kind == 'branch' and node.attrs['polarity'] == 'iter':
        f = node.attrs['test'].ast
        _target_defs(node, f.target, f.iter, receiver, out, 'iter')
    elif node.kind == 'with_enter':
        item = node.ast
        if item.optional_vars is not None:
            _target_defs(node, item.optional_vars, item.context_expr, receiver, out, 'with')
    elif node.kind == 'handler':
        h = node.ast
        if h.name:
            out.append(Def(node, h.name, None, 'exc'))
    # walrus
    if node.kind in ('stmt', 'test') and isinstance(node.ast, ast.AST):
        for sub in ast.walk(node.ast):
            if isinstance(sub, ast.NamedExpr):
                out.append(Def(node, sub.target.id, sub.value, 'assign', sub.target))
    return out


class ReachingDefs:
    def __init__(self, cfg, receiver='self', params=None):
        self.cfg = cfg
        self.receiver = receiver
        self.defs = []
        self.by_node = {}
        entry_defs = []
        fn = cfg.fnode
        if hasattr(fn, 'args'):
            a = fn.args
            for arg in a.posonlyargs + a.args + a.kwonlyargs + ([a.vararg] if a.vararg else []) + ([a.kwarg] if a.kwarg else []):
                entry_defs.append(Def(cfg.entry, arg.arg, None, 'param'))
        self.by_node[id(cfg.entry)] = entry_defs
        self.defs += entry_defs
        for n in cfg.nodes:
            if n is cfg.entry:
                continue
            ds = node_defs(n, receiver)
            if ds:
                self.by_node[id(n)] = ds
                self.defs += ds
        self.index = {id(d): i for i, d in enumerate(self.defs)}
        self.by_name = {}
        for d in self.defs:
            self.by_name.setdefault(d.name, []).append(d)
        self._solve()

    def _solve(self):
        cfg = self.cfg
        name_mask = {}
        for name, ds in self.by_name.items():
            m = 0
            for d in ds:
                m |= 1 << self.index[id(d)]
            name_mask[name] = m
            # a store to self.a kills self.a.b as well
        IN = {id(n): 0 for n in cfg.nodes}
        OUT = {id(n): 0 for n in cfg.nodes}
        gen = {}
        kill = {}
        for n in cfg.nodes:
            g = 0
            k = 0
            for d in self.by_node.get(id(n), []):
                k |= name_mask[d.name]
                for other in name_mask:
                    if other.startswith(d.name + '.'):
                        k |= name_mask[other]
            for d in self.by_node.get(id(n), []):
                g |= 1 << self.index[id(d)]
            gen[id(n)] = g
            kill[id(n)] = k
        work = list(cfg.nodes)
        inwork = set(id(n) for n in work)
        while work:
            n = work.pop()
            inwork.discard(id(n))
            i = IN[id(n)]
            o = (i & ~kill[id(n)]) | gen[id(n)]
            OUT[id(n)] = o
            for (t, kind, tok) in n.succ:
                flow = i if (kind == 'e' and n.kind != 'with_exit' and n.kind != 'finally_enter' and gen[id(n)]) else o
                # exceptional edge out of a defining statement: the store did not happen
                new = IN[id(t)] | flow
                if new != IN[id(t)]:
                    IN[id(t)] = new
                    if id(t) not in inwork:
                        inwork.add(id(t))
                        work.append(t)
        self.IN = IN
        self.OUT = OUT

    def at(self, node, name, after=False):
        """definitions of `name` reaching the entry (or exit) of node"""
        bits = (self.OUT if after else self.IN)[id(node)]
        return [d for d in self.by_name.get(name, []) if (bits >> self.index[id(d)]) & 1]

    def defs_of(self, name):
        return list(self.by_name.get(name, []))


def names_loaded(expr):
    return [n for n in ast.walk(expr) if isinstance(n, ast.Name) and isinstance(n.ctx, ast.Load)]


def contains(expr, sub):
    return any(n is sub for n in ast.walk(expr))


def find_calls(tree, pred=None):
    out = []
    for n in ast.walk(tree):
        if isinstance(n, ast.Call) and (pred is None or pred(n)):
            out.append(n)
    return out


def call_name(call):
    """written callee: 'exec', 'asyncio.run', 'self._post_run', ..."""
    try:
        return ast.unparse(call.func)
    except Exception:
        return '?'


# ---------------------------------------------------------------------------
def possibly_undefined(cfg, rd):
    """definite-assignment analysis over the statement graph (normal and exceptional edges): [(node, ast.Name)] for loads of a local
    variable that is not assigned on every path from the entry to the load.  Exceptional edges leave a node with the assignments
    the node itself makes NOT done.  Names bound by a comprehension inside the loading expression are not locals of the function."""
    fn = cfg.fnode
    locals_ = {name for name, ds in rd.by_name.items() if '.' not in name and any(d.kind != 'del' for d in ds)}
    declared = set()
    for x in ast.walk(fn):
        if isinstance(x, (ast.Global, ast.Nonlocal)):
            declared |= set(x.names)
    locals_ -= declared
    params = {d.name for d in rd.by_node.get(id(cfg.entry), [])}
    ALL = frozenset(locals_)
    gen = {}
    kill = {}
    for n in cfg.nodes:
        ds = rd.by_node.get(id(n), []) if n is not cfg.entry else []
        gen[id(n)] = frozenset(d.name for d in ds if '.' not in d.name and d.kind != 'del')
        kill[id(n)] = frozenset(d.name for d in ds if d.kind == 'del')
        if n.kind == 'for' and isinstance(n.ast, ast.For):
            # a loop variable read after its loop: whether the iterable can be empty is a value-level question this analysis does not decide;
            # the zero-iteration path is not reported (the target counts as assigned from the loop head on)
            gen[id(n)] = gen[id(n)] | frozenset(x.id for x in ast.walk(n.ast.target) if isinstance(x, ast.Name))
    preds = {id(n): [] for n in cfg.nodes}
    for n in cfg.nodes:
        for (t, kind, tok) in n.succ:
            preds[id(t)].append((n, kind))
    IN = {id(n): ALL for n in cfg.nodes}
    IN[id(cfg.entry)] = frozenset(params & locals_) | frozenset(params)
    OUT = {id(n): ALL for n in cfg.nodes}
    OUT[id(cfg.entry)] = IN[id(cfg.entry)]
    changed = True
    order = list(cfg.nodes)
    while changed:
        changed = False
        for n in order:
            if n is cfg.entry:
                continue
            ps = preds[id(n)]
            if ps:
                acc = None
                for (p, kind) in ps:
                    v = OUT[id(p)] if kind == 'n' else IN[id(p)]
                    acc = v if acc is None else (acc & v)
                new_in = acc
            else:
                new_in = ALL        # unreachable
            new_out = (new_in - kill[id(n)]) | gen[id(n)]
            if new_in != IN[id(n)] or new_out != OUT[id(n)]:
                IN[id(n)], OUT[id(n)] = new_in, new_out
                changed = True
    out = []
    for n in cfg.nodes:
        if n.dup or not preds[id(n)] and n is not cfg.entry:
            continue
        a = n.ast
        if n.kind == 'branch' or not isinstance(a, ast.AST):
            continue
        if n.kind == 'with_enter':
            a = a.context_expr
        elif n.kind in ('for', 'for_init'):
            a = getattr(a, 'iter', a)
        elif n.kind == 'handler':
            a = a.type
            if a is None:
                continue
        elif n.kind == 'stmt' and isinstance(a, (ast.FunctionDef, ast.AsyncFunctionDef, ast.ClassDef)):
            continue

        def loads(e, bound):
            if isinstance(e, (ast.ListComp, ast.SetComp, ast.GeneratorExp, ast.DictComp)):
                b2 = set(bound)
                for gen_ in e.generators:
                    yield from loads(gen_.iter, b2)
                    b2 |= {x.id for x in ast.walk(gen_.target) if isinstance(x, ast.Name)}
                    for c in gen_.ifs:
                        yield from loads(c, b2)
                for part in ([e.key, e.value] if isinstance(e, ast.DictComp) else [e.elt]):
                    yield from loads(part, b2)
                return
            if isinstance(e, ast.Lambda):
                b2 = set(bound) | {a_.arg for a_ in e.args.args + e.args.kwonlyargs + e.args.posonlyargs}
                yield from loads(e.body, b2)
                return
            if isinstance(e, (ast.FunctionDef, ast.AsyncFunctionDef, ast.ClassDef)):
                return
            if isinstance(e, ast.Name) and isinstance(e.ctx, ast.Load) and e.id not in bound:
                yield e
            for ch in ast.iter_child_nodes(e):
                yield from loads(ch, bound)
        walrus = {x.target.id for x in ast.walk(a) if isinstance(x, ast.NamedExpr)}
        aug = [a.target] if isinstance(a, ast.AugAssign) and isinstance(a.target, ast.Name) else []      # `x += 1` reads x first
        for nm in list(loads(a, set())) + aug:
            if nm.id in locals_ and nm.id not in IN[id(n)] and nm.id not in walrus:
                out.append((n, nm))
    return out


def undefined_witness(cfg, rd, node, name, limit=300000, load=None):
    """a path entry -> node on which local `name` is never assigned, feasible under two cheap correlations: (a) a test with the same text as an
    earlier test on the path (no name of it reassigned in between) goes the same way, (b) locals holding a constant decide the tests
    `x`, `not x`, `x is None`, `x == c`.  Returns the list of nodes, None if there is no such path, or 'limit' when the search was cut off."""
    from collections import deque
    from . import graph as _g
    defs_of_name = set(id(d.node) for d in rd.by_name.get(name, []) if d.kind != 'del')
    defs_of_name |= set(id(n) for n in cfg.nodes if n.kind == 'for' and isinstance(n.ast, ast.For) and any(isinstance(x, ast.Name) and x.id == name for x in ast.walk(n.ast.target)))
    by_id = {id(n): n for n in cfg.nodes}

    def stored_names(n):
        return {d.name for d in (rd.by_node.get(id(n), []) if n is not cfg.entry else []) if '.' not in d.name}
    k0 = (id(cfg.entry), frozenset(), ())
    prev = {k0: None}
    work = deque([k0])
    count = 0
    while work:
        key = work.popleft()
        nid, facts, envt = key
        n = by_id[nid]
        count += 1
        if count > limit:
            return 'limit'
        if n is node and not _short_circuit_excludes(n, load, facts, dict(envt)):
            out = []
            k = key
            while k is not None:
                out.append(by_id[k[0]])
                k = prev[k]
            return out[::-1]
        env = dict(envt)
        st = stored_names(n)
        if st:
            facts = frozenset(fa for fa in facts if not (fa[2] & st))
            for nm in st:
                env.pop(nm, None)
            if n.kind == 'stmt' and isinstance(n.ast, ast.Assign) and len(n.ast.targets) == 1 and isinstance(n.ast.targets[0], ast.Name) and isinstance(n.ast.value, ast.Constant):
                env[n.ast.targets[0].id] = n.ast.value.value
        nenvt = tuple(sorted(env.items(), key=repr))
        defines = nid in defs_of_name
        for (t, kind, tok) in n.succ:
            if defines and kind == 'n':
                continue            # the normal continuation of a defining node has the name assigned
            f2 = facts
            if t.kind == 'branch' and t.attrs['test'].kind == 'test' and t.attrs['polarity'] in (True, False):
                te = t.attrs['test'].ast
                pol = t.attrs['polarity']
                tr = _g._env_truth(te, env)
                if tr is not None and tr != pol:
                    continue
                base, bp = te, pol
                while isinstance(base, ast.UnaryOp) and isinstance(base.op, ast.Not):
                    base, bp = base.operand, not bp
                txt = ' '.join(ast.unparse(base).split())
                if any(tt == txt and pp != bp for (tt, pp, _n) in facts):
                    continue
                if '(' not in txt:
                    names = frozenset(x.id for x in ast.walk(base) if isinstance(x, ast.Name))
                    f2 = facts | {(txt, bp, names)}
            k2 = (id(t), f2, nenvt)
            if k2 in prev:
                continue
            prev[k2] = key
            work.append(k2)
    return None


def _short_circuit_excludes(n, load, facts, env):
    """the load sits behind a short-circuit operand (`not exclude or normalize(...)`) whose required truth value contradicts the path"""
    if load is None or not isinstance(n.ast, ast.AST):
        return False
    from . import graph as _g
    try:
        sc = _g.short_circuit_facts(n.ast, load)
    except Exception:
        return False
    for fa in sc:
        if fa.polarity not in (True, False) or not isinstance(fa.expr, ast.AST):
            continue
        base, bp = fa.expr, fa.polarity
        while isinstance(base, ast.UnaryOp) and isinstance(base.op, ast.Not):
            base, bp = base.operand, not bp
        txt = ' '.join(ast.unparse(base).split())
        if any(tt == txt and pp != bp for (tt, pp, _n) in facts):
            return True
        tr = _g._env_truth(base, env)
        if tr is not None and tr != bp:
            return True
    return False
