"""
Shared analysis context: one parsed program, cached CFGs / def-use per function.
"""
import ast

from .loader import Program, AnalysisError
from .resolve import Resolver
from .cfg import CFG
from .policy import DefaultPolicy, Summaries
from .dataflow import ReachingDefs
from .graph import Dom


class Ctx:
    def __init__(self, prog, rep=None):
        self.prog = prog
        self.res = Resolver(prog)
        self.rep = rep
        self._cfg = {}
        self._rd = {}
        self._dom = {}
        self.cfg_stats = {'cfgs': 0, 'nodes': 0, 'edges': 0}

    def func(self, q):
        return self.prog.func(q)

    def cls(self, q):
        return self.prog.cls(q)

    def cfg(self, q, policy=None, key='default'):
        f = self.prog.func(q) if isinstance(q, str) else q
        self.prog.accessed.append(f)
        k = (f.qualname, key)
        if k not in self._cfg:
            pol = policy(f) if policy is not None else DefaultPolicy(self.prog, f, self.res)
            g = CFG(f.node, pol, label=f.qualname)
            g.func = f
            self._cfg[k] = g
            st = g.stats()
            self.cfg_stats['cfgs'] += 1
            self.cfg_stats['nodes'] += st['nodes']
            self.cfg_stats['edges'] += st['edges']
        return self._cfg[k]

    def rd(self, q, key='default'):
        f = self.prog.func(q) if isinstance(q, str) else q
        k = (f.qualname, key)
        if k not in self._rd:
            g = self.cfg(f, key=key) if (f.qualname, key) in self._cfg or key == 'default' else self._cfg[k]
            recv = 'self'
            a = f.node.args.posonlyargs + f.node.args.args
            if f.cls is not None and a:
                recv = a[0].arg
            self._rd[k] = ReachingDefs(g, receiver=recv)
        return self._rd[k]

    def dom(self, g, entry, cut=(), efilter=None, tag=None):
        k = (id(g), id(entry), tuple(id(c) for c in cut), tag)
        if k not in self._dom:
            d = Dom(entry, cut, efilter)
            # reaching definitions of the same graph: lets guard facts see through local names (named conditions, reason variables)
            d.rd_factory = lambda g=g: self._rd_of_graph(g)
            host = getattr(g, 'func', None)
            if host is not None and host.cls is not None:
                from .rules.common import predicate_method_body
                d.pred_resolver = lambda call, host=host: predicate_method_body(host, call)
            self._dom[k] = d
        return self._dom[k]

    def _rd_of_graph(self, g):
        k = ('graph', id(g))
        if k not in self._rd:
            recv = 'self'
            fn = g.fnode
            if hasattr(fn, 'args'):
                a = fn.args.posonlyargs + fn.args.args
                if a and getattr(g, 'func', None) is not None and g.func.cls is not None:
                    recv = a[0].arg
            self._rd[k] = ReachingDefs(g, receiver=recv)
        return self._rd[k]

    def loc(self, f, node):
        f = self.prog.func(f) if isinstance(f, str) else f
        ln = getattr(node, 'lineno', None)
        if ln is None and hasattr(node, 'context_expr'):
            ln = node.context_expr.lineno
        return 'src/%s:%s' % (f.module.relpath, ln or 0)

    def mloc(self, mod, node):
        return 'src/%s:%s' % (mod.relpath, getattr(node, 'lineno', 0))

    @staticmethod
    def src(node, limit=160):
        try:
            t = ast.unparse(node)
        except Exception:
            t = repr(node)
        t = ' '.join(t.split())
        return t[:limit]

    def analysed(self):
        st = self.prog.stats()
        st.update(self.cfg_stats)
        return st


def need(cond, msg):
    """an idiom the rule relies on is not present in recognisable form"""
    if not cond:
        raise AnalysisError(msg)
