"""
C05 -- output matching equals the documented relation for every flag combination
(structural clauses).
"""
import ast
import re

from ..context import need
from ..loader import AnalysisError
from .. import graph, consts
from ..roles import node_calls
from ..resolve import walk_scope
from .common import fmt_facts, is_name, is_attr_of, keys_read, subscript_key, re_calls, re_call_problem

EXPLANATION = (
    'Static rule conformance on checker.check_output / normalize / _check_match and the regexes they use: '
    'R1 the exact-equality shortcut (on the unmodified parameters, returning True) dominates normalisation; '
    'R2 every normalisation step, found by role, is edge-dominated by exactly the run-state flag the documentation names, with the documented '
    'polarity, and unconditional steps by none; every key read in checker.py exists in the default state; '
    'R3 along the def-use chains of got and want the same steps are applied to both sides, except blank-line marker removal (want only); '
    'R4 facts of the parsed regexes: the trailing-whitespace class contains space and tab and is anchored at line ends, the string-prefix '
    'patterns keep their (non-word | start) boundary guard and their replacement keeps groups 1 and 2, the ANSI pattern starts with the CSI introducer. '
    'The relation on concrete strings and its monotonicity in the flags are not decided.'
    ' R4c REGEX-FACT on the folded strip_ansi pattern (7 sample texts). R11 CONFIG-FLOW: every call of a checker function that takes `runstate` from a caller that holds one passes it on (never None / a fresh state). R12 ROLE-AGREE: an argument named after one side is never bound to the parameter of the other side at a checker call.')
DECIDES = ['MUST-PASS equality shortcut', 'GUARD-DOM flag->step table', 'got/want sibling SYMMETRY', 'step ORDER (partial order the relation depends on)', 'REGEX-FACTs']
NOT_DECIDED = ['the relation on concrete (got, want) strings', 'monotonicity in the leniency flags', 'exactness up to trailing whitespace with all leniencies off']

NORM = 'xdoctest.checker.normalize'
CM = 'xdoctest.checker._check_match'
CO = 'xdoctest.checker.check_output'

REQUIRED = {
    'strip_ansi': frozenset(),
    'prefix:unicode': frozenset(),
    'prefix:bytes': frozenset(),
    'trailing_ws': frozenset(),
    'rstrip': frozenset(),
    'cr_lines': frozenset(),
    'blankline': frozenset({('key', 'DONT_ACCEPT_BLANKLINE', False)}),
    'ws_collapse': frozenset({('or', frozenset({'NORMALIZE_WHITESPACE', 'IGNORE_WHITESPACE'}), True)}),
    'ws_delete': frozenset({('key', 'IGNORE_WHITESPACE', True)}),
    'norm_repr': frozenset({('key', 'NORMALIZE_REPR', True)}),
}


def run(ctx):
    for fn in (r1_shortcut, r2_flag_table, r3_symmetry, r3b_steps_reach_the_result, r4_regex_facts, r6_verdict_sources, r7_regex_call_shape, r8_wildcard_bounds, r9_quote_removal, r10_comparison_does_not_write_state, r11_run_state_is_forwarded, r12_got_want_roles, r4c_ansi_sequences, r4d_blankline_marker_lines):
        ctx.rep.rule(fn, ctx)


# ---------------------------------------------------------------------------
def r1_shortcut(ctx):
    rep = ctx.rep
    f = ctx.func(CO)
    g = ctx.cfg(f)
    rd = ctx.rd(f)
    dom = ctx.dom(g, g.entry)
    params = [a.arg for a in f.node.args.args]
    need(len(params) >= 2, 'C05.R1: check_output(got, want, ...) signature changed')
    pg, pw = params[0], params[1]
    norm_calls = [(n, c) for n in g.nodes for c in node_calls(n) if _resolves(ctx, f, c, NORM)]
    rep.floor('C05.R1', 'normalize calls in check_output', len(norm_calls), 1)
    for (n, c) in norm_calls:
        ok = False
        why = 'no dominating `got == want` test on the unmodified parameters'
        for fa in graph.guard_facts(dom, n):
            e = fa.expr
            if isinstance(e, ast.Compare) and len(e.ops) == 1 and isinstance(e.ops[0], ast.Eq) and fa.polarity is False:
                names = {x.id for x in (e.left, e.comparators[0]) if isinstance(x, ast.Name)}
                if names == {pg, pw}:
                    t = fa.origin.attrs['test']
                    if all(d.kind == 'param' for nm in (pg, pw) for d in rd.at(t, nm)):
                        # the true branch returns True
                        tb = [b for b in t.nsucc() if b.kind == 'branch' and b.attrs['polarity'] is True][0]
                        reach = graph.reachable([tb], efilter=graph.normal_only)
                        rets = [x for x in reach if x.kind == 'stmt' and isinstance(x.ast, ast.Return)]
                        if rets and all(isinstance(x.ast.value, ast.Constant) and x.ast.value.value is True for x in rets) and not any(x is n for x in reach):
                            ok = True
                        else:
                            why = 'the equal-texts branch does not return True'
        rep.ob('C05.R1', ctx.loc(f, c), ctx.src(c), ok,
               'identical texts return True before any normalisation' if ok else why + ': identical texts are no longer guaranteed to match', anchor=CO)


def _resolves(ctx, f, call, qual):
    r = ctx.res.resolve_call(f, call)
    return r[0] == 'repo' and any(x.qualname == qual for x in r[1])


# ---------------------------------------------------------------------------
def _eq_of(e, a, b):
    return isinstance(e, ast.Compare) and len(e.ops) == 1 and isinstance(e.ops[0], ast.Eq) and \
        {x.id for x in (e.left, e.comparators[0]) if isinstance(x, ast.Name)} == {a, b}


def verdict_sources(ctx, rule, only_ellipsis=False):
    """every way check_output / _check_match can answer "matches" is one of the documented ones:
    empty want (check disabled), equal texts, _check_match on the normalised pair, and inside _check_match
    equal texts or the wildcard matcher under ELLIPSIS.  A `return True` under any other guard is an extra,
    flag-independent way to pass."""
    rep = ctx.rep
    EM = 'xdoctest.checker._ellipsis_match'
    for q in (CO, CM):
        f = ctx.func(q)
        g = ctx.cfg(f)
        rd = ctx.rd(f)
        dom = ctx.dom(g, g.entry)
        params = [a.arg for a in f.node.args.args]
        pg, pw = params[0], params[1]
        rets = [n for n in g.nodes if n.kind == 'stmt' and isinstance(n.ast, ast.Return) and not n.dup]
        rep.floor(rule, 'returns of %s' % q.rsplit('.', 1)[1], len(rets), 2)
        for rn in rets:
            v = rn.ast.value
            facts = graph.guard_facts(dom, rn)

            def allowed_true():
                for fa in facts:
                    if fa.polarity is True and _eq_of(fa.expr, pg, pw):
                        return 'equal texts'
                    if q == CO and fa.polarity is False and is_name(fa.expr, pw) and all(d.kind == 'param' for d in rd.at(fa.origin.attrs['test'], pw)):
                        return 'empty want (nothing to check)'
                if q == CM:
                    has_key = any(canon_fact(fa) == ('key', 'ELLIPSIS', True) for fa in facts)
                    has_em = any(fa.polarity is True and isinstance(fa.expr, ast.Call) and _resolves(ctx, f, fa.expr, EM) for fa in facts)
                    if has_key and has_em:
                        return 'wildcard match under ELLIPSIS'
                return None
            if v is None or (isinstance(v, ast.Constant) and not v.value):
                if q == CM:
                    # a mismatch may only be declared once every documented way to match was tried: the texts differ AND
                    # (ELLIPSIS is off OR the wildcard matcher said no)
                    differ = any(fa.polarity is False and _eq_of(fa.expr, pg, pw) for fa in facts)
                    ell_off = any(canon_fact(fa) == ('key', 'ELLIPSIS', False) for fa in facts)
                    em_no = any(fa.polarity is False and isinstance(fa.expr, ast.Call) and _resolves(ctx, f, fa.expr, EM) for fa in facts)
                    # the plain fall-through `return False` after `if ELLIPSIS: if match: return True` carries no fact about the flag: accept it when
                    # no ELLIPSIS-true fact dominates it (then it is reached on both flag values only through failed attempts)
                    under_ell = any(canon_fact(fa) == ('key', 'ELLIPSIS', True) for fa in facts)
                    ok_neg = differ and (ell_off or em_no or not under_ell)
                    if not ok_neg:
                        # an early rejection on a side condition may be a sound shortcut or a wrong one: that is a value-level question
                        raise AnalysisError('%s: under ELLIPSIS `%s` declares a mismatch on a side condition (%s) before the wildcard matcher was consulted; '
                                            'whether that shortcut is sound cannot be decided structurally' % (rule, ctx.src(rn.ast), fmt_facts(facts)))
                    rep.ob(rule, ctx.loc(f, rn.ast), 'return False | %s' % fmt_facts(facts), True,
                           'a mismatch is declared only after equality and (under ELLIPSIS) the wildcard matcher failed', anchor=q)
                continue
            if isinstance(v, ast.Call) and q == CM and _resolves(ctx, f, v, EM):
                ok_em = any(canon_fact(fa) == ('key', 'ELLIPSIS', True) for fa in facts)
                rep.ob(rule, ctx.loc(f, rn.ast), ctx.src(rn.ast) + ' | %s' % fmt_facts(facts), ok_em,
                       'the verdict of the wildcard matcher, under ELLIPSIS' if ok_em else 'the wildcard matcher decides although ELLIPSIS is not known to be on', anchor=q)
                continue
            if isinstance(v, ast.Constant) and v.value is True:
                why = allowed_true()
                if why is None:
                    mentions_marker = any(isinstance(x, ast.Name) and x.id == 'ELLIPSIS_MARKER' or (isinstance(x, ast.Constant) and x.value == '...')
                                          for fa in facts if isinstance(fa.expr, ast.AST) for x in ast.walk(fa.expr))
                    flag_on = any(canon_fact(fa) == ('key', 'ELLIPSIS', True) for fa in facts)
                    if not (mentions_marker and not flag_on):
                        # some other shortcut: whether it is sound is a value-level question
                        raise AnalysisError('%s: `return True` in %s under %s is none of the documented ways to match; whether this shortcut is sound cannot be decided structurally' % (rule, q, fmt_facts(facts)))
                rep.ob(rule, ctx.loc(f, rn.ast), 'return True | %s' % fmt_facts(facts), why is not None,
                       'positive verdict through a documented way: %s' % why if why else
                       "a match is declared because of the ellipsis marker without consulting the ELLIPSIS flag: with ELLIPSIS disabled '...' must have no special meaning", anchor=q)
                continue
            if isinstance(v, ast.Call) and q == CO and _resolves(ctx, f, v, CM):
                srcs = []
                for i, a in enumerate(v.args[:2]):
                    if isinstance(a, ast.Name):
                        srcs += [(i, d) for d in rd.at(rn, a.id)]
                ok = len(srcs) >= 2 and all(d.kind == 'unpack' and isinstance(d.value, tuple) and isinstance(d.value[1], ast.Call) and _resolves(ctx, f, d.value[1], NORM) and d.value[2] == i for (i, d) in srcs)
                rep.ob(rule, ctx.loc(f, rn.ast), ctx.src(rn.ast), ok, 'the verdict is _check_match on the normalised pair (got, want in that order)' if ok else
                       'the texts compared by _check_match are not the pair returned by normalize (in order)', anchor=q)
                continue
            vv = v.args[0] if isinstance(v, ast.Call) and is_name(v.func, 'bool') and len(v.args) == 1 else v
            if q == CM and isinstance(vv, ast.BoolOp) and isinstance(vv.op, ast.And) and len(vv.values) == 2:
                # `flag and _ellipsis_match(got, want)`: the matcher is evaluated only when the flag is true
                em_calls = [x for x in vv.values if isinstance(x, ast.Call) and _resolves(ctx, f, x, EM)]
                if len(em_calls) == 1:
                    fs_ = graph.guard_facts_at(dom, rn, em_calls[0])
                    ok_em = any(canon_fact(fa) == ('key', 'ELLIPSIS', True) for fa in fs_)
                    rep.ob(rule, ctx.loc(f, rn.ast), ctx.src(rn.ast), ok_em,
                           'the verdict of the wildcard matcher, consulted only under ELLIPSIS' if ok_em else 'the wildcard matcher decides although ELLIPSIS is not known to be on', anchor=q)
                    continue
            if isinstance(v, ast.Compare) and _eq_of(v, pg, pw):
                rep.ob(rule, ctx.loc(f, rn.ast), ctx.src(rn.ast), True, 'equality of the texts', nontrivial=False, anchor=q)
                continue
            raise AnalysisError('%s: unrecognised verdict expression `%s` in %s' % (rule, ctx.src(v), q))


def r6_verdict_sources(ctx):
    verdict_sources(ctx, 'C05.R6')


def r8_wildcard_bounds(ctx):
    """'...' acts as a wildcard and nothing else: the scan bounds of the matcher (same clause as C06.R3)"""
    from . import c06
    from .common import run_as
    run_as(ctx, c06.r3_bounds_reach_scan, 'C06.R3', 'C05.R8')


def r9_quote_removal(ctx):
    """NORMALIZE_REPR makes *surrounding quotes* ignorable: the text is shortened by its first and last character only when both are the
    same quote character, and only when that makes the texts match"""
    rep = ctx.rep
    f = ctx.func(NORM)
    called = set()
    for c in walk_scope(f.node):
        if isinstance(c, ast.Call):
            r = ctx.res.resolve_call(f, c)
            if r[0] == 'repo':
                called |= {x.qualname for x in r[1]}
    helpers = [h for h in ctx.prog.funcs.values() if (h.parent is f or (h.qualname in called and h.module is f.module and h.qualname != CM)) and
               any(isinstance(x, ast.Subscript) and isinstance(x.slice, ast.Slice) for x in ast.walk(h.node)) and '_check_match' in ast.unparse(h.node)]
    need(len(helpers) == 1, 'C05.R9: the quote-removal helper inside normalize() was not recognised')
    h = helpers[0]
    g = ctx.cfg(h)
    rd = ctx.rd(h)
    dom = ctx.dom(g, g.entry)
    a = h.node.args.args[0].arg

    def is_strip1(e, node=None):
        if isinstance(e, ast.Name) and e.id != a:
            # the shortened text held in a local first
            ds = [d for d in rd.defs_of(e.id) if isinstance(d.value, ast.AST)]
            if len(ds) == 1:
                e = ds[0].value
        return isinstance(e, ast.Subscript) and is_name(e.value, a) and isinstance(e.slice, ast.Slice) and isinstance(e.slice.lower, ast.Constant) and e.slice.lower.value == 1 and \
            isinstance(e.slice.upper, ast.UnaryOp) and isinstance(e.slice.upper.op, ast.USub) and isinstance(e.slice.upper.operand, ast.Constant) and e.slice.upper.operand.value == 1 and e.slice.step is None
    rets = [n for n in g.nodes if n.kind == 'stmt' and isinstance(n.ast, ast.Return) and not n.dup]
    short = [n for n in rets if n.ast.value is not None and not is_name(n.ast.value, a)]
    rep.floor('C05.R9', 'returns of a shortened text', len(short), 1)

    def one_char_denotation(node, e):
        """set of characters the expression may denote when used as a startswith / endswith argument, or None"""
        if isinstance(e, ast.Constant) and isinstance(e.value, str):
            return (frozenset([e.value]), 'const')
        if isinstance(e, ast.Name):
            ds = rd.at(node, e.id)
            if len(ds) == 1 and ds[0].kind == 'iter' and isinstance(ds[0].value, (ast.List, ast.Tuple)) and all(isinstance(x, ast.Constant) and isinstance(x.value, str) for x in ds[0].value.elts):
                return (frozenset(x.value for x in ds[0].value.elts), ('loopvar', e.id))
            if len(ds) == 1 and ds[0].kind == 'assign' and isinstance(ds[0].value, (ast.Tuple, ast.List)):
                return (frozenset(x.value for x in ds[0].value.elts if isinstance(x, ast.Constant)), 'tuple')
        if isinstance(e, (ast.Tuple, ast.List)):
            return (frozenset(x.value for x in e.elts if isinstance(x, ast.Constant)), 'tuple')
        return None
    for rn in short:
        facts = graph.guard_facts(dom, rn)
        st = [fa for fa in facts if fa.polarity is True and isinstance(fa.expr, ast.Call) and isinstance(fa.expr.func, ast.Attribute) and fa.expr.func.attr == 'startswith' and is_name(fa.expr.func.value, a)]
        en = [fa for fa in facts if fa.polarity is True and isinstance(fa.expr, ast.Call) and isinstance(fa.expr.func, ast.Attribute) and fa.expr.func.attr == 'endswith' and is_name(fa.expr.func.value, a)]
        ok_shape = is_strip1(rn.ast.value)
        same = False
        why = 'the removal is not guarded by a.startswith(q) and a.endswith(q)'
        if st and en:
            ds_ = one_char_denotation(st[0].origin.attrs['test'], st[0].expr.args[0])
            de_ = one_char_denotation(en[0].origin.attrs['test'], en[0].expr.args[0])
            if ds_ is None or de_ is None:
                raise AnalysisError('C05.R9: quote tests with unrecognised arguments')
            if ds_[1] == 'tuple' or de_[1] == 'tuple':
                why = 'the first and the last character are each tested against the whole set of quotes %s: a text that starts with one kind of quote and ends with the other loses both (the texts differ in non-whitespace characters and still match)' % sorted(ds_[0] | de_[0])
            elif ds_ == de_ and all(len(c) == 1 for c in ds_[0]) and ds_[0] <= {'"', "'"}:
                same = True
            else:
                why = 'start and end are tested against different characters (%s / %s)' % (sorted(ds_[0]), sorted(de_[0]))
        helps = any(fa.polarity is True and isinstance(fa.expr, ast.Call) and _resolves(ctx, h, fa.expr, CM) and fa.expr.args and is_strip1(fa.expr.args[0]) for fa in facts)
        needed = any(fa.polarity is False and isinstance(fa.expr, ast.Call) and _resolves(ctx, h, fa.expr, CM) and fa.expr.args and is_name(fa.expr.args[0], a) for fa in facts)
        rep.ob('C05.R9', ctx.loc(h, rn.ast), ctx.src(rn.ast) + ' | quotes', ok_shape and same,
               'one leading and one trailing character are dropped only when both are the same quote character' if ok_shape and same else (why if ok_shape else 'the shortened text is not a[1:-1]'), anchor=NORM)
        rep.ob('C05.R9', ctx.loc(h, rn.ast), ctx.src(rn.ast) + ' | only if it helps', helps and needed,
               'quotes are removed only when the texts do not match with them and do match without them' if helps and needed else 'quote removal is not conditioned on making the texts match', anchor=NORM)


def r10_comparison_does_not_write_state(ctx):
    """the verdict is a function of (got, want, flags): code in checker.py may change flags only on a private copy of the state it was given.
    Every subscript store whose base derives from a `runstate` parameter must go through a producer of an independent object."""
    rep = ctx.rep
    mod = ctx.prog.module('xdoctest.checker')
    n = 0
    for func in [f_ for f_ in ctx.prog.funcs.values() if f_.module is mod]:
        params = {a.arg for a in func.node.args.args}
        if 'runstate' not in params:
            continue
        g = ctx.cfg(func)
        rd = ctx.rd(func)
        for nd in g.nodes:
            if nd.kind != 'stmt' or nd.dup or not isinstance(nd.ast, (ast.Assign, ast.AugAssign)):
                continue
            tg = nd.ast.targets if isinstance(nd.ast, ast.Assign) else [nd.ast.target]
            for t in tg:
                if not (isinstance(t, ast.Subscript) and isinstance(t.value, ast.Name)):
                    continue
                base = t.value.id
                verdicts = []
                for d in rd.at(nd, base):
                    if d.kind == 'param':
                        if base == 'runstate':
                            verdicts.append(('shared', 'the parameter itself'))
                        continue
                    v = d.value
                    if not isinstance(v, ast.AST) or not any(isinstance(x, ast.Name) and x.id == 'runstate' for x in ast.walk(v)):
                        continue
                    if isinstance(v, ast.Call) and ast.unparse(v.func) in ('copy.deepcopy', 'deepcopy', 'dict'):
                        verdicts.append(('fresh', ast.unparse(v.func)))
                    elif isinstance(v, ast.Call) and isinstance(v.func, ast.Attribute) and is_name(v.func.value, 'runstate'):
                        m = ctx.prog.find_method(ctx.cls('xdoctest.directive.RuntimeState'), v.func.attr)
                        if m is None:
                            raise AnalysisError('C05.R10: %s is not a method of RuntimeState' % v.func.attr)
                        rets = [r for r in ast.walk(m.node) if isinstance(r, ast.Return) and r.value is not None]
                        txts = [ast.unparse(r.value) for r in rets]
                        recv = m.node.args.args[0].arg
                        if any(tx in ('copy.copy(%s)' % recv, recv) or tx.startswith('copy.copy(') for tx in txts):
                            verdicts.append(('shared', 'RuntimeState.%s returns a shallow copy / the object itself, which shares its state dictionaries' % v.func.attr))
                        elif all(isinstance(r.value, ast.Name) for r in rets) and rets:
                            # a local built inside the method: fresh if it starts as a dict copy / dict display
                            rdm = ctx.rd(m)
                            gm = ctx.cfg(m)
                            fresh = True
                            for r in rets:
                                rn = [x for x in gm.nodes if x.kind == 'stmt' and x.ast is r]
                                for dd in (rdm.at(rn[0], r.value.id) if rn else []):
                                    vv = dd.value
                                    if not (isinstance(vv, ast.Dict) or (isinstance(vv, ast.Call) and (ast.unparse(vv.func) in ('dict', 'copy.deepcopy', 'OrderedDict', 'collections.OrderedDict') or (isinstance(vv.func, ast.Attribute) and vv.func.attr == 'copy' and not is_name(vv.func.value, 'copy'))))):
                                        fresh = False
                            verdicts.append(('fresh' if fresh else 'unknown', 'RuntimeState.%s' % v.func.attr))
                        elif all(tx.startswith('copy.deepcopy(') for tx in txts) and rets:
                            verdicts.append(('fresh', 'deep copy'))
                        elif rets and all(isinstance(r.value, (ast.Dict, ast.DictComp)) or (isinstance(r.value, ast.Call) and ast.unparse(r.value.func) in ('dict', 'OrderedDict', 'collections.OrderedDict'))
                                          for r in rets):
                            # a new dictionary object is built in the return expression itself
                            verdicts.append(('fresh', 'RuntimeState.%s returns a new dictionary' % v.func.attr))
                        else:
                            verdicts.append(('unknown', 'RuntimeState.%s' % v.func.attr))
                    elif isinstance(v, ast.Name) and v.id == 'runstate':
                        verdicts.append(('shared', 'alias of the parameter'))
                    else:
                        verdicts.append(('unknown', ast.unparse(v)))
                if not verdicts:
                    continue
                n += 1
                if any(k == 'unknown' for k, _ in verdicts) and not any(k == 'shared' for k, _ in verdicts):
                    raise AnalysisError('C05.R10: cannot tell whether `%s` in %s is independent of the run state it derives from (%s)' % (base, func.qualname, verdicts))
                shared = [w for k, w in verdicts if k == 'shared']
                rep.ob('C05.R10', ctx.loc(func, nd.ast), ctx.src(nd.ast), not shared,
                       'written object is a private copy (%s)' % ', '.join(w for _, w in verdicts) if not shared else
                       'a flag is switched on an object that shares its state with the caller\'s run state (%s): after this call the caller compares under different flags '
                       '-- the verdict is no longer a function of (got, want, flags)' % shared[0], anchor=func.qualname)
    rep.floor('C05.R10', 'flag writes in checker.py on state-derived objects', n, 2)


def r7_regex_call_shape(ctx):
    """no call into `re` on the comparison path binds a flag constant to count / maxsplit"""
    rep = ctx.rep
    n = 0
    for modname in ('xdoctest.checker', 'xdoctest.utils.util_str'):
        mod = ctx.prog.module(modname)
        for c in re_calls(mod.tree):
            n += 1
            prob = re_call_problem(c)
            rep.ob('C05.R7', ctx.mloc(mod, c), ctx.src(c, 120), prob is None, 'arguments bound to the intended parameters' if prob is None else prob, nontrivial=False, anchor=modname)
    rep.floor('C05.R7', 'calls into re on the comparison path', n, 8)


# ---------------------------------------------------------------------------
def canon_fact(fa):
    """('key', K, pol) | ('or', {K..}, pol) | None for facts that read run-state keys"""
    e = fa.expr
    if not isinstance(e, ast.AST):
        return None
    k = subscript_key(e)
    if k:
        return ('key', k[1], fa.polarity)
    if isinstance(e, ast.BoolOp) and isinstance(e.op, ast.Or):
        ks = [subscript_key(v) for v in e.values]
        if all(ks):
            return ('or', frozenset(k_[1] for k_ in ks), fa.polarity)
    if isinstance(e, ast.BoolOp) and isinstance(e.op, ast.And):
        ks = [subscript_key(v) for v in e.values]
        if all(ks):
            return ('and', frozenset(k_[1] for k_ in ks), fa.polarity)
    if keys_read(e):
        return ('expr', ast.unparse(e), fa.polarity)
    return None


class Step:
    """one normalisation step found by role.  `via` is the call of a nested helper in normalize() through which the
    step is applied (inlining bound 1), `func` the function whose body contains `call`."""

    def __init__(self, role, call, subj, func, via=None):
        self.role, self.call, self.subj, self.func, self.via = role, call, subj, func, via

    def __iter__(self):          # (role, call, subject) for older callers
        return iter((self.role, self.call, self.subj))


def _regex_roles(ctx, f, rx_expr, node_hint=None):
    """which prefix patterns a regex argument may denote"""
    if is_name(rx_expr, 'unicode_literal_re'):
        return ['prefix:unicode']
    if is_name(rx_expr, 'bytes_literal_re'):
        return ['prefix:bytes']
    if isinstance(rx_expr, ast.Name):
        # loop variable over a tuple of the two patterns
        for n in walk_scope(f.node):
            if isinstance(n, ast.For) and is_name(n.target, rx_expr.id) and isinstance(n.iter, (ast.Tuple, ast.List)):
                out = []
                for e in n.iter.elts:
                    out += _regex_roles(ctx, f, e)
                return out
    return ['prefix:?']


def classify_steps(ctx, f, depth=0):
    """transformation sites of normalize (and of its nested pure helpers), by role"""
    fold = consts.Folder(ctx.prog)
    mod = f.module
    out = []
    for c in walk_scope(f.node):
        if not isinstance(c, ast.Call):
            continue
        fn = c.func
        r = ctx.res.resolve_call(f, c)
        if r[0] == 'repo':
            q = r[1][0].qualname
            if q == 'xdoctest.utils.util_str.strip_ansi':
                out.append(Step('strip_ansi', c, c.args[0], f))
                continue
            if q == 'xdoctest.checker.remove_blankline_marker':
                out.append(Step('blankline', c, c.args[0], f))
                continue
            callee = r[1][0]
            if callee.parent is f or (f.parent is not None and callee.parent is f.parent) or (callee.parent is None and callee.cls is None and callee.module is f.module and callee.qualname not in (CO, CM, NORM, 'xdoctest.checker._ellipsis_match', 'xdoctest.checker.check_got_vs_want', 'xdoctest.checker.check_exception')):
                # nested helpers, classified by what their body does
                body_txt = ast.unparse(callee.node)
                has_sub = any(isinstance(x, ast.Call) and isinstance(x.func, ast.Attribute) and x.func.attr == 'sub' for x in ast.walk(callee.node))
                if has_sub and len(c.args) == 2 and len(callee.node.args.args) == 2 and len([b_ for b_ in callee.node.body if not (isinstance(b_, ast.Expr) and isinstance(b_.value, ast.Constant))]) <= 2:
                    for role in _regex_roles(ctx, f, c.args[0]):
                        out.append(Step(role, c, c.args[1], f))
                    continue
                if "endswith('\\r')" in body_txt and len(callee.node.args.args) == 1:
                    out.append(Step('cr_lines', c, c.args[0], f))
                    continue
                if '_check_match' in body_txt and len(c.args) in (2, 3):
                    out.append(Step('norm_repr', c, c.args[0], f))
                    continue
                # a helper that applies further steps to its single text parameter: inline once
                if depth < 1 and len(callee.node.args.args) == 1 and len(c.args) == 1:
                    inner = classify_steps(ctx, callee, depth + 1)
                    if inner:
                        for st in inner:
                            out.append(Step(st.role, st.call, c.args[0], callee, via=c))
                        continue
        if isinstance(fn, ast.Attribute) and fn.attr == 'sub' and len(c.args) >= 3:
            # re.sub(pattern, repl, text)
            pat = c.args[0]
            if is_name(pat, 'TRAILING_WS'):
                out.append(Step('trailing_ws', c, c.args[2], f))
                continue
            try:
                pv = fold.fold(mod, pat, None, f)
            except consts.NotConstant:
                pv = None
            if isinstance(pv, str):
                rx = consts.Regex(pv, 0)
                if len(rx.items) == 1:
                    cs = consts.item_charset(rx.items[0])
                    if cs is not None and {32, 9, 10} <= cs and ord('a') not in cs and isinstance(c.args[1], ast.Constant) and c.args[1].value == '':
                        out.append(Step('ws_delete', c, c.args[2], f))
                        continue
            if is_name(pat, 'unicode_literal_re') or is_name(pat, 'bytes_literal_re'):
                out.append(Step(_regex_roles(ctx, f, pat)[0], c, c.args[2], f))
                continue
        if isinstance(fn, ast.Attribute) and fn.attr == 'sub' and is_name(fn.value, 'TRAILING_WS') and len(c.args) >= 2:
            out.append(Step('trailing_ws', c, c.args[1], f))
            continue
        if isinstance(fn, ast.Attribute) and fn.attr == 'sub' and isinstance(fn.value, ast.Name) and len(c.args) >= 2 and fn.value.id in mod.assigns:
            cv = mod.assigns[fn.value.id]
            if isinstance(cv, ast.Call) and ast.unparse(cv.func) == 're.compile' and cv.args:
                try:
                    pv = fold.fold(mod, cv.args[0], None, None)
                except consts.NotConstant:
                    pv = None
                if isinstance(pv, str):
                    rx = consts.Regex(pv, 0)
                    if len(rx.items) == 1:
                        cs = consts.item_charset(rx.items[0])
                        if cs is not None and {32, 9, 10} <= cs and ord('a') not in cs and isinstance(c.args[0], ast.Constant) and c.args[0].value == '':
                            out.append(Step('ws_delete', c, c.args[1], f))
                            continue
        if isinstance(fn, ast.Attribute) and fn.attr == 'rstrip' and not c.args:
            out.append(Step('rstrip', c, fn.value, f))
            continue
        if isinstance(fn, ast.Attribute) and fn.attr == 'join' and isinstance(fn.value, ast.Constant) and fn.value.value == ' ' and len(c.args) == 1:
            a = c.args[0]
            if isinstance(a, ast.Call) and isinstance(a.func, ast.Attribute) and a.func.attr == 'split' and not a.args:
                out.append(Step('ws_collapse', c, a.func.value, f))
                continue
    # the same filter written in place: [line for line in <text>.splitlines(..) if not line.endswith('\r')]
    for comp in walk_scope(f.node):
        if isinstance(comp, (ast.ListComp, ast.GeneratorExp)) and len(comp.generators) == 1 and comp.generators[0].ifs and isinstance(comp.generators[0].target, ast.Name):
            gen = comp.generators[0]
            tv = gen.target.id
            drops_cr = any(isinstance(t, ast.UnaryOp) and isinstance(t.op, ast.Not) and isinstance(t.operand, ast.Call) and isinstance(t.operand.func, ast.Attribute) and
                           t.operand.func.attr == 'endswith' and is_name(t.operand.func.value, tv) and t.operand.args and isinstance(t.operand.args[0], ast.Constant) and
                           t.operand.args[0].value == '\r' for t in gen.ifs)
            if drops_cr and is_name(comp.elt, tv):
                subj = gen.iter
                if isinstance(subj, ast.Call) and isinstance(subj.func, ast.Attribute) and subj.func.attr == 'splitlines':
                    subj = subj.func.value
                out.append(Step('cr_lines', comp, subj, f))
    return out


def _step_nodes(ctx, f, st):
    """(outer cfg node in normalize, inner cfg node in the helper or None)"""
    g = ctx.cfg(f)
    if st.via is None:
        nodes = [n for n in g.nodes_containing(st.call) if not n.dup]
        return (nodes[0] if nodes else None), None
    outer = [n for n in g.nodes_containing(st.via) if not n.dup]
    gi = ctx.cfg(st.func)
    inner = [n for n in gi.nodes_containing(st.call) if not n.dup]
    return (outer[0] if outer else None), (inner[0] if inner else None)


def _step_guards(ctx, f, st):
    g = ctx.cfg(f)
    dom = ctx.dom(g, g.entry)
    outer, inner = _step_nodes(ctx, f, st)
    need(outer is not None, 'C05: step %s not in the CFG' % st.role)
    facts = list(graph.guard_facts(dom, outer))
    if inner is not None:
        gi = ctx.cfg(st.func)
        facts += [fa for fa in graph.guard_facts(ctx.dom(gi, gi.entry), inner) if fa.polarity in (True, False)]
    return facts


def r2_flag_table(ctx):
    rep = ctx.rep
    f = ctx.func(NORM)
    steps = classify_steps(ctx, f)
    roles = {}
    for st in steps:
        roles.setdefault(st.role, []).append(st)
    table = []
    for role, req in sorted(REQUIRED.items()):
        sites = roles.get(role, [])
        if not sites:
            rep.ob('C05.R2', ctx.loc(f, f.node), 'step %s' % role, False,
                   'normalisation step `%s` is no longer applied in normalize()' % role, anchor=NORM)
            continue
        for st in sites:
            facts = _step_guards(ctx, f, st)
            got = frozenset(x for x in (canon_fact(fa) for fa in facts) if x is not None)
            # helper-internal loop / non run-state guards are not flags
            got = frozenset(x for x in got if x[0] != 'expr' or 'runstate' in str(x[1]))
            ok = got == req
            table.append({'step': role, 'at': ctx.loc(st.func, st.call), 'guards': sorted(map(str, got)), 'via': ctx.src(st.via) if st.via is not None else None})
            rep.ob('C05.R2', ctx.loc(st.func, st.call), '%s: %s' % (role, ctx.src(st.call)), ok,
                   ('controlled by %s' % sorted(map(_fmt_guard, got)) if got else 'unconditional') if ok else
                   'step `%s` must be controlled by %s but is controlled by %s' % (role, sorted(map(_fmt_guard, req)) or 'no flag', sorted(map(_fmt_guard, got)) or 'no flag'),
                   anchor=NORM)
    for role in sorted(set(roles) - set(REQUIRED)):
        for st in roles[role]:
            rep.ob('C05.R2', ctx.loc(st.func, st.call), '%s: %s' % (role, ctx.src(st.call)), False, 'unrecognised normalisation step', anchor=NORM)
    rep.note('flag_step_table', table)
    # _check_match: ellipsis matcher under ELLIPSIS
    fm = ctx.func(CM)
    gm = ctx.cfg(fm)
    domm = ctx.dom(gm, gm.entry)
    em = [(n, c) for n in gm.nodes for c in node_calls(n) if _resolves(ctx, fm, c, 'xdoctest.checker._ellipsis_match')]
    for (n, c) in em:
        got = frozenset(x for x in (canon_fact(fa) for fa in graph.guard_facts_at(domm, n, c)) if x is not None)
        ok = got == frozenset({('key', 'ELLIPSIS', True)})
        rep.ob('C05.R2', ctx.loc(fm, c), 'ellipsis: %s' % ctx.src(c), ok,
               'wildcard matching controlled by ELLIPSIS only' if ok else 'wildcard matching is controlled by %s' % (sorted(map(_fmt_guard, got)) or 'no flag'), anchor=CM)
    if not em:
        rep.ob('C05.R2', ctx.loc(fm, fm.node), 'ellipsis step', False, '_check_match no longer calls the wildcard matcher', anchor=CM)
    # exact comparison first in _check_match
    eq_first = False
    for n in gm.nodes:
        if n.kind == 'test' and isinstance(n.ast, ast.Compare) and isinstance(n.ast.ops[0], ast.Eq) and not graph.guard_facts(domm, n):
            tb = [b for b in n.nsucc() if b.kind == 'branch' and b.attrs['polarity'] is True]
            if tb:
                rets = [x for x in graph.reachable(tb, efilter=graph.normal_only) if x.kind == 'stmt' and isinstance(x.ast, ast.Return)]
                eq_first = bool(rets) and all(isinstance(x.ast.value, ast.Constant) and x.ast.value.value is True for x in rets)
    rep.ob('C05.R2', ctx.loc(fm, fm.node), '_check_match: equal normalised texts match', eq_first,
           'equality of the normalised texts returns True unconditionally' if eq_first else 'equal normalised texts are not accepted unconditionally', anchor=CM)
    # keys read in checker.py exist in the default state
    fold = consts.Folder(ctx.prog)
    try:
        default = fold.module_const('xdoctest.directive', 'DEFAULT_RUNTIME_STATE')
    except AnalysisError:
        default = None
    need(isinstance(default, dict), 'C05.R2: DEFAULT_RUNTIME_STATE is not a foldable dict literal')
    mod = ctx.prog.module('xdoctest.checker')
    seen = {}
    for n in ast.walk(mod.tree):
        k = subscript_key(n)
        if k and k[0].startswith('runstate'):
            seen.setdefault(k[1], n)
    rep.floor('C05.R2', 'distinct run-state keys read in checker.py', len(seen), 8)
    for key, n in sorted(seen.items()):
        rep.ob('C05.R2', ctx.mloc(mod, n), "runstate['%s']" % key, key in default,
               'key exists in DEFAULT_RUNTIME_STATE' if key in default else 'unknown run-state key: reading it raises KeyError on this (untested) flag path',
               nontrivial=False, anchor='xdoctest.checker')


def _fmt_guard(g):
    if g[0] == 'key':
        return '%s%s' % ('' if g[2] else 'not ', g[1])
    if g[0] in ('or', 'and'):
        return '%s(%s)' % ('' if g[2] else 'not ', (' %s ' % g[0]).join(sorted(g[1])))
    return str(g)


# ---------------------------------------------------------------------------
def _side_roots(ctx, f, steps):
    """function computing which parameter (got / want) an expression of normalize derives from"""
    g = ctx.cfg(f)
    rd = ctx.rd(f)
    params = [a.arg for a in f.node.args.args]
    pg, pw = params[0], params[1]
    by_call = {}
    for st in steps:
        key = id(st.via) if st.via is not None else id(st.call)
        by_call[key] = st.subj

    def roots(node, expr, depth=0, seen=None):
        seen = seen if seen is not None else set()
        out = set()
        if depth > 14:
            return {'?'}
        for nm in ast.walk(expr):
            if isinstance(nm, ast.Name) and isinstance(nm.ctx, ast.Load):
                for d in rd.at(node, nm.id):
                    if id(d) in seen:
                        continue
                    seen.add(id(d))
                    if d.kind == 'param':
                        if d.name in (pg, pw):
                            out.add('got' if d.name == pg else 'want')
                    elif isinstance(d.value, tuple):
                        out |= roots(d.node, d.value[1], depth + 1, seen)
                    elif isinstance(d.value, ast.AST):
                        v = d.value
                        subj = by_call.get(id(v))
                        out |= roots(d.node, subj if subj is not None else v, depth + 1, seen)
        return out
    return roots


def r3_symmetry(ctx):
    rep = ctx.rep
    f = ctx.func(NORM)
    steps = classify_steps(ctx, f)
    roots = _side_roots(ctx, f, steps)
    sides = {}
    per_side = {'got': [], 'want': []}
    for st in steps:
        outer, inner = _step_nodes(ctx, f, st)
        if outer is None:
            continue
        r = roots(outer, st.subj)
        sides.setdefault(st.role, set()).update(r if len(r) == 1 else {'+'.join(sorted(r)) or '?'})
        for side in r:
            if side in per_side:
                per_side[side].append((st, outer, inner))
    for role in sorted(REQUIRED):
        s_ = sides.get(role, set())
        want_only = role == 'blankline'
        ok = (s_ == {'want'}) if want_only else (s_ == {'got', 'want'})
        rep.ob('C05.R3', ctx.loc(f, f.node), 'step %s applied to %s' % (role, sorted(s_)), ok,
               ('applied to the want only (documented asymmetry)' if want_only else 'applied to got and want alike') if ok else
               'step `%s` is applied to %s: texts that are identical up to this normalisation would differ' % (role, sorted(s_) or 'neither side'), anchor=NORM)
    rep.note('step_sides', {k: sorted(v) for k, v in sides.items()})
    # R5: order constraints that the relation depends on
    ORDER = [
        ('strip_ansi', 'prefix:unicode', 'a colour code ends in the word character "m" and may sit between a prefix letter and its quote: prefixes next to colour codes would survive'),
        ('strip_ansi', 'prefix:bytes', 'a colour code ends in the word character "m" and may sit between a prefix letter and its quote: prefixes next to colour codes would survive'),
        ('blankline', 'rstrip', 'a trailing <BLANKLINE> becomes a newline that the final rstrip has to remove'),
        ('cr_lines', 'ws_collapse', 'whitespace collapsing removes the line structure the carriage-return rule works on'),
        ('trailing_ws', 'ws_collapse', 'collapsing first would leave nothing line-based to strip'),
        ('ws_collapse', 'norm_repr', 'quote removal compares the already whitespace-normalised texts'),
        ('ws_delete', 'norm_repr', 'quote removal compares the already whitespace-normalised texts'),
    ]
    g = ctx.cfg(f)
    dom = ctx.dom(g, g.entry)

    def precedes(a, b):
        (sa, oa, ia), (sb, ob, ib) = a, b
        if oa is not ob:
            return dom.dominates(oa, ob) or (graph.path(oa.nsucc(), lambda x: x is ob, efilter=graph.normal_only) is not None and graph.path(ob.nsucc(), lambda x: x is oa, efilter=graph.normal_only) is None)
        if ia is not None and ib is not None and sa.func is sb.func:
            gi = ctx.cfg(sa.func)
            return ia is not ib and (graph.path(ia.nsucc(), lambda x: x is ib, efilter=graph.normal_only) is not None) and (graph.path(ib.nsucc(), lambda x: x is ia, efilter=graph.normal_only) is None)
        return False
    for (first, second, why) in ORDER:
        for side in ('got', 'want'):
            A = [x for x in per_side[side] if x[0].role == first]
            B = [x for x in per_side[side] if x[0].role == second]
            if not A or not B:
                continue
            ok = all(precedes(a, b) for a in A for b in B)
            rep.ob('C05.R5', ctx.loc(B[0][0].func, B[0][0].call), '%s before %s (%s)' % (first, second, side), ok,
                   'order kept' if ok else 'step `%s` no longer precedes `%s` on the %s side: %s' % (first, second, side, why), anchor=NORM)


# ---------------------------------------------------------------------------
def r4_regex_facts(ctx):
    rep = ctx.rep
    fold = consts.Folder(ctx.prog)
    mod = ctx.prog.module('xdoctest.checker')
    # TRAILING_WS
    rx = fold.module_const('xdoctest.checker', 'TRAILING_WS')
    need(isinstance(rx, consts.Regex), 'C05.R4: TRAILING_WS is not a compiled regex literal')
    ok = False
    detail = 'pattern %r' % rx.pattern
    if len(rx.items) == 2:
        rp = consts.repeat_of(rx.items[0])
        if rp and rp[0] in (0, 1) and rp[1] == consts.MAXREPEAT and len(rp[2]) == 1:
            cs = consts.item_charset(rp[2][0])
            at_end = consts.is_at(rx.items[1], consts.AT_END) and bool(rx.flags & re.MULTILINE) or consts.is_at(rx.items[1], consts.AT_END_LINE)
            ok = cs is not None and {0x20, 0x09} <= cs and 10 not in cs and ord('a') not in cs and at_end
            detail = 'class %s, anchored at line end: %s' % (sorted(cs) if cs is not None and len(cs) < 8 else '...', at_end)
    rep.ob('C05.R4', ctx.mloc(mod, mod.assigns['TRAILING_WS']), 'TRAILING_WS = %r' % rx.pattern, ok,
           'trailing run of a class containing space and tab (no newline, no letters) before every line end' if ok else
           'trailing-whitespace pattern no longer covers space and tab at every line end (%s)' % detail, anchor='xdoctest.checker.TRAILING_WS')
    # prefix patterns
    for name, letters in (('unicode_literal_re', 'uU'), ('bytes_literal_re', 'bB')):
        rx = fold.module_const('xdoctest.checker', name)
        need(isinstance(rx, consts.Regex), 'C05.R4: %s is not a compiled regex literal' % name)
        ok = False
        why = 'unexpected shape'
        it = rx.items
        if len(it) == 3:
            g1 = consts.subpattern(it[0])
            g2 = consts.subpattern(it[2])
            cls = consts.item_charset(it[1])
            if g1 and g2 and cls is not None:
                alts = consts.branch_alts(g1[1][0]) if len(g1[1]) == 1 else None
                has_start = has_nonword = False
                if alts:
                    for a in alts:
                        if len(a) == 1 and consts.is_at(a[0], consts.AT_BEGINNING, consts.AT_BEGINNING_STRING, consts.AT_BEGINNING_LINE):
                            has_start = True
                        if len(a) == 1:
                            cs = consts.item_charset(a[0])
                            if cs is not None and ord(' ') in cs and ord('(') in cs and ord('a') not in cs and ord('_') not in cs:
                                has_nonword = True
                letters_ok = cls == {ord(ch) for ch in letters}
                quote_ok = False
                if len(g2[1]) == 2:
                    rp = consts.repeat_of(g2[1][0])
                    qs = consts.item_charset(g2[1][1])
                    quote_ok = bool(rp) and rp[0] == 0 and rp[1] == 1 and qs == {ord("'"), ord('"')}
                ok = has_start and has_nonword and letters_ok and quote_ok and g1[0] == 1 and g2[0] == 2
                why = 'boundary guard (start: %s, non-word: %s), letter class ok: %s, quote group ok: %s' % (has_start, has_nonword, letters_ok, quote_ok)
        rep.ob('C05.R4', ctx.mloc(mod, mod.assigns[name]), '%s = %r' % (name, rx.pattern), ok,
               'prefix letter is only stripped after a non-word character or at the start and directly before an (optionally raw) quote' if ok else
               'string-prefix pattern lost part of its shape (%s): letters inside words would be deleted' % why, anchor='xdoctest.checker.' + name)
    # replacement keeps groups 1 and 2
    f = ctx.func(NORM)
    scopes = [f]
    for c in walk_scope(f.node):
        if isinstance(c, ast.Call):
            r = ctx.res.resolve_call(f, c)
            if r[0] == 'repo':
                scopes += [x for x in r[1] if x.module is f.module and x not in scopes and x.qualname not in (CO, CM)]
    subs = [(sc, c) for sc in scopes for c in ast.walk(sc.node) if isinstance(c, ast.Call) and isinstance(c.func, ast.Attribute) and c.func.attr == 'sub' and len(c.args) >= 2
            and isinstance(c.args[1], ast.Constant) and isinstance(c.args[1].value, str) and '\\' in c.args[1].value]
    seen_sub = set()
    subs = [(sc, c) for (sc, c) in subs if id(c) not in seen_sub and not seen_sub.add(id(c))]
    for (sc, c) in subs:
        f_ = sc
        ok = c.args[1].value == '\\1\\2'
        rep.ob('C05.R4', ctx.loc(f_, c), ctx.src(c), ok, 'replacement keeps the boundary character and the quote' if ok else
               'replacement %r drops a captured group' % c.args[1].value, nontrivial=False, anchor=NORM)
    rep.floor('C05.R4', 'group-preserving substitutions', len(subs), 1)
    # strip_ansi
    fs = ctx.func('xdoctest.utils.util_str.strip_ansi')
    pats = []
    cands = [c for c in ast.walk(fs.node) if isinstance(c, ast.Call) and ast.unparse(c.func) == 're.compile']
    # a pattern compiled once at module level and used here
    for x in ast.walk(fs.node):
        if isinstance(x, ast.Name) and isinstance(x.ctx, ast.Load) and x.id in fs.module.assigns:
            cv = fs.module.assigns[x.id]
            if isinstance(cv, ast.Call) and ast.unparse(cv.func) == 're.compile' and cv not in cands:
                cands.append(cv)
    for c in cands:
        try:
            pats.append((c, fold.fold(fs.module, c, None, fs)))
        except consts.NotConstant:
            pass
    need(pats, 'C05.R4: strip_ansi pattern not foldable')
    for (c, rx) in pats:
        ok = False
        g1 = consts.subpattern(rx.items[0]) if rx.items else None
        if g1 and len(g1[1]) == 1:
            alts = consts.branch_alts(g1[1][0])
            if alts:
                lits = {consts.literal_prefix(a) for a in alts}
                ok = lits == {'\x9b', '\x1b['}
        final = consts.item_charset(rx.items[-1]) if rx.items else None
        ok = ok and final is not None and ord('m') in final and ord(' ') not in final
        rep.ob('C05.R4', ctx.loc(fs, c), 'strip_ansi pattern', ok,
               'pattern starts with the CSI introducer (0x9B | ESC [) and ends with a final byte class' if ok else
               'ANSI pattern no longer starts with the CSI introducer: ordinary text could be deleted / colour codes kept', anchor=fs.qualname)


def r11_run_state_is_forwarded(ctx, rule='C05.R11'):
    """CONFIG-FLOW: the comparison flags live in the run state.  Every function of checker.py that takes a `runstate` falls back to a fresh
    default state when it is not given one -- so a call site that has the current state at hand and does not hand it on compares under the
    DEFAULT flags (ELLIPSIS on, NORMALIZE_WHITESPACE on, ...) whatever the doctest enabled or disabled."""
    rep = ctx.rep
    takers = {}
    for fn in ctx.prog.funcs.values():
        if fn.module.name != 'xdoctest.checker':
            continue
        names = [a.arg for a in fn.node.args.posonlyargs + fn.node.args.args]
        if 'runstate' in names:
            takers[fn.qualname] = (fn, names.index('runstate') - (1 if fn.cls is not None else 0))
    rep.floor(rule, 'checker functions that take the run state', len(takers), 5)
    n = 0
    for func in ctx.prog.funcs.values():
        if not func.module.name.startswith('xdoctest') or func.module.name.startswith('xdoctest._tokenize'):
            continue
        pnames = [a.arg for a in func.node.args.posonlyargs + func.node.args.args + func.node.args.kwonlyargs]
        # does the caller have a run state at hand?
        has_state = 'runstate' in pnames or any(isinstance(x, ast.Name) and x.id == 'runstate' and isinstance(x.ctx, ast.Store) for x in walk_scope(func.node)) or \
            any(isinstance(x, ast.Attribute) and x.attr == '_runstate' for x in walk_scope(func.node))
        for c in walk_scope(func.node):
            if not isinstance(c, ast.Call):
                continue
            r = ctx.res.resolve_call(func, c)
            if r[0] != 'repo' or len(r[1]) != 1 or r[1][0].qualname not in takers:
                continue
            callee, idx = takers[r[1][0].qualname]
            if any(isinstance(a, ast.Starred) for a in c.args) or any(k.arg is None for k in c.keywords):
                continue
            arg = c.args[idx] if idx < len(c.args) else next((k.value for k in c.keywords if k.arg == 'runstate'), None)
            n += 1
            if not has_state:
                rep.ob(rule, ctx.loc(func, c), ctx.src(c, 90), True, 'the caller has no run state of its own', nontrivial=False, anchor=func.qualname)
                continue
            fresh = isinstance(arg, ast.Call) and ctx.res.resolve_call(func, arg)[0] == 'class'
            ok = arg is not None and not (isinstance(arg, ast.Constant) and arg.value is None) and not fresh
            rep.ob(rule, ctx.loc(func, c), ctx.src(c, 90), ok,
                   'the current run state is handed on (%s)' % ctx.src(arg, 40) if ok else
                   '%s is called without the run state the caller holds: the comparison runs under the default flags, so a doctest that switched a flag off '
                   '(e.g. -ELLIPSIS, -NORMALIZE_WHITESPACE) or on (+IGNORE_WHITESPACE) is judged as if it had not' % callee.name, anchor=func.qualname)
    rep.floor(rule, 'calls of run-state taking checker functions', n, 10)


def _role_of_name(nm):
    low = nm.lower()
    g, w = 'got' in low, 'want' in low
    return 'got' if g and not w else ('want' if w and not g else None)


def r12_got_want_roles(ctx, rule='C05.R12'):
    """ROLE-AGREE: the relation is not symmetric ('...' and <BLANKLINE> have their meaning on the want side only, the traceback pattern is applied to
    the want, reports say Expected/Got).  At every call of a checker function whose parameters are named after the two sides, an argument that is
    named after the OTHER side (got where want is expected or the reverse) is a swap."""
    rep = ctx.rep
    sided = {}
    for fn in ctx.prog.funcs.values():
        if fn.module.name != 'xdoctest.checker':
            continue
        names = [a.arg for a in fn.node.args.posonlyargs + fn.node.args.args]
        off = 1 if fn.cls is not None else 0
        roles = {i - off: _role_of_name(nm) for i, nm in enumerate(names) if i >= off and _role_of_name(nm)}
        if len(set(roles.values())) == 2:
            sided[fn.qualname] = (fn, names[off:], roles)
    rep.floor(rule, 'checker functions with a got side and a want side', len(sided), 5)
    n = 0
    for func in ctx.prog.funcs.values():
        if not func.module.name.startswith('xdoctest') or func.module.name.startswith('xdoctest._tokenize'):
            continue
        for c in walk_scope(func.node):
            if not isinstance(c, ast.Call):
                continue
            r = ctx.res.resolve_call(func, c)
            if r[0] not in ('repo', 'class') or (r[0] == 'repo' and len(r[1]) != 1):
                continue
            callee = r[1][0] if r[0] == 'repo' else r[1].methods.get('__init__') if hasattr(r[1], 'methods') else None
            if callee is None or callee.qualname not in sided:
                continue
            fn, pnames, roles = sided[callee.qualname]
            if any(isinstance(a, ast.Starred) for a in c.args) or any(k.arg is None for k in c.keywords):
                continue
            bound = {i: a for i, a in enumerate(c.args)}
            for k in c.keywords:
                if k.arg in pnames:
                    bound[pnames.index(k.arg)] = k.value
            for i, role in sorted(roles.items()):
                if i not in bound:
                    continue
                arg = bound[i]
                seen = set()
                for x in ast.walk(arg):
                    rr = _role_of_name(x.id) if isinstance(x, ast.Name) else (_role_of_name(x.attr) if isinstance(x, ast.Attribute) else None)
                    if rr:
                        seen.add(rr)
                if not seen:
                    continue
                n += 1
                ok = role in seen
                rep.ob(rule, ctx.loc(func, arg), '%s(... %s=%s ...)' % (callee.name, pnames[i], ctx.src(arg, 40)), ok,
                       'the %s side is handed the %s text' % (role, role) if ok else
                       'the `%s` parameter of %s receives `%s`, which is the %s side: the comparison is not symmetric (ellipsis and <BLANKLINE> are honoured in the want only), '
                       'so wants that rely on them stop matching and a got that contains them starts to' % (pnames[i], callee.name, ctx.src(arg, 40), 'want' if role == 'got' else 'got'),
                       anchor=func.qualname)
    rep.floor(rule, 'sided arguments at checker call sites', n, 12)


def r4c_ansi_sequences(ctx):
    """REGEX-FACT (finite samples, the pattern is folded from the source and applied to constant texts -- nothing of the package runs):
    colour codes are removed from the got text before it is compared.  The pattern(s) of utils.strip_ansi must take out every CSI sequence,
    also the ones without parameter bytes (`ESC[m` reset, `ESC[K` erase line), and nothing else."""
    import re as _re
    from .common import fold_text, folded_flags
    rep = ctx.rep
    f = ctx.func('xdoctest.utils.util_str.strip_ansi')
    pats = []
    for c in walk_scope(f.node):
        if isinstance(c, ast.Call) and isinstance(c.func, ast.Attribute) and is_name(c.func.value, 're') and c.func.attr == 'compile' and c.args:
            pats.append((c, fold_text(ctx, f, c.args[0]), folded_flags(ctx, f, c, 1)))
        elif isinstance(c, ast.Call) and isinstance(c.func, ast.Attribute) and is_name(c.func.value, 're') and c.func.attr == 'sub' and len(c.args) >= 3:
            pats.append((c, fold_text(ctx, f, c.args[0]), folded_flags(ctx, f, c, 4)))
        elif isinstance(c, ast.Call) and isinstance(c.func, ast.Attribute) and c.func.attr == 'sub' and isinstance(c.func.value, ast.Name) and c.func.value.id in f.module.assigns:
            # a pattern compiled once at module level
            try:
                rx = consts.Folder(ctx.prog).fold(f.module, f.module.assigns[c.func.value.id])
            except consts.NotConstant:
                rx = None
            if isinstance(rx, consts.Regex):
                pats.append((c, rx.pattern, rx.flags))
    rep.floor('C05.R4c', 'patterns applied by strip_ansi', len(pats), 1)
    E = '\x1b'
    samples = [(E + '[31mred' + E + '[0m', 'red'), (E + '[0;35mX' + E + '[m', 'X'), (E + '[1;32;40mbold' + E + '[K', 'bold'), ('plain [31m text', 'plain [31m text'),
               ('a' + E + '[mb', 'ab'), ('\x9b31mz', 'z'), ('no codes [x] {y}', 'no codes [x] {y}')]
    bad = []
    for text, want in samples:
        out = text
        for (_, pat, fl) in pats:
            out = _re.sub(pat, '', out, flags=fl)
        if out != want:
            bad.append((text, out))
    rep.ob('C05.R4c', ctx.loc(f, pats[0][0]), 'strip_ansi patterns %s' % [p_ for (_, p_, _f) in pats], not bad,
           'every sample escape sequence (with and without parameter bytes) is removed and plain text is kept (7 samples)' if not bad else
           'the ANSI pattern leaves or eats text on %s: a got that differs from the want only by such a colour code no longer matches' % bad, anchor=f.qualname)


def r3b_steps_reach_the_result(ctx):
    """FLOW: a normalisation step counts only if (i) its statement is reachable and (ii) what it produces flows into the text normalize() returns
    for that side.  Backward slice from the returned (got, want) pair through the reaching definitions: the set of step roles met on each side must
    contain every required role (the blank-line marker on the want side only)"""
    rep = ctx.rep
    f = ctx.func(NORM)
    g = ctx.cfg(f)
    rd = ctx.rd(f)
    steps = classify_steps(ctx, f)
    def const_truth(e):
        if isinstance(e, ast.Constant):
            return bool(e.value)
        if isinstance(e, ast.UnaryOp) and isinstance(e.op, ast.Not):
            t = const_truth(e.operand)
            return None if t is None else not t
        return None

    def live_edges(a, b, kind, tok):
        if kind != 'n':
            return False
        if b.kind == 'branch' and b.attrs['test'].kind == 'test' and b.attrs['polarity'] in (True, False):
            t = const_truth(b.attrs['test'].ast)
            if t is not None and t != b.attrs['polarity']:
                return False
        return True
    reach = set(id(x) for x in graph.reachable([g.entry], efilter=live_edges))
    call_of = {}
    for st in steps:
        top = st.via if st.via is not None else st.call
        call_of.setdefault(id(top), []).append(st)
        nodes = [n for n in g.nodes_containing(top) if not n.dup]
        live = any(id(n) in reach for n in nodes)
        if not live:
            rep.ob('C05.R3b', ctx.loc(f, top), 'step %s: %s' % (st.role, ctx.src(top, 60)), False,
                   'the statement that applies step `%s` cannot be reached (its guard is constantly false): the step is never applied' % st.role, anchor=NORM)
    rets = [n for n in g.nodes if n.kind == 'stmt' and isinstance(n.ast, ast.Return) and not n.dup and isinstance(n.ast.value, ast.Tuple) and len(n.ast.value.elts) == 2]
    need(rets, 'C05.R3b: normalize does not return a (got, want) pair')
    roles = {'got': set(), 'want': set()}
    for rn in rets:
        for side, e0 in zip(('got', 'want'), rn.ast.value.elts):
            seen = set()
            work = [(rn, e0)]
            while work:
                node, e = work.pop()
                if (id(node), id(e)) in seen:
                    continue
                seen.add((id(node), id(e)))
                def pieces(x0):
                    # a step call continues its SUBJECT only (norm_repr(got, want) returns a form of its first argument)
                    sts = call_of.get(id(x0), [])
                    if sts:
                        for st in sts:
                            roles[side].add(st.role)
                        subj = sts[0].subj if sts[0].via is None else (sts[0].via.args[0] if sts[0].via.args else None)
                        if subj is not None:
                            yield from pieces(subj)
                        return
                    yield x0
                    for ch in ast.iter_child_nodes(x0):
                        yield from pieces(ch)
                for x in pieces(e):
                    if isinstance(x, ast.Name) and isinstance(x.ctx, ast.Load):
                        for d in rd.at(node, x.id):
                            v = d.value
                            if isinstance(v, tuple) and v[0] == 'unpack' and isinstance(v[1], ast.Call) and isinstance(v[2], int) and len(v[1].args) > v[2]:
                                # `got, want = helper(got, want)`: the i-th result continues the i-th argument
                                for st in call_of.get(id(v[1]), []):
                                    roles[side].add(st.role)
                                work.append((d.node, v[1].args[v[2]]))
                                continue
                            v = d.base if hasattr(d, 'base') else v
                            if isinstance(v, ast.AST):
                                work.append((d.node, v))
    rep.note('roles_reaching_the_result', {k: sorted(v) for k, v in roles.items()})
    for role in sorted(REQUIRED):
        for side in ('got', 'want'):
            if role == 'blankline' and side == 'got':
                continue
            ok = role in roles[side]
            rep.ob('C05.R3b', ctx.loc(f, rets[0].ast), 'step %s reaches the returned %s' % (role, side), ok,
                   'on the data flow into the result' if ok else
                   'no application of step `%s` lies on the data flow into the returned %s text: its result is computed and dropped, so the two sides are normalised differently' % (role, side),
                   anchor=NORM)


def r4d_blankline_marker_lines(ctx):
    """REGEX-FACT (finite samples on the folded pattern): `<BLANKLINE>` on a line of its own stands for an empty line -- wherever that line is (first,
    middle, last, several in a row) the marker line becomes an empty line and no other line changes"""
    import re as _re
    from .common import fold_text, folded_flags
    rep = ctx.rep
    f = ctx.func('xdoctest.checker.remove_blankline_marker')
    subs = [c for c in walk_scope(f.node) if isinstance(c, ast.Call) and isinstance(c.func, ast.Attribute) and is_name(c.func.value, 're') and c.func.attr == 'sub' and len(c.args) >= 3]
    rep.floor('C05.R4d', 'substitutions in remove_blankline_marker', len(subs), 1)
    marker = consts.Folder(ctx.prog).module_const('xdoctest.checker', 'BLANKLINE_MARKER')
    for c in subs:
        pat, repl, fl = fold_text(ctx, f, c.args[0]), fold_text(ctx, f, c.args[1]), folded_flags(ctx, f, c, 4)
        bad = []
        for text in (marker + '\nbar', 'a\n' + marker + '\nb', 'a\n' + marker, 'a\n' + marker + '\n' + marker + '\nb', marker + '\n' + marker + '\nz', 'a\nb', 'no marker here'):
            want = '\n'.join('' if ln == marker else ln for ln in text.split('\n'))
            got = _re.sub(pat, repl, text, flags=fl)
            if got != want:
                bad.append((text, got))
        rep.ob('C05.R4d', ctx.loc(f, c), 're.sub(%r, %r, text)' % (pat[:40], repl), not bad,
               'a marker line becomes an empty line in every position (7 samples)' if not bad else
               'the marker pattern rewrites %s: a want that uses <BLANKLINE> in that position no longer equals the output it describes' % bad, anchor=f.qualname)


# ---------------------------------------------------------------------------
from ..selftest import fire, silent      # noqa: E402

CK = 'xdoctest/checker.py'
US = 'xdoctest/utils/util_str.py'
VARIANTS = [
    fire('blankline-marker-on-the-first-line', 'C05.R4d', (CK, "        '{pos_lb}{marker}\\n', '{marker}\\n',\n", "        '{pos_lb}{marker}\\n',\n")),
    fire('visible-text-of-the-want-dropped', 'C05.R3b', (CK, "    want = ''.join(want_lines)\n", "    pass\n")),
    fire('prefix-normalisation-switched-off', 'C05.R3b', (CK, "    if True:\n        # normalize python 2/3 byte/unicode prefixes\n", "    if not True:\n        # normalize python 2/3 byte/unicode prefixes\n")),
    fire('ansi-pattern-needs-a-parameter-byte', 'C05.R4c', ('xdoctest/utils/util_str.py', "(\\x9B|\\x1B\\[)[0-?]*[ -/]*[@-~]", "(\\x9B|\\x1B\\[)[0-?]+[ -/]*[@-~]")),
    fire('repr-fallback-swaps-sides', 'C05.R12', (CK, "                flag = check_output(got, want, runstate)\n", "                flag = check_output(want, got, runstate)\n")),
    fire('ellipsis-matcher-sides-swapped', 'C05.R12', (CK, "        if _ellipsis_match(got, want):\n", "        if _ellipsis_match(want, got):\n")),
    fire('repr-fallback-compares-under-default-state', 'C05.R11', (CK, "                flag = check_output(got, want, runstate)\n", "                flag = check_output(got, want)\n")),
    fire('exception-message-compared-under-default-state', 'C05.R11', (CK, "    flag = check_output(exc_got, exc_want, runstate)\n", "    flag = check_output(exc_got, exc_want)\n")),
    fire('diff-switches-flags-on-shared-state', 'C05.R10', (CK, "        runstate_ = runstate.to_dict()\n\n        # Don't normalize whitespaces in report for better visibility\n", "        runstate_ = runstate\n\n        # Don't normalize whitespaces in report for better visibility\n")),
    fire('mixed-quotes-removed', 'C05.R9', (CK, "                for q in ['\"', \"'\"]:\n                    if a.startswith(q) and a.endswith(q):\n                        if _check_match(a[1:-1], b, runstate):\n                            return a[1:-1]\n", "                quotes = ('\"', \"'\")\n                if a.startswith(quotes) and a.endswith(quotes):\n                    if _check_match(a[1:-1], b, runstate):\n                        return a[1:-1]\n")),
    fire('K2-trailing-ws-spaces-only', 'C05.R4', (CK, 'TRAILING_WS = re.compile(r"[ \\t]*$", re.UNICODE | re.MULTILINE)', 'TRAILING_WS = re.compile(r"[ ]*$", re.UNICODE | re.MULTILINE)')),
    fire('trailing-ws-not-multiline', 'C05.R4', (CK, 'TRAILING_WS = re.compile(r"[ \\t]*$", re.UNICODE | re.MULTILINE)', 'TRAILING_WS = re.compile(r"[ \\t]*$", re.UNICODE)')),
    fire('K3-prefix-guard-dropped', 'C05.R4', (CK, 'unicode_literal_re = re.compile(r"(\\W|^)[uU]([rR]?[\\\'\\"])", re.UNICODE)', 'unicode_literal_re = re.compile(r"()[uU]([rR]?[\\\'\\"])", re.UNICODE)')),
    fire('bytes-prefix-guard-dropped', 'C05.R4', (CK, 'bytes_literal_re = re.compile(r"(\\W|^)[bB]([rR]?[\\\'\\"])", re.UNICODE)', 'bytes_literal_re = re.compile(r"(\\W?)[bB]([rR]?[\\\'\\"])", re.UNICODE)')),
    fire('replacement-drops-group', 'C05.R4', (CK, "        return re.sub(regex, r'\\1\\2', text)\n", "        return re.sub(regex, r'\\2', text)\n")),
    fire('ansi-any-bracket', 'C05.R4', (US, "(\\x9B|\\x1B\\[)[0-?]*[ -/]*[@-~]", "(\\x9B|\\x1B\\[|\\[)[0-?]*[ -/]*[@-~]")),
    fire('flags-swapped', 'C05.R2', (CK, "    if runstate['IGNORE_WHITESPACE']:\n        # Completely remove whitespace\n", "    if runstate['NORMALIZE_WHITESPACE']:\n        # Completely remove whitespace\n")),
    fire('blankline-polarity-inverted', 'C05.R2', (CK, "    if not runstate['DONT_ACCEPT_BLANKLINE']:\n        want = remove_blankline_marker(want)\n", "    if runstate['DONT_ACCEPT_BLANKLINE']:\n        want = remove_blankline_marker(want)\n")),
    fire('norm-repr-unconditional', 'C05.R2', (CK, "    if runstate['NORMALIZE_REPR']:\n        def norm_repr", "    if True:\n        def norm_repr")),
    fire('collapse-only-under-normalize', 'C05.R2', (CK, "    if runstate['NORMALIZE_WHITESPACE'] or runstate['IGNORE_WHITESPACE']:\n", "    if runstate['NORMALIZE_WHITESPACE']:\n")),
    fire('ellipsis-unconditional', 'C05.R2', (CK, "    if runstate['ELLIPSIS']:\n        if _ellipsis_match(got, want):\n", "    if True:\n        if _ellipsis_match(got, want):\n")),
    fire('rstrip-under-flag', 'C05.R2', (CK, "    want = want.rstrip()\n    got = got.rstrip()\n", "    if runstate['NORMALIZE_WHITESPACE']:\n        want = want.rstrip()\n        got = got.rstrip()\n")),
    fire('misspelt-key', 'C05.R2', (CK, "    if runstate['NORMALIZE_REPR']:\n        def norm_repr", "    if runstate['NORMALISE_REPR']:\n        def norm_repr")),
    fire('strip-ansi-got-only', 'C05.R3', (CK, "        want = utils.strip_ansi(want)\n", "")),
    fire('trailing-ws-want-only', 'C05.R3', (CK, "    got = re.sub(TRAILING_WS, '', got)\n", "")),
    fire('collapse-applied-to-got-twice', 'C05.R3', (CK, "        want = ' '.join(want.split())\n", "        want = ' '.join(got.split())\n")),
    fire('shortcut-removed', 'C05.R1', (CK, "        if got == want:\n            return True\n\n        if runstate is None:\n", "        if runstate is None:\n")),
    fire('shortcut-after-normalize-only', 'C05.R1', (CK, "        if got == want:\n            return True\n\n        if runstate is None:\n", "        if got is None:\n            return True\n\n        if runstate is None:\n")),
    fire('prefixes-before-ansi-in-helper', 'C05.R5',
         (CK, "    # Remove terminal colors\n    if True:\n        got = utils.strip_ansi(got)\n        want = utils.strip_ansi(want)\n\n    if True:\n        # normalize python 2/3 byte/unicode prefixes\n        got = remove_prefixes(unicode_literal_re, got)\n        want = remove_prefixes(unicode_literal_re, want)\n",
              "    def unconditional(text):\n        for regex in (unicode_literal_re,):\n            text = remove_prefixes(regex, text)\n        return utils.strip_ansi(text)\n\n    got = unconditional(got)\n    want = unconditional(want)\n    if True:\n")),
    fire('rstrip-before-blankline', 'C05.R5',
         (CK, "    # normalize endling newlines\n    want = want.rstrip()\n    got = got.rstrip()\n", ""),
         (CK, "    # Replace <BLANKLINE>s if it is being used.\n", "    want = want.rstrip()\n    got = got.rstrip()\n    # Replace <BLANKLINE>s if it is being used.\n")),
    silent('unconditional-steps-in-helper-same-order',
           (CK, "    # Remove terminal colors\n    if True:\n        got = utils.strip_ansi(got)\n        want = utils.strip_ansi(want)\n\n    if True:\n        # normalize python 2/3 byte/unicode prefixes\n        got = remove_prefixes(unicode_literal_re, got)\n        want = remove_prefixes(unicode_literal_re, want)\n",
                "    def unconditional(text):\n        text = utils.strip_ansi(text)\n        for regex in (unicode_literal_re,):\n            text = remove_prefixes(regex, text)\n        return text\n\n    got = unconditional(got)\n    want = unconditional(want)\n    if True:\n"),
           note='behaviour-preserving extraction of the unconditional steps into a nested helper'),
    silent('regex-split-into-pieces', (CK, 'TRAILING_WS = re.compile(r"[ \\t]*$", re.UNICODE | re.MULTILINE)', 'TRAILING_WS = re.compile(r"[ \\t]*" + "$", re.UNICODE | re.MULTILINE)')),
    silent('trailing-ws-plus', (CK, 'TRAILING_WS = re.compile(r"[ \\t]*$", re.UNICODE | re.MULTILINE)', 'TRAILING_WS = re.compile(r"[ \\t\\f\\v]+$", re.UNICODE | re.MULTILINE)')),
    silent('steps-reordered-got-want', (CK, "    got = re.sub(TRAILING_WS, '', got)\n    want = re.sub(TRAILING_WS, '', want)\n", "    want = re.sub(TRAILING_WS, '', want)\n    got = re.sub(TRAILING_WS, '', got)\n")),
    silent('blankline-test-rephrased', (CK, "    if not runstate['DONT_ACCEPT_BLANKLINE']:\n        want = remove_blankline_marker(want)\n", "    if runstate['DONT_ACCEPT_BLANKLINE']:\n        pass\n    else:\n        want = remove_blankline_marker(want)\n")),
    silent('trailing-ws-method-form', (CK, "    got = re.sub(TRAILING_WS, '', got)\n    want = re.sub(TRAILING_WS, '', want)\n", "    got = TRAILING_WS.sub('', got)\n    want = TRAILING_WS.sub('', want)\n")),
]
