"""
C13 -- parsing partitions the docstring: each line is text, source or want, once.
"""
import ast

from ..context import need
from ..loader import AnalysisError
from .. import graph, consts
from ..roles import node_calls
from ..resolve import walk_scope
from .common import fmt_facts, is_name
from . import c01

EXPLANATION = (
    'R1 FLOW pre-processing: the docstring reaches every indentation measurement only after expandtabs (taint, shared with C01.R5), and the '
    'value of _min_indentation(string), on its positive branch, is the lower slice bound of every line of that same string whose re-join is '
    'what the labeller receives. R2 PATH-COUNT consume/emit: on every non-exceptional path through one iteration of the labelling loop exactly '
    'one of {direct append of the consumed line, the completion loop} happens; the completion loop appends once per value the completer '
    'yields; the completer yields its first line once before looping and then, per iteration, consumes exactly one line with next() and yields '
    'exactly one. R3 FINITE-EVAL of the label dispatch: for each previous state the set of labels the consumed line can receive is computed by '
    'pruning the tests on the previous state and compared with the documented transition table (prose never becomes a want without '
    'intervening source, a want never continues as a continuation line). R4 grouping: every group leads to at least one yield in iteration '
    'order and the chunk packager always yields its last example. The predicates that choose the label are not decided.')
DECIDES = ['FLOW tab expansion and common de-indent', 'PATH-COUNT consume/emit pairing', 'FINITE-EVAL label transitions', 'grouping arity']
NOT_DECIDED = ['the line-kind predicates (prefix tests, indentation comparisons, statement completion)', 'the running line counter of _package_groups (loop carried)']

PARSE = 'xdoctest.parser.DoctestParser.parse'
LABEL = 'xdoctest.parser.DoctestParser._label_docsrc_lines'
COMPLETE = 'xdoctest.parser._complete_source'
PKG = 'xdoctest.parser.DoctestParser._package_groups'
CHUNK = 'xdoctest.parser.DoctestParser._package_chunk'

TABLE = {
    'text': {'text', 'dsrc'},
    'dsrc': {'dsrc', 'dcnt', 'want', 'text'},
    'dcnt': {'dsrc', 'dcnt', 'want', 'text'},
    'want': {'want', 'text', 'dsrc'},
}


def run(ctx):
    for fn in (r1_preprocessing, r2_consume_emit, r3_transitions, r3b_prompt_is_source, r3c_blank_line_tests, r4_grouping, r5_group_buffers, r6_line_counter, r1b_common_indentation_of_one_line, r3d_only_a_primary_prompt_starts_source, r1c_indentation_pattern, r3e_prompt_recognition_on_samples):
        ctx.rep.rule(fn, ctx)


def r1_preprocessing(ctx):
    rep = ctx.rep
    c01.r5_tab_expansion(ctx, rule='C13.R1')
    fp = ctx.func(PARSE)
    MI = 'xdoctest.parser._min_indentation'
    # host of the common de-indent: parse itself, or a helper parse hands the text to (inlining bound 1)
    hosts = []
    cands = [fp]
    for c in walk_scope(fp.node):
        if isinstance(c, ast.Call):
            r = ctx.res.resolve_call(fp, c)
            if r[0] == 'repo' and len(r[1]) == 1 and r[1][0].module is fp.module and r[1][0] not in cands and r[1][0].qualname not in (MI, LABEL):
                cands.append(r[1][0])
    for h in cands:
        rdh = ctx.rd(h)
        mi_defs = [d for d in rdh.defs if isinstance(d.value, ast.Call) and ctx.res.resolve_call(h, d.value)[0] == 'repo' and ctx.res.resolve_call(h, d.value)[1][0].qualname == MI]
        if mi_defs:
            hosts.append((h, mi_defs))
    if not hosts and not ctx.prog.has_func(MI):
        # the helper was written out in parse: the local bound from min(<indentation of the non-blank lines of X>)
        rdh = ctx.rd(fp)
        mins = [d for d in rdh.defs if isinstance(d.value, ast.Call) and is_name(d.value.func, 'min') and d.value.args]
        if len({d.name for d in mins}) == 1:
            d0 = mins[0]
            feed = d0.value.args[0]
            if isinstance(feed, ast.Name):
                fd = rdh.at(d0.node, feed.id)
                feed = fd[0].value if len(fd) == 1 and isinstance(fd[0].value, ast.AST) else None
            srcs = set()
            if feed is not None:
                bound = {y.id for x in ast.walk(feed) if isinstance(x, ast.comprehension) for y in ast.walk(x.target) if isinstance(y, ast.Name)}
                srcs = {x.id for x in ast.walk(feed) if isinstance(x, ast.Name) and isinstance(x.ctx, ast.Load) and x.id not in bound and rdh.defs_of(x.id)}
            if len(srcs) == 1:
                class _Shim:
                    pass
                mi_ = _Shim()
                mi_.name, mi_.node = d0.name, d0.node
                mi_.value = ast.Call(func=ast.Name(id='min', ctx=ast.Load()), args=[ast.Name(id=srcs.pop(), ctx=ast.Load())], keywords=[])
                hosts = [(fp, [mi_])]
    need(len(hosts) == 1 and len(hosts[0][1]) == 1, 'C13.R1: _min_indentation(string) not bound to one local in parse (or in one helper it calls)')
    f, (mi,) = hosts[0]
    g = ctx.cfg(f)
    rd = ctx.rd(f)
    dom = ctx.dom(g, g.entry)
    src = mi.value.args[0].id if mi.value.args and isinstance(mi.value.args[0], ast.Name) else None
    ok_arg = src is not None
    # the de-indent: '\n'.join([ln[mi:] for ln in <src>.splitlines()]) where the common indentation is non-zero
    ded = None
    for n in g.nodes:
        if n.kind != 'stmt' or n.dup or not isinstance(n.ast, (ast.Assign, ast.Return)):
            continue
        v = n.ast.value
        if isinstance(v, ast.Call) and isinstance(v.func, ast.Attribute) and v.func.attr == 'join' and v.args:
            comp = v.args[0]
            if isinstance(comp, (ast.ListComp, ast.GeneratorExp)) and isinstance(comp.elt, ast.Subscript) and isinstance(comp.elt.slice, ast.Slice):
                ded = n
    if ded is None:
        rep.ob('C13.R1', ctx.loc(f, f.node), 'common de-indent', False, 'the common indentation is no longer removed from every line before labelling', anchor=f.qualname)
        return
    dv = ded.ast.value
    comp = dv.args[0]
    sl = comp.elt.slice
    lower_ok = is_name(sl.lower, mi.name) and sl.upper is None
    it = comp.generators[0].iter
    same_string = isinstance(it, ast.Call) and isinstance(it.func, ast.Attribute) and it.func.attr == 'splitlines' and is_name(it.func.value, src) and \
        is_name(comp.elt.value, comp.generators[0].target.id if isinstance(comp.generators[0].target, ast.Name) else '') and \
        set(id(d) for d in rd.at(ded, src)) == set(id(d) for d in rd.at(mi.node, src))
    sep_ok = isinstance(dv.func.value, ast.Constant) and dv.func.value.value == '\n'
    facts = graph.guard_facts(dom, ded)

    def nonzero(fa):
        e = fa.expr
        if is_name(e, mi.name):
            return fa.polarity is True
        if isinstance(e, ast.Compare) and len(e.ops) == 1 and is_name(e.left, mi.name) and isinstance(e.comparators[0], ast.Constant) and e.comparators[0].value == 0:
            if isinstance(e.ops[0], (ast.Gt, ast.NotEq)):
                return fa.polarity is True
            if isinstance(e.ops[0], (ast.Eq, ast.LtE)):
                return fa.polarity is False
        if isinstance(e, ast.Compare) and len(e.ops) == 1 and is_name(e.left, mi.name) and isinstance(e.comparators[0], ast.Constant) and e.comparators[0].value == 1 and isinstance(e.ops[0], ast.GtE):
            return fa.polarity is True
        return False
    pos = any(nonzero(fa) for fa in facts)
    ok = ok_arg and lower_ok and same_string and sep_ok and pos
    rep.ob('C13.R1', ctx.loc(f, ded.ast), ctx.src(ded.ast), ok,
           'every line of the same string is sliced from the common indentation and re-joined with newlines' if ok else
           'the common de-indent is not `join(line[min_indent:] for line in string.splitlines())` on the branch where it is non-zero (arg ok %s, bound ok %s, same string %s, separator %s, guard %s)' % (ok_arg, lower_ok, same_string, sep_ok, pos),
           anchor=f.qualname)
    # the labeller receives that string
    gp = ctx.cfg(fp)
    rdp = ctx.rd(fp)
    psrc = fp.node.args.args[1].arg
    lab = [(n, c) for n in gp.nodes for c in node_calls(n) if ctx.res.resolve_call(fp, c)[0] == 'repo' and ctx.res.resolve_call(fp, c)[1][0].qualname == LABEL]
    need(lab, 'C13.R1: call of the labeller not found')
    for (n, c) in lab:
        a0 = c.args[0] if c.args else None
        defs = rdp.at(n, a0.id) if isinstance(a0, ast.Name) else []
        if f is fp:
            okl = is_name(a0, psrc) and any(d.node is ded for d in defs) and all(d.kind != 'param' for d in defs)
        else:
            # every definition reaching the labeller is the result of the de-indent helper applied to (a value derived from) the text
            okl = bool(defs) and all(isinstance(d.value, ast.Call) and ctx.res.resolve_call(fp, d.value)[0] == 'repo' and ctx.res.resolve_call(fp, d.value)[1][0] is f for d in defs)
            # and the helper returns either its argument unchanged (nothing to strip) or the de-indented text
            rets = [x for x in g.nodes if x.kind == 'stmt' and isinstance(x.ast, ast.Return) and not x.dup]
            okl = okl and all(x is ded or is_name(x.ast.value, src) for x in rets)
        rep.ob('C13.R1', ctx.loc(fp, c), ctx.src(c), okl,
               'the labeller receives the tab-expanded, de-indented text' if okl else 'the labeller can receive the raw docstring', anchor=PARSE)
    # min on a non-empty sequence only (or with a default)
    fm = ctx.func(MI) if ctx.prog.has_func(MI) else fp
    gm = ctx.cfg(fm)
    domm = ctx.dom(gm, gm.entry)
    for n in gm.nodes:
        for c in node_calls(n):
            if is_name(c.func, 'min'):
                facts = graph.guard_facts(domm, n)
                ok = any(isinstance(fa.expr, ast.Compare) and 'len(' in fa.text and fa.polarity is True for fa in facts) or any(isinstance(fa.expr, ast.Name) and fa.polarity is True for fa in facts) or \
                    any(k.arg == 'default' for k in c.keywords)
                rep.ob('C13.R1', ctx.loc(fm, c), ctx.src(c), ok, 'min() only on a non-empty sequence (or with a default)' if ok else 'min() of a possibly empty list (a docstring without non-blank lines raises ValueError)', anchor=fm.qualname)


def _state_constants(rd, mod=None):
    """names bound once to a label: locals of the labeller (`TEXT = 'text'`, `TEXT = _TEXT`) and module-level constants (`_TEXT = 'text'`)"""
    out = {}
    if mod is not None:
        for nm, v in mod.assigns.items():
            if isinstance(v, ast.Constant) and v.value in ('text', 'dsrc', 'dcnt', 'want'):
                out[nm] = v.value
    for d in rd.defs:
        if d.kind != 'assign' or len(rd.defs_of(d.name)) != 1 or not d.name.lstrip('_').isupper():
            continue
        if isinstance(d.value, ast.Constant) and isinstance(d.value.value, str):
            out[d.name] = d.value.value
        elif isinstance(d.value, ast.Name) and d.value.id in out:
            out[d.name] = out[d.value.id]
    return out


def _state_val(e, states):
    if isinstance(e, ast.Name) and e.id in states:
        return states[e.id]
    if isinstance(e, ast.Constant) and isinstance(e.value, str):
        return e.value
    return None


def _state_truth(e, var, val, states):
    """truth of a test on the state variable `var` when it holds `val`; None if the test is not such a test"""
    if isinstance(e, ast.Compare) and len(e.ops) == 1 and is_name(e.left, var):
        c = e.comparators[0]
        if isinstance(e.ops[0], (ast.Eq, ast.NotEq)) and _state_val(c, states) is not None:
            return (val == _state_val(c, states)) == isinstance(e.ops[0], ast.Eq)
        if isinstance(e.ops[0], (ast.In, ast.NotIn)) and isinstance(c, (ast.Set, ast.Tuple, ast.List)):
            vals = [_state_val(x, states) for x in c.elts]
            if None not in vals:
                return (val in vals) == isinstance(e.ops[0], ast.In)
    return None


def _yield_nodes(g):
    return [n for n in g.nodes if n.kind == 'stmt' and not n.dup and any(isinstance(x, (ast.Yield, ast.YieldFrom)) for x in ast.walk(n.ast))]


def r2_consume_emit(ctx):
    rep = ctx.rep
    f = ctx.func(LABEL)
    g = ctx.cfg(f)
    rd = ctx.rd(f)
    # main loop: iterates a local that flows from enumerate(<param>.splitlines())
    src = f.node.args.args[1].arg
    mains = []
    for n in g.nodes:
        if n.kind == 'for' and not n.dup and not any(fr.kind == 'loop' for fr in n.frames) and isinstance(n.ast.iter, ast.Name):
            defs = rd.at(n, n.ast.iter.id)
            if defs and all(isinstance(d.value, ast.Call) and is_name(d.value.func, 'enumerate') and 'splitlines' in ast.unparse(d.value) and src in ast.unparse(d.value) for d in defs):
                mains.append(n)
    need(len(mains) == 1, 'C13.R2: labelling loop over enumerate(string.splitlines()) not found')
    head = mains[0]
    itname = head.ast.iter.id
    line_var = [x.id for x in ast.walk(head.ast.target) if isinstance(x, ast.Name)][-1]
    entry, cut = graph.region_of_loop(g, head)
    appends = [n for n in g.nodes if n.kind == 'stmt' and not n.dup and any(isinstance(c.func, ast.Attribute) and c.func.attr == 'append' and is_name(c.func.value, 'labeled_lines') for c in node_calls(n))]
    inner = [n for n in g.nodes if n.kind == 'for' and not n.dup and graph.in_loop_body(n, head.ast) and isinstance(n.ast.iter, ast.Call) and
             ctx.res.resolve_call(f, n.ast.iter)[0] == 'repo' and ctx.res.resolve_call(f, n.ast.iter)[1][0].qualname == COMPLETE]
    need(len(inner) == 1, 'C13.R2: completion loop over _complete_source(...) not found')
    ih = inner[0]
    direct = [a for a in appends if not graph.in_loop_body(a, ih.ast)]
    in_inner = [a for a in appends if graph.in_loop_body(a, ih.ast)]
    rep.floor('C13.R2', 'label appends', len(appends), 2)
    # (a) per iteration: exactly one of {direct append, completion loop}
    inits = [n for n in g.nodes if n.kind == 'for_init' and n.stmt is ih.ast and not n.dup]
    ev = lambda x: any(x is a for a in direct) or any(x is i for i in inits)
    # the dispatch on curr_state is evaluated per value of the finite state set (all definitions that reach
    # it assign one of the state constants)
    states = _state_constants(rd, f.module)
    disp = [n for n in g.nodes if n.kind == 'test' and not n.dup and graph.in_loop_body(n, head.ast) and _state_truth(n.ast, 'curr_state', 'text', states) is not None]
    need(disp, 'C13.R2: dispatch on curr_state not found')
    for t in disp:
        for d in rd.at(t, 'curr_state'):
            v = d.value
            need(isinstance(v, ast.AST) and _state_val(v, states) is not None, 'C13.R2: curr_state may hold a non-state value at the dispatch (%r)' % d)
    for cur in ('text', 'dsrc', 'dcnt', 'want'):
        def ef(a, b, kind, tok, cur=cur):
            if kind != 'n':
                return False
            if b.kind == 'branch' and b.attrs['test'].kind == 'test' and any(b.attrs['test'] is t for t in disp):
                tv = _state_truth(b.attrs['test'].ast, 'curr_state', cur, states)
                if tv is not None and tv != b.attrs['polarity']:
                    return False
            return True
        # only paths on which curr_state can be `cur`: some definition with that value must lie on the path
        cur_defs = [d.node for d in rd.defs_of('curr_state') if isinstance(d.value, ast.AST) and _state_val(d.value, states) == cur and not graph.in_loop_body(d.node, ih.ast)]
        if not cur_defs:
            continue
        res = graph.count_events(entry, ev, lambda x: x is head, efilter=ef)
        need(res, 'C13.R2: labelling loop has no back edge for state %s' % cur)
        (_, lo, hi, wlo, whi) = next(iter(res.values()))
        rep.ob('C13.R2', ctx.loc(f, head.ast), 'consumed line labelled %s -> one emission' % cur, (lo, hi) == (1, 1),
               'on every normal path through an iteration the consumed line is emitted exactly once' if (lo, hi) == (1, 1) else
               'a line labelled %s is emitted between %d and %d times: lines are %s' % (cur, lo, hi, 'dropped' if lo == 0 else 'duplicated'),
               witness=None if (lo, hi) == (1, 1) else graph.fmt_path(wlo if lo != 1 else whi, f.module.relpath), anchor=LABEL)
    # direct appends label the consumed line
    for a in direct:
        c = [c for c in node_calls(a) if isinstance(c.func, ast.Attribute) and c.func.attr == 'append'][0]
        t = c.args[0] if c.args else None
        ok = isinstance(t, ast.Tuple) and len(t.elts) == 2 and is_name(t.elts[1], line_var)
        rep.ob('C13.R2', ctx.loc(f, c), ctx.src(c), ok, 'appends (state, consumed line)' if ok else 'the appended line is not the consumed line', nontrivial=False, anchor=LABEL)
    # (b) completion loop: one append per yielded value
    e2, c2 = graph.region_of_loop(g, ih)
    res = graph.count_events(e2, lambda x: any(x is a for a in in_inner), lambda x: x is ih, efilter=graph.normal_only)
    need(res, 'C13.R2: completion loop has no back edge')
    (_, lo, hi, wlo, whi) = next(iter(res.values()))
    rep.ob('C13.R2', ctx.loc(f, ih.ast), 'one append per completed line', (lo, hi) == (1, 1),
           'every line yielded by the completer is appended exactly once' if (lo, hi) == (1, 1) else 'between %d and %d appends per completed line' % (lo, hi), anchor=LABEL)
    parts = [x.id for x in ast.walk(ih.ast.target) if isinstance(x, ast.Name)]
    for a in in_inner:
        c = [c for c in node_calls(a) if isinstance(c.func, ast.Attribute) and c.func.attr == 'append'][0]
        t = c.args[0] if c.args else None
        ok = isinstance(t, ast.Tuple) and len(t.elts) == 2 and isinstance(t.elts[1], ast.Name) and t.elts[1].id == parts[0]
        rep.ob('C13.R2', ctx.loc(f, c), ctx.src(c), ok, 'appends the line the completer yielded' if ok else 'the appended line is not the yielded line', nontrivial=False, anchor=LABEL)
    # the completer consumes from the same iterator
    ok = len(ih.ast.iter.args) >= 3 and is_name(ih.ast.iter.args[0], line_var) and is_name(ih.ast.iter.args[2], itname)
    rep.ob('C13.R2', ctx.loc(f, ih.ast), ctx.src(ih.ast.iter), ok, 'the completer continues on the labelling iterator, starting from the consumed line' if ok else 'the completer does not consume from the labelling iterator', anchor=LABEL)
    # (c) inside the completer
    fc = ctx.func(COMPLETE)
    gc = ctx.cfg(fc)
    params = [a.arg for a in fc.node.args.args]
    ys = _yield_nodes(gc)
    whiles = [n for n in gc.nodes if n.kind == 'test' and n.attrs.get('loop') and not n.dup]
    need(len(whiles) == 1, 'C13.R2: completion while-loop not found')
    wh = whiles[0]
    before = [y for y in ys if not graph.in_loop_body(y, wh.stmt)]
    inside = [y for y in ys if graph.in_loop_body(y, wh.stmt)]
    res = graph.count_events(gc.entry, lambda x: any(x is y for y in before), lambda x: x is wh, efilter=lambda a, b, k, t: k == 'n' and not graph.in_loop_body(a, wh.stmt))
    (_, lo, hi, _, _) = next(iter(res.values()))
    first_ok = (lo, hi) == (1, 1) and all(isinstance(v := [x for x in ast.walk(y.ast) if isinstance(x, ast.Yield)][0].value, ast.Tuple) and is_name(v.elts[0], params[0]) for y in before)
    rep.ob('C13.R2', ctx.loc(fc, before[0].ast if before else fc.node), 'completer yields its first line once', first_ok,
           'the line that opened the statement is yielded exactly once before the loop' if first_ok else 'the opening line is yielded %d..%d times / is not the parameter' % (lo, hi), anchor=COMPLETE)
    e3, c3 = graph.region_of_loop(gc, wh)
    nexts = [n for n in gc.nodes if not n.dup and graph.in_loop_body(n, wh.stmt) and any(is_name(c.func, 'next') and c.args and is_name(c.args[0], params[2]) for c in node_calls(n))]
    for what, nodes in (('next(line_iter)', nexts), ('yield', inside)):
        res = graph.count_events(e3, lambda x: any(x is y for y in nodes), lambda x: x is wh, efilter=graph.normal_only)
        need(res, 'C13.R2: completion loop has no back edge')
        (_, lo, hi, wlo, whi) = next(iter(res.values()))
        rep.ob('C13.R2', ctx.loc(fc, wh.ast), '%s per completion step' % what, (lo, hi) == (1, 1),
               'exactly one %s on every normal path through an iteration' % what if (lo, hi) == (1, 1) else
               'between %d and %d %s per iteration: a consumed line is %s' % (lo, hi, what, 'lost' if what == 'yield' and lo == 0 else 'mis-paired'), anchor=COMPLETE)
    # the yielded line derives from the consumed one
    rdc = ctx.rd(fc)
    for y in inside:
        v = [x for x in ast.walk(y.ast) if isinstance(x, ast.Yield)][0].value
        ok = False
        if isinstance(v, ast.Tuple) and isinstance(v.elts[0], ast.Name):
            nm = v.elts[0].id
            defs = rdc.at(y, nm)
            ok = bool(defs) and all(any(d2.node is nx for nx in nexts) or (isinstance(d2.value, ast.AST) and nm in {x.id for x in ast.walk(d2.value) if isinstance(x, ast.Name)}) for d2 in defs)
        rep.ob('C13.R2', ctx.loc(fc, y.ast), ctx.src(y.ast), ok, 'yields the line just consumed (possibly re-prefixed)' if ok else 'the yielded line is not the consumed one', nontrivial=False, anchor=COMPLETE)


def r3_transitions(ctx):
    rep = ctx.rep
    f = ctx.func(LABEL)
    g = ctx.cfg(f)
    rd = ctx.rd(f)
    # state constants
    consts_ = _state_constants(rd, f.module)
    need(set(consts_.values()) >= {'text', 'dsrc', 'dcnt', 'want'}, 'C13.R3: state constants not recognised: %s' % consts_)
    heads = [n for n in g.nodes if n.kind == 'for' and not n.dup and not any(fr.kind == 'loop' for fr in n.frames)]
    head = heads[0]
    entry, cut = graph.region_of_loop(g, head)
    inner = [n for n in g.nodes if n.kind == 'for' and not n.dup and graph.in_loop_body(n, head.ast)]
    appends = [n for n in g.nodes if n.kind == 'stmt' and not n.dup and any(isinstance(c.func, ast.Attribute) and c.func.attr == 'append' and is_name(c.func.value, 'labeled_lines') for c in node_calls(n))]
    first_emit = [a for a in appends if not any(graph.in_loop_body(a, ih.ast) for ih in inner)] + [n for n in g.nodes if n.kind == 'for_init' and any(n.stmt is ih.ast for ih in inner) and not n.dup]

    def val_of(e):
        if isinstance(e, ast.Name) and e.id in consts_:
            return consts_[e.id]
        if isinstance(e, ast.Constant) and isinstance(e.value, str):
            return e.value
        return None

    def truth(e, prev):
        """truth value of a test on prev_state given its value, None if it does not (only) depend on it"""
        if isinstance(e, ast.Compare) and len(e.ops) == 1 and is_name(e.left, 'prev_state'):
            c = e.comparators[0]
            if isinstance(e.ops[0], (ast.Eq, ast.NotEq)) and val_of(c) is not None:
                return (prev == val_of(c)) == isinstance(e.ops[0], ast.Eq)
            if isinstance(e.ops[0], (ast.In, ast.NotIn)) and isinstance(c, (ast.Set, ast.Tuple, ast.List)):
                vals = [val_of(x) for x in c.elts]
                if None not in vals:
                    return (prev in vals) == isinstance(e.ops[0], ast.In)
        return None
    cur_defs = [d for d in rd.defs_of('curr_state')]
    table = {}
    for prev in ('text', 'dsrc', 'dcnt', 'want'):
        def ef(a, b, kind, tok, prev=prev):
            if kind != 'n':
                return False
            if b.kind == 'branch' and b.attrs['test'].kind == 'test':
                t = truth(b.attrs['test'].ast, prev)
                if t is not None and t != b.attrs['polarity']:
                    return False
            return True
        reach = graph.reachable([entry], efilter=ef, stop=[head])
        rids = set(id(x) for x in reach)
        labels = set()
        for d in cur_defs:
            if id(d.node) not in rids or d.node is g.entry:
                continue
            if any(graph.in_loop_body(d.node, ih.ast) for ih in inner):
                continue
            v = val_of(d.value) if isinstance(d.value, ast.AST) else None
            others = [o.node for o in cur_defs if o is not d]
            # does this definition reach a first emit of the iteration?
            if graph.path(d.node.nsucc(), lambda x: any(x is e_ for e_ in first_emit), efilter=ef, avoid=others, stop=[head]) is not None:
                labels.add(v if v is not None else '?%s' % ctx.src(d.value if isinstance(d.value, ast.AST) else d.node.ast))
        table[prev] = sorted(labels)
        ok = bool(labels) and labels <= TABLE[prev]
        rep.ob('C13.R3', ctx.loc(f, head.ast), 'labels after %s' % prev, ok,
               'a line following %s can be labelled %s (documented: %s)' % (prev, sorted(labels), sorted(TABLE[prev])) if ok else
               'undocumented transition(s) %s -> %s: %s' % (prev, sorted(labels - TABLE[prev]) or labels, 'prose can become a want without source' if prev == 'text' and 'want' in labels else
                                                           ('a want can continue as a continuation line' if prev == 'want' and 'dcnt' in labels else 'outside the documented table')), anchor=LABEL)
    rep.note('label_transition_table', table)
    # prev_state is advanced from curr_state once per iteration
    adv = [n for n in g.nodes if n.kind == 'stmt' and not n.dup and isinstance(n.ast, ast.Assign) and is_name(n.ast.targets[0], 'prev_state') and is_name(n.ast.value, 'curr_state') and graph.in_loop_body(n, head.ast)]
    res = graph.count_events(entry, lambda x: any(x is a for a in adv), lambda x: x is head, efilter=graph.normal_only)
    (_, lo, hi, _, _) = next(iter(res.values())) if res else (None, 0, 0, None, None)
    rep.ob('C13.R3', ctx.loc(f, adv[0].ast if adv else head.ast), 'prev_state = curr_state once per iteration', (lo, hi) == (1, 1),
           'the state machine advances exactly once per consumed line' if (lo, hi) == (1, 1) else 'the state is advanced %d..%d times per line' % (lo, hi), anchor=LABEL)


def _label_machine(ctx):
    f = ctx.func(LABEL)
    g = ctx.cfg(f)
    rd = ctx.rd(f)
    consts_ = _state_constants(rd, f.module)
    need(set(consts_.values()) >= {'text', 'dsrc', 'dcnt', 'want'}, 'C13.R3: state constants not recognised: %s' % consts_)
    heads = [n for n in g.nodes if n.kind == 'for' and not n.dup and not any(fr.kind == 'loop' for fr in n.frames)]
    head = heads[0]
    entry, cut = graph.region_of_loop(g, head)
    inner = [n for n in g.nodes if n.kind == 'for' and not n.dup and graph.in_loop_body(n, head.ast)]

    def val_of(e):
        if isinstance(e, ast.Name) and e.id in consts_:
            return consts_[e.id]
        if isinstance(e, ast.Constant) and isinstance(e.value, str):
            return e.value
        return None

    def truth(e, prev):
        if isinstance(e, ast.Compare) and len(e.ops) == 1 and is_name(e.left, 'prev_state'):
            c = e.comparators[0]
            if isinstance(e.ops[0], (ast.Eq, ast.NotEq)) and val_of(c) is not None:
                return (prev == val_of(c)) == isinstance(e.ops[0], ast.Eq)
            if isinstance(e.ops[0], (ast.In, ast.NotIn)) and isinstance(c, (ast.Set, ast.Tuple, ast.List)):
                vals = [val_of(x) for x in c.elts]
                if None not in vals:
                    return (prev in vals) == isinstance(e.ops[0], ast.In)
        return None
    cur_defs = [d for d in rd.defs_of('curr_state')]
    return f, g, rd, head, entry, cut, inner, val_of, truth, cur_defs


def r3b_prompt_is_source(ctx, rule='C13.R3b'):
    """a prompt-prefixed line is source whatever its indentation"""
    rep = ctx.rep
    f, g, rd, head, entry, cut, inner, val_of, truth, cur_defs = _label_machine(ctx)
    # R3b: a prompt-prefixed line is source whatever its indentation.  For each previous state, the assignment
    # of the source label reached by a prompt line must not be edge-dominated by an indentation comparison.
    dom = ctx.dom(g, entry, cut)
    seen_sites = {}
    for prev in ('text', 'want', 'dsrc', 'dcnt'):
        def ef2(a, b, kind, tok, prev=prev):
            if kind != 'n':
                return False
            if b.kind == 'branch' and b.attrs['test'].kind == 'test':
                t = truth(b.attrs['test'].ast, prev)
                if t is not None and t != b.attrs['polarity']:
                    return False
            return True
        reach = set(id(x) for x in graph.reachable([entry], efilter=ef2, stop=[head]))
        for d in cur_defs:
            if id(d.node) not in reach or any(graph.in_loop_body(d.node, ih.ast) for ih in inner):
                continue
            if not (isinstance(d.value, ast.AST) and val_of(d.value) == 'dsrc'):
                continue
            facts = list(graph.guard_facts(dom, d.node))
            # a recognition held in a local (`is_ps1 = _hasprefix(strip_line, ('>>>',))` ... `if is_ps1:`) counts like the call itself
            for fa in list(facts):
                if isinstance(fa.expr, ast.Name) and fa.polarity in (True, False) and fa.origin is not None and fa.origin.kind == 'branch':
                    ds = rd.at(fa.origin.attrs['test'], fa.expr.id)
                    if len(ds) == 1 and isinstance(ds[0].value, ast.Call) and '>>>' in ast.unparse(ds[0].value):
                        facts.append(graph.Fact(ds[0].value, fa.polarity, fa.origin))
            # only prompt ('>>>') recognitions
            if not any(isinstance(fa.expr, ast.Call) and '>>>' in fa.text and fa.polarity is True for fa in facts):
                continue
            indent = [fa for fa in facts if isinstance(fa.expr, ast.AST) and any(isinstance(x, ast.Name) and x.id in ('line_indent', 'state_indent') for x in ast.walk(fa.expr))]
            # the recognition itself must look at the line without its indentation: a subject cut at the remembered
            # indentation (`line[state_indent:]`) starts with the prompt only at exactly that column
            for fa in facts:
                if isinstance(fa.expr, ast.Call) and '>>>' in fa.text and fa.polarity is True and fa.expr.args and isinstance(fa.expr.args[0], ast.Name) and fa.origin is not None:
                    tn = fa.origin.attrs['test']
                    for dd in rd.at(tn, fa.expr.args[0].id):
                        if isinstance(dd.value, ast.AST) and any(isinstance(x, ast.Name) and x.id in ('line_indent', 'state_indent') for x in ast.walk(dd.value)):
                            if fa not in indent:
                                indent.append(fa)
            key = id(d.node)
            seen_sites.setdefault(key, (d, [], indent))[1].append(prev)
    for key, (d, prevs, indent) in seen_sites.items():
        ok = not indent
        rep.ob(rule, ctx.loc(f, d.node.ast), 'prompt line after %s -> source' % '|'.join(sorted(prevs)), ok,
               'a prompt-prefixed line becomes source irrespective of its indentation' if ok else
               'after %s a prompt-prefixed line is only recognised as source when %s: a `>>>` line that is indented less than the preceding block is labelled prose and its '
               'statement is silently dropped' % ('|'.join(sorted(prevs)), fmt_facts(indent)), anchor=LABEL)
    rep.floor(rule, 'prompt recognition sites', len(seen_sites), 2)


def r3d_only_a_primary_prompt_starts_source(ctx):
    """after text or a want only the PRIMARY prompt starts source: a want line that begins with the continuation marker `...` is an ellipsis of the
    expected output, and a prose line that begins with it is prose.  For these previous states the recognitions on the way to the source label are
    folded: none of the accepted prefixes may be the continuation prompt"""
    rep = ctx.rep
    f, g, rd, head, entry, cut, inner, val_of, truth, cur_defs = _label_machine(ctx)
    dom = ctx.dom(g, entry, cut)
    sites = {}
    for prev in ('text', 'want'):
        def ef2(a, b, kind, tok, prev=prev):
            if kind != 'n':
                return False
            if b.kind == 'branch' and b.attrs['test'].kind == 'test':
                t = truth(b.attrs['test'].ast, prev)
                if t is not None and t != b.attrs['polarity']:
                    return False
            return True
        reach = set(id(x) for x in graph.reachable([entry], efilter=ef2, stop=[head]))
        for d in cur_defs:
            if id(d.node) not in reach or any(graph.in_loop_body(d.node, ih.ast) for ih in inner):
                continue
            if not (isinstance(d.value, ast.AST) and val_of(d.value) in ('dsrc', 'dcnt')):
                continue
            facts = list(graph.guard_facts(dom, d.node))
            for fa in list(facts):
                if isinstance(fa.expr, ast.Name) and fa.polarity in (True, False) and fa.origin is not None and fa.origin.kind == 'branch':
                    ds = rd.at(fa.origin.attrs['test'], fa.expr.id)
                    if len(ds) == 1 and isinstance(ds[0].value, ast.Call):
                        facts.append(graph.Fact(ds[0].value, fa.polarity, fa.origin))
            recs = [fa for fa in facts if isinstance(fa.expr, ast.Call) and fa.polarity is True and
                    any(isinstance(x, ast.Constant) and isinstance(x.value, str) and x.value.strip() in ('>>>', '...') for x in ast.walk(fa.expr))]
            if not recs:
                continue
            lits = sorted({x.value for fa in recs for x in ast.walk(fa.expr) if isinstance(x, ast.Constant) and isinstance(x.value, str)})
            # every recognition on the path holds at once: the line is accepted only by a prefix all of them accept
            common = None
            for fa in recs:
                mine = {x.value.strip() for x in ast.walk(fa.expr) if isinstance(x, ast.Constant) and isinstance(x.value, str)}
                common = mine if common is None else (common & mine)
            sites.setdefault(id(d.node), (d, [], common, lits))[1].append(prev)
    rep.floor('C13.R3d', 'source labels reachable from text / want', len(sites), 2)
    for (d, prevs, common, lits) in sites.values():
        ok = '...' not in common
        rep.ob('C13.R3d', ctx.loc(f, d.node.ast), 'after %s: source on prefixes %s' % ('|'.join(sorted(prevs)), sorted(common)), ok,
               'only the primary prompt opens source after %s' % '|'.join(sorted(prevs)) if ok else
               'after %s a line that starts with the continuation marker `...` is labelled source: an ellipsis line inside a multi-line want ends the want and is compiled as code '
               '(or a prose line starting with `...` is executed)' % '|'.join(sorted(prevs)), anchor=LABEL)


def r1c_indentation_pattern(ctx):
    """REGEX-FACT (finite samples on the folded module-level pattern; nothing of the package runs): the common indentation is measured on the
    NON-BLANK lines only -- the pattern that collects the indentations must report the leading blanks of a line that has a visible character and
    must not match a line that consists of blanks only (such a line would drag the minimum down and leave the docstring partly indented)"""
    import re as _re
    rep = ctx.rep
    mod = ctx.prog.module('xdoctest.parser')
    need('INDENT_RE' in mod.assigns, 'C13.R1c: the indentation pattern INDENT_RE was not found')
    try:
        rx = consts.Folder(ctx.prog).fold(mod, mod.assigns['INDENT_RE'])
    except consts.NotConstant as ex:
        raise AnalysisError('C13.R1c: INDENT_RE does not fold: %s' % ex)
    need(isinstance(rx, consts.Regex), 'C13.R1c: INDENT_RE is not a compiled pattern')
    samples = [('    x = 1\n  y\nz', ['    ', '  ', '']), ('    a\n   \n    b', ['    ', '    ']), ('  \n    c', ['    ']), ('\n\n  d\n ', ['  ']), ('e', [''])]
    bad = []
    for text, want in samples:
        got = [m if isinstance(m, str) else m[0] for m in _re.findall(rx.pattern, text, flags=rx.flags)]
        if got != want:
            bad.append((text, got, want))
    rep.ob('C13.R1c', '%s:%d' % (mod.relpath, mod.assigns['INDENT_RE'].lineno), 'INDENT_RE = %r' % rx.pattern, not bad,
           'reports the indentation of every line with a visible character and of no other (5 samples)' if not bad else
           'on %r the pattern reports the indentations %r instead of %r: a line of blanks takes part in the minimum, so the common indentation is under-estimated and text / source '
           'lines keep part of their margin' % bad[0], anchor='xdoctest.parser.INDENT_RE')


def r3e_prompt_recognition_on_samples(ctx):
    """FINITE-EVAL: what counts as a prompt line.  Every recognition on the way to the source label is evaluated on sample lines: a bare `>>>`
    (an empty prompt) and `>>> x` are prompts, `>>>x` and prose are not"""
    rep = ctx.rep
    f, g, rd, head, entry, cut, inner, val_of, truth, cur_defs = _label_machine(ctx)
    dom = ctx.dom(g, entry, cut)
    hp = ctx.prog.funcs.get('xdoctest.parser._hasprefix')

    class _U(Exception):
        pass

    def ev(e, line):
        if isinstance(e, ast.Call) and isinstance(e.func, ast.Name) and hp is not None and e.func.id == '_hasprefix' and len(e.args) == 2 and isinstance(e.args[1], (ast.Tuple, ast.List)) and \
                all(isinstance(x, ast.Constant) and isinstance(x.value, str) for x in e.args[1].elts):
            return any(line == p_.value or line.startswith(p_.value + ' ') for p_ in e.args[1].elts)
        if isinstance(e, ast.Call) and isinstance(e.func, ast.Attribute) and e.func.attr == 'startswith' and len(e.args) == 1:
            a0 = e.args[0]
            if isinstance(a0, ast.Constant) and isinstance(a0.value, str):
                return line.startswith(a0.value)
            if isinstance(a0, (ast.Tuple, ast.List)) and all(isinstance(x, ast.Constant) and isinstance(x.value, str) for x in a0.elts):
                return line.startswith(tuple(x.value for x in a0.elts))
        if isinstance(e, ast.Compare) and len(e.ops) == 1 and isinstance(e.ops[0], ast.Eq) and isinstance(e.comparators[0], ast.Constant) and isinstance(e.comparators[0].value, str):
            return line == e.comparators[0].value
        if isinstance(e, ast.BoolOp):
            vs = [ev(x, line) for x in e.values]
            return all(vs) if isinstance(e.op, ast.And) else any(vs)
        raise _U(ast.unparse(e))
    seen = {}
    for d in cur_defs:
        if not (isinstance(d.value, ast.AST) and val_of(d.value) == 'dsrc') or any(graph.in_loop_body(d.node, ih.ast) for ih in inner) or not dom.has(d.node):
            continue
        for fa in graph.guard_facts(dom, d.node):
            e = fa.expr
            if isinstance(e, ast.Name) and fa.origin is not None and fa.origin.kind == 'branch':
                ds = rd.at(fa.origin.attrs['test'], e.id)
                if len(ds) == 1 and isinstance(ds[0].value, ast.AST):
                    e = ds[0].value
            if fa.polarity is True and isinstance(e, ast.AST) and any(isinstance(x, ast.Constant) and isinstance(x.value, str) and x.value.startswith('>>>') for x in ast.walk(e)) and \
                    not any(isinstance(x, ast.Constant) and x.value == '...' for x in ast.walk(e)):
                seen.setdefault(ast.unparse(e), (e, d))
    rep.floor('C13.R3e', 'primary-prompt recognitions on the way to the source label', len(seen), 1)
    for txt, (e, d) in sorted(seen.items()):
        rows = []
        try:
            for line, want in (('>>>', True), ('>>> x = 1', True), ('>>>x', False), ('x >>> y', False), ('text', False)):
                if bool(ev(e, line)) != want:
                    rows.append((line, not want))
        except _U as ex:
            raise AnalysisError('C13.R3e: a prompt recognition was not understood: %s' % ex)
        rep.ob('C13.R3e', ctx.loc(f, e), txt[:80], not rows,
               'an empty prompt and a prompt with code are recognised, `>>>x` and prose are not' if not rows else
               'the line %r is %s as a prompt line: %s' % (rows[0][0], 'taken' if rows[0][1] else 'NOT taken',
                                                          'an empty prompt that opens an example is labelled prose and the part starts one line late' if rows[0][0] == '>>>' else
                                                          'what is / is not doctest source changes'), anchor=LABEL)


def r3c_blank_line_tests(ctx):
    """a want ends at the first blank line and a blank line ends a source block: "blank" means empty after stripping.  The emptiness tests of the
    labeller must look at the stripped line, not at the line cut at the remembered indentation (a spaces-only line longer than that indentation is not empty there)"""
    rep = ctx.rep
    f, g, rd, head, entry, cut, inner, val_of, truth, cur_defs = _label_machine(ctx)
    line_var = head.ast.target.elts[-1].id if isinstance(head.ast.target, ast.Tuple) else head.ast.target.id

    def subject_of(e):
        """X for tests  len(X) == 0 / len(X) > 0 / not X / X == ''  """
        if isinstance(e, ast.Compare) and len(e.ops) == 1 and isinstance(e.left, ast.Call) and is_name(e.left.func, 'len') and isinstance(e.comparators[0], ast.Constant) and e.comparators[0].value == 0:
            return e.left.args[0]
        if isinstance(e, ast.Compare) and len(e.ops) == 1 and isinstance(e.comparators[0], ast.Constant) and e.comparators[0].value == '':
            return e.left
        return None

    def stripped(node, e, depth=0):
        if isinstance(e, ast.Call) and isinstance(e.func, ast.Attribute) and e.func.attr == 'strip' and not e.args and is_name(e.func.value, line_var):
            return True
        if isinstance(e, ast.Name) and depth < 3:
            ds = rd.at(node, e.id)
            return bool(ds) and all(d.kind == 'assign' and isinstance(d.value, ast.AST) and stripped(d.node, d.value, depth + 1) for d in ds)
        return False
    n = 0
    for t in g.nodes:
        if t.kind != 'test' or t.dup or not graph.in_loop_body(t, head.ast) or any(graph.in_loop_body(t, ih.ast) for ih in inner):
            continue
        for e in ast.walk(t.ast):
            x = subject_of(e) if isinstance(e, ast.Compare) else None
            if x is None:
                continue
            # only tests that decide a label
            decides = any(d.node in graph.reachable([b for b in t.nsucc()], efilter=graph.normal_only, stop=[head]) for d in cur_defs if d.node is not g.entry)
            if not decides:
                continue
            n += 1
            ok = stripped(t, x)
            rep.ob('C13.R3c', ctx.loc(f, e), ctx.src(e), ok,
                   'emptiness is tested on the stripped line' if ok else
                   'the blank-line test looks at `%s`, which is not the stripped line: a line of blanks that is longer than the remembered indentation does not end the want / source block, '
                   'and the prose after it is labelled want' % ctx.src(x), anchor=LABEL)
    rep.floor('C13.R3c', 'blank-line tests in the labeller', n, 1)


def r4_grouping(ctx):
    rep = ctx.rep
    f = ctx.func(PKG)
    g = ctx.cfg(f)
    heads = [n for n in g.nodes if n.kind == 'for' and not n.dup and not any(fr.kind == 'loop' for fr in n.frames)]
    need(heads, 'C13.R4: loop over the grouped lines not found')
    need(len(heads) == 1, 'C13.R4: the groups are walked by %d top-level loops (a collect phase and an act phase?): the single pass this rule reasons about was not recognised' % len(heads))
    head = heads[0]
    params = [a.arg for a in f.node.args.args]
    ok = is_name(head.ast.iter, params[1])
    rep.ob('C13.R4', ctx.loc(f, head.ast), 'iterates the groups in order', ok, ctx.src(head.ast.iter), nontrivial=False, anchor=PKG)
    entry, cut = graph.region_of_loop(g, head)
    ys = [y for y in _yield_nodes(g) if graph.in_loop_body(y, head.ast)]
    inner = [n for n in g.nodes if n.kind == 'for' and not n.dup and graph.in_loop_body(n, head.ast)]
    inits = [n for n in g.nodes if n.kind == 'for_init' and any(n.stmt is ih.ast for ih in inner) and not n.dup]
    direct = [y for y in ys if not any(graph.in_loop_body(y, ih.ast) for ih in inner)]
    res = graph.count_events(entry, lambda x: any(x is y for y in direct) or any(x is i for i in inits), lambda x: x is head, efilter=graph.normal_only)
    need(res, 'C13.R4: grouping loop has no back edge')
    (_, lo, hi, wlo, whi) = next(iter(res.values()))
    rep.ob('C13.R4', ctx.loc(f, head.ast), 'every group is packaged', (lo, hi) == (1, 1),
           'each group yields its text part or runs the chunk packager, exactly once' if (lo, hi) == (1, 1) else 'a group is packaged %d..%d times' % (lo, hi),
           witness=None if (lo, hi) == (1, 1) else graph.fmt_path(wlo if lo != 1 else whi, f.module.relpath), anchor=PKG)
    for ih in inner:
        e2, c2 = graph.region_of_loop(g, ih)
        iy = [y for y in ys if graph.in_loop_body(y, ih.ast)]
        res = graph.count_events(e2, lambda x: any(x is y for y in iy), lambda x: x is ih, efilter=graph.normal_only)
        (_, lo, hi, _, _) = next(iter(res.values())) if res else (None, 0, 0, None, None)
        rep.ob('C13.R4', ctx.loc(f, ih.ast), 'every example of a chunk is passed on', (lo, hi) == (1, 1),
               'one yield per packaged example' if (lo, hi) == (1, 1) else '%d..%d yields per packaged example' % (lo, hi), anchor=PKG)
    # a `continue` after the group was emitted is harmless (the count above covers it); a `break` drops the remaining groups
    brks = [n for n in g.nodes if n.kind == 'stmt' and isinstance(n.ast, ast.Break) and not n.dup and graph.in_loop_body(n, head.ast) and not any(graph.in_loop_body(n, ih.ast) for ih in inner)]
    rep.ob('C13.R4', ctx.loc(f, brks[0].ast if brks else f.node), 'no break in the grouping loop', not brks, '%d break statement(s)' % len(brks), nontrivial=False, anchor=PKG)
    # the chunk packager always yields its final example
    fc = ctx.func(CHUNK)
    gc = ctx.cfg(fc)
    ysc = _yield_nodes(gc)
    wit = graph.must_pass([gc.entry], lambda x: x is gc.exit, through=[y for y in ysc if not any(fr.kind == 'loop' for fr in y.frames) and not y.frames or True and not any(fr.kind == 'loop' for fr in y.frames)], efilter=graph.normal_only)
    top_level = [y for y in ysc if not y.frames]
    wit = graph.must_pass([gc.entry], lambda x: x is gc.exit, through=top_level, efilter=graph.normal_only)
    rep.ob('C13.R4', ctx.loc(fc, fc.node), 'the chunk packager yields the last example on every path', wit is None and bool(top_level),
           'every normal path ends with the unconditional yield of the final part (which carries the want)' if wit is None and top_level else 'a chunk can be packaged without its final part',
           anchor=CHUNK)


# ---------------------------------------------------------------------------
GROUP = 'xdoctest.parser.DoctestParser._group_labeled_lines'


def _mentions(e, name):
    return any(isinstance(x, ast.Name) and x.id == name for x in ast.walk(e))


def r5_group_buffers(ctx):
    """typestate of the accumulation buffers of _group_labeled_lines: every labelled line / group / block is placed
    exactly once, in order, and a buffer that holds something is flushed before it is reset or overwritten"""
    rep = ctx.rep
    f = ctx.func(GROUP)
    g = ctx.cfg(f)
    rd = ctx.rd(f)
    loops = [n for n in g.nodes if n.kind == 'for' and not n.dup and not any(fr.kind == 'loop' for fr in n.frames)]
    need(len(loops) == 3, 'C13.R5: expected three top-level loops in _group_labeled_lines, found %d' % len(loops))
    # in the order the function executes them (line numbers do not tell: an expanded helper keeps the lines of where it was written)
    order = {}

    def _pre(node):
        order[id(node)] = len(order)
        for ch in ast.iter_child_nodes(node):
            _pre(ch)
    _pre(f.node)
    loops.sort(key=lambda n: order.get(id(n.ast), 10 ** 9))
    # -- loops 1 and 2: buffer `current`
    for li, head in enumerate(loops[:2]):
        entry, cut = graph.region_of_loop(g, head)
        item = [x.id for x in ast.walk(head.ast.target) if isinstance(x, ast.Name)]
        mid = item[1] if len(item) == 3 else item[0]
        grows = [n for n in g.nodes if not n.dup and graph.in_loop_body(n, head.ast) and
                 any(isinstance(c.func, ast.Attribute) and c.func.attr in ('append', 'extend') and is_name(c.func.value, 'current') and c.args and _mentions(c.args[0], mid) for c in node_calls(n))]
        # `current = list(<item>)` / `current = [<item>]` opens a new buffer that already holds the item: reset and grow in one step
        fresh_with_item = [d.node for d in rd.defs_of('current') if graph.in_loop_body(d.node, head.ast) and isinstance(d.value, ast.AST) and d.kind == 'assign' and
                           _mentions(d.value, mid) and not _mentions(d.value, 'current')]
        grows = grows + [n for n in fresh_with_item if n not in grows]
        res = graph.count_events(entry, lambda x: any(x is y for y in grows), lambda x: x is head, efilter=graph.normal_only)
        need(res, 'C13.R5: loop %d has no back edge' % (li + 1))
        (_, lo, hi, wlo, whi) = next(iter(res.values()))
        rep.ob('C13.R5', ctx.loc(f, head.ast), 'pass %d: the current item enters the buffer once' % (li + 1), (lo, hi) == (1, 1),
               'every %s is added to the open group exactly once' % ('labelled line' if li == 0 else 'group') if (lo, hi) == (1, 1) else
               'an item is added %d..%d times: lines are %s' % (lo, hi, 'lost' if lo == 0 else 'duplicated'),
               witness=None if (lo, hi) == (1, 1) else graph.fmt_path(wlo if lo != 1 else whi, f.module.relpath), anchor=GROUP)
        resets = [d.node for d in rd.defs_of('current') if graph.in_loop_body(d.node, head.ast) and isinstance(d.value, ast.List) and not d.value.elts] + fresh_with_item
        flushes = [n for n in g.nodes if not n.dup and any(isinstance(c.func, ast.Attribute) and c.func.attr == 'append' and c.args and _mentions(c.args[0], 'current') and not is_name(c.func.value, 'current') for c in node_calls(n))]
        empty_guard = [n for n in g.nodes if n.kind == 'branch' and n.attrs['test'].kind == 'test' and graph.in_loop_body(n, head.ast) and
                       any(isinstance(fa.expr, ast.Compare) and isinstance(fa.expr.left, ast.Name) and isinstance(fa.expr.ops[0], ast.Is) and fa.polarity is True and
                           isinstance(fa.expr.comparators[0], ast.Constant) and fa.expr.comparators[0].value is None and
                           any(graph.in_loop_body(d.node, head.ast) for d in rd.defs_of(fa.expr.left.id))      # the marker of the open group, whatever it is called
                           for fa in graph.facts_of(n.attrs['test'].ast, n.attrs['polarity']))]
        for r in resets:
            wit = graph.must_pass([entry], lambda x, r=r: x is r, through=[fl for fl in flushes if graph.in_loop_body(fl, head.ast)] + empty_guard, efilter=graph.normal_only)
            rep.ob('C13.R5', ctx.loc(f, r.ast), 'pass %d: %s' % (li + 1, ctx.src(r.ast)), wit is None,
                   'the open group is flushed before the buffer is reset (or nothing was open yet)' if wit is None else 'the buffer can be reset while it holds lines that were never flushed',
                   witness=None if wit is None else graph.fmt_path(wit, f.module.relpath), anchor=GROUP)
        # the reset comes before this iteration's append (the item opens the new group)
        for r in resets:
            late = graph.path([y for gr in grows if gr is not r for y in gr.nsucc()], lambda x, r=r: x is r, efilter=graph.normal_only, stop=[head])
            rep.ob('C13.R5', ctx.loc(f, r.ast), 'pass %d: reset precedes the append of the item' % (li + 1), late is None,
                   'order kept' if late is None else 'the item is appended and then discarded by the reset', nontrivial=False, anchor=GROUP)
        # final flush after the loop
        done = [b for b in head.nsucc() if b.kind == 'branch' and b.attrs['polarity'] == 'done']
        nxt = loops[li + 1]
        post = [fl for fl in flushes if not graph.in_loop_body(fl, head.ast)]
        truthy = [n for n in g.nodes if n.kind == 'branch' and n.attrs['test'].kind == 'test' and is_name(n.attrs['test'].ast, 'current') and n.attrs['polarity'] is False]
        wit = graph.must_pass(done, lambda x: x.kind == 'for_init' and x.stmt is nxt.ast, through=post + truthy, efilter=graph.normal_only)
        rep.ob('C13.R5', ctx.loc(f, head.ast), 'pass %d: last open group flushed after the loop' % (li + 1), wit is None and bool(post),
               'a non-empty buffer is flushed once the input is exhausted' if wit is None and post else 'the last group of a docstring is dropped', anchor=GROUP)
    # -- loop 3: pending source block
    head = loops[2]
    entry, cut = graph.region_of_loop(g, head)
    tnames = [x.id for x in ast.walk(head.ast.target) if isinstance(x, ast.Name)]
    need(len(tnames) == 2, 'C13.R5: unrecognised target of the assembly loop')
    st, grp = tnames
    blockdefs = [d for d in rd.defs if graph.in_loop_body(d.node, head.ast) and isinstance(d.value, ast.ListComp) and _mentions(d.value, grp)]
    need(len(blockdefs) == 1, 'C13.R5: block = [t[1] for t in group] not found')
    block = blockdefs[0].name
    # the pending source block is whatever local receives the block itself inside the loop (`prev_source = block` on the pinned tree)
    pend_names = sorted({d.name for d in rd.defs if graph.in_loop_body(d.node, head.ast) and d.kind == 'assign' and is_name(d.value, block)})
    need(len(pend_names) == 1, 'C13.R5: the variable that holds the pending source block was not recognised: %s' % pend_names)
    PEND = pend_names[0]
    place_text = [n for n in g.nodes if not n.dup and graph.in_loop_body(n, head.ast) and any(isinstance(c.func, ast.Attribute) and c.func.attr == 'append' and c.args and is_name(c.args[0], block) for c in node_calls(n))]
    place_want = [n for n in g.nodes if not n.dup and graph.in_loop_body(n, head.ast) and any(isinstance(c.func, ast.Attribute) and c.func.attr == 'append' and c.args and isinstance(c.args[0], ast.Tuple) and
                                                                                             len(c.args[0].elts) == 2 and is_name(c.args[0].elts[0], PEND) and is_name(c.args[0].elts[1], block) for c in node_calls(n))]
    place_src = [d.node for d in rd.defs_of(PEND) if graph.in_loop_body(d.node, head.ast) and is_name(d.value, block)]
    flush = [n for n in g.nodes if not n.dup and any(isinstance(c.func, ast.Attribute) and c.func.attr == 'append' and c.args and isinstance(c.args[0], ast.Tuple) and len(c.args[0].elts) == 2 and
                                                     is_name(c.args[0].elts[0], PEND) and not is_name(c.args[0].elts[1], block) for c in node_calls(n))]
    states = {'TEXT': 'text', 'WANT': 'want', 'DSRC': 'dsrc', 'DCNT': 'dcnt'}
    for cur in ('text', 'want', 'dsrc', 'dcnt'):
        def ef(a, b, kind, tok, cur=cur):
            if kind != 'n':
                return False
            if b.kind == 'branch' and b.attrs['test'].kind == 'test':
                tv = _state_truth(b.attrs['test'].ast, st, cur, states)
                if tv is not None and tv != b.attrs['polarity']:
                    return False
            return True
        allp = place_text + place_want + place_src
        res = graph.count_events(entry, lambda x: any(x is y for y in allp), lambda x: x is head, efilter=ef)
        need(res, 'C13.R5: assembly loop has no back edge for state %s' % cur)
        (_, lo, hi, wlo, whi) = next(iter(res.values()))
        rep.ob('C13.R5', ctx.loc(f, head.ast), 'assembly: a %s block is placed once' % cur, (lo, hi) == (1, 1),
               'exactly one of {text part, (source, want) chunk, pending source} receives the block' if (lo, hi) == (1, 1) else 'a %s block is placed %d..%d times' % (cur, lo, hi),
               witness=None if (lo, hi) == (1, 1) else graph.fmt_path(wlo if lo != 1 else whi, f.module.relpath), anchor=GROUP)
    none_guard = [n for n in g.nodes if n.kind == 'branch' and n.attrs['test'].kind == 'test' and graph.in_loop_body(n, head.ast) and
                  any(isinstance(fa.expr, ast.Compare) and is_name(fa.expr.left, PEND) and isinstance(fa.expr.ops[0], ast.Is) and fa.polarity is True for fa in graph.facts_of(n.attrs['test'].ast, n.attrs['polarity']))]
    for p_ in place_src + place_text:
        wit = graph.must_pass([entry], lambda x, p_=p_: x is p_, through=[fl for fl in flush if graph.in_loop_body(fl, head.ast)] + none_guard, efilter=graph.normal_only)
        rep.ob('C13.R5', ctx.loc(f, p_.ast), 'assembly: pending source flushed before %s' % ctx.src(p_.ast), wit is None,
               'a pending source block is emitted (with an empty want) before it is overwritten / before following text' if wit is None else
               'a pending source block can be overwritten or overtaken: doctest source is lost or re-ordered',
               witness=None if wit is None else graph.fmt_path(wit, f.module.relpath), anchor=GROUP)
    # the want chunk consumes the pending block
    for p_ in place_want:
        resets = [d.node for d in rd.defs_of(PEND) if isinstance(d.value, ast.Constant) and d.value.value is None and graph.in_loop_body(d.node, head.ast)]
        wit = graph.must_pass(p_.nsucc(), lambda x: x is head, through=resets, efilter=graph.normal_only)
        rep.ob('C13.R5', ctx.loc(f, p_.ast), 'assembly: (source, want) consumes the pending source', wit is None,
               'the pending source is cleared after it was paired with its want' if wit is None else 'a source block paired with a want stays pending and is emitted a second time', anchor=GROUP)
    for fl in [x for x in flush if graph.in_loop_body(x, head.ast)]:
        resets = [d.node for d in rd.defs_of(PEND) if graph.in_loop_body(d.node, head.ast)]
        wit = graph.must_pass(fl.nsucc(), lambda x: x is head, through=resets, efilter=graph.normal_only)
        rep.ob('C13.R5', ctx.loc(f, fl.ast), 'assembly: flushed source is not flushed again', wit is None,
               'after a flush the pending variable is reassigned in the same iteration' if wit is None else 'a flushed source block stays pending', nontrivial=False, anchor=GROUP)
    done = [b for b in head.nsucc() if b.kind == 'branch' and b.attrs['polarity'] == 'done']
    post = [fl for fl in flush if not graph.in_loop_body(fl, head.ast)]
    falsy = [n for n in g.nodes if n.kind == 'branch' and n.attrs['test'].kind == 'test' and not graph.in_loop_body(n, head.ast) and
             ((is_name(n.attrs['test'].ast, PEND) and n.attrs['polarity'] is False) or
              any(isinstance(fa.expr, ast.Compare) and is_name(fa.expr.left, PEND) and isinstance(fa.expr.ops[0], ast.Is) and fa.polarity is True for fa in graph.facts_of(n.attrs['test'].ast, n.attrs['polarity'])))]
    wit = graph.must_pass(done, lambda x: x is g.exit, through=post + falsy, efilter=graph.normal_only)
    rep.ob('C13.R5', ctx.loc(f, head.ast), 'assembly: trailing source flushed after the loop', wit is None and bool(post),
           'source at the end of the docstring becomes a chunk with an empty want' if wit is None and post else 'source at the end of a docstring is dropped', anchor=GROUP)


def r6_line_counter(ctx):
    """the running line counter of _package_groups advances by exactly the number of lines of each group"""
    rep = ctx.rep
    f = ctx.func(PKG)
    g = ctx.cfg(f)
    rd = ctx.rd(f)
    heads = [n for n in g.nodes if n.kind == 'for' and not n.dup and not any(fr.kind == 'loop' for fr in n.frames)]
    need(heads, 'C13.R6: loop over the grouped lines not found')
    need(len(heads) == 1, 'C13.R6: the groups are walked by %d top-level loops (a collect phase and an act phase?): the single pass this rule reasons about was not recognised' % len(heads))
    head = heads[0]
    chunk = head.ast.target.id if isinstance(head.ast.target, ast.Name) else None
    need(chunk, 'C13.R6: loop target not a name')
    entry, cut = graph.region_of_loop(g, head)
    dom = ctx.dom(g, entry, cut)
    # the counter: local passed to _package_chunk and initialised to 0
    pc = [(n, c) for n in g.nodes if n.kind == 'for_init' and isinstance(n.ast, ast.Call) for c in [n.ast] if ctx.res.resolve_call(f, c)[0] == 'repo' and ctx.res.resolve_call(f, c)[1][0].qualname == CHUNK]
    # ... or delegated to with `yield from`
    pc += [(n, c) for n in g.nodes if n.kind == 'stmt' and not n.dup for y in ast.walk(n.ast) if isinstance(y, ast.YieldFrom) and isinstance(y.value, ast.Call)
           for c in [y.value] if ctx.res.resolve_call(f, c)[0] == 'repo' and ctx.res.resolve_call(f, c)[1][0].qualname == CHUNK]
    need(pc, 'C13.R6: call of the chunk packager not found')
    cn, cc = pc[0]
    cnt = cc.args[2] if len(cc.args) > 2 else None
    need(isinstance(cnt, ast.Name), 'C13.R6: line counter argument not a local')
    counter = cnt.id
    init = [d for d in rd.defs_of(counter) if isinstance(d.value, ast.Constant) and d.value.value == 0 and not d.node.frames]
    rep.ob('C13.R6', ctx.loc(f, init[0].node.ast if init else f.node), '%s = 0' % counter, bool(init), 'the first group starts at line 0 of the (de-indented) docstring' if init else 'the line counter does not start at 0', nontrivial=False, anchor=PKG)
    incs = [n for n in g.nodes if not n.dup and n.kind == 'stmt' and isinstance(n.ast, ast.AugAssign) and is_name(n.ast.target, counter) and graph.in_loop_body(n, head.ast)]
    res = graph.count_events(entry, lambda x: any(x is y for y in incs), lambda x: x is head, efilter=graph.normal_only)
    need(res, 'C13.R6: no back edge')
    (_, lo, hi, wlo, whi) = next(iter(res.values()))
    rep.ob('C13.R6', ctx.loc(f, head.ast), 'one counter increment per group', (lo, hi) == (1, 1),
           'exactly one increment on every path through an iteration' if (lo, hi) == (1, 1) else 'the counter is advanced %d..%d times per group' % (lo, hi), anchor=PKG)
    for n in incs:
        v = n.ast.value
        facts = graph.guard_facts(dom, n)
        is_tuple = any(isinstance(fa.expr, ast.Call) and is_name(fa.expr.func, 'isinstance') and fa.polarity is True for fa in facts)
        if is_tuple:
            # (slines, wlines) unpacked from the chunk: increment = len(slines) + len(wlines)
            un = [d for d in rd.defs if d.kind == 'unpack' and isinstance(d.base, ast.Name) and d.base.id == chunk and graph.in_loop_body(d.node, head.ast)]
            names = sorted(d.name for d in un)
            lens = sorted(x.args[0].id for x in ast.walk(v) if isinstance(x, ast.Call) and is_name(x.func, 'len') and x.args and isinstance(x.args[0], ast.Name))
            ok = isinstance(n.ast.op, ast.Add) and isinstance(v, ast.BinOp) and isinstance(v.op, ast.Add) and lens == names and len(names) == 2 and \
                all(isinstance(s_, ast.Call) for s_ in (v.left, v.right))
            rep.ob('C13.R6', ctx.loc(f, n.ast), ctx.src(n.ast), ok, 'source + want lines of the chunk' if ok else 'the increment for a chunk is not len(source lines) + len(want lines)', anchor=PKG)
            # and the packager is called with the counter *before* the increment
            before = graph.path(n.nsucc(), lambda x: x is cn, efilter=graph.normal_only, stop=[head]) is None
            rep.ob('C13.R6', ctx.loc(f, cc), 'chunk packaged with the counter before its increment', before, 'offset of the chunk is the number of lines before it' if before else 'the chunk is packaged with an already advanced counter', anchor=PKG)
        else:
            ok = isinstance(n.ast.op, ast.Add) and isinstance(v, ast.Call) and is_name(v.func, 'len') and v.args and is_name(v.args[0], chunk)
            rep.ob('C13.R6', ctx.loc(f, n.ast), ctx.src(n.ast), ok, 'number of lines of the text group' if ok else 'the increment for a text group is not len(group)', anchor=PKG)


def r1b_common_indentation_of_one_line(ctx):
    """the common indentation is the minimum over the non-blank lines -- also when there is exactly ONE (a docstring or google block whose only
    indented line is one line of prose): the emptiness guard in front of min(...) must be true for a list of length 1 and false for length 0"""
    rep = ctx.rep
    f = ctx.func('xdoctest.parser._min_indentation') if ctx.prog.has_func('xdoctest.parser._min_indentation') else ctx.func(PARSE)
    g = ctx.cfg(f)
    dom = ctx.dom(g, g.entry)
    mins = [(n, c) for n in g.nodes if not n.dup for c in node_calls(n) if is_name(c.func, 'min') and c.args]
    need(mins, 'C13.R1b: min(...) not found in _min_indentation')
    for (n, c) in mins:
        if any(k.arg == 'default' for k in c.keywords):
            rep.ob('C13.R1b', ctx.loc(f, c), ctx.src(c), True, 'min with a default: defined for every number of lines', nontrivial=False, anchor=f.qualname)
            continue
        lst = ctx.src(c.args[0])
        facts = [fa for fa in graph.guard_facts(dom, n) if fa.polarity in (True, False) and isinstance(fa.expr, ast.AST)]
        verdict = None
        for fa in facts:
            e = fa.expr
            if isinstance(e, ast.Name) and e.id == lst:
                verdict = fa.polarity is True
            if isinstance(e, ast.Compare) and len(e.ops) == 1 and isinstance(e.left, ast.Call) and is_name(e.left.func, 'len') and e.left.args and ctx.src(e.left.args[0]) == lst \
                    and isinstance(e.comparators[0], ast.Constant) and isinstance(e.comparators[0].value, int):
                c0, op = e.comparators[0].value, type(e.ops[0])
                tv = lambda v: {ast.Gt: v > c0, ast.GtE: v >= c0, ast.Lt: v < c0, ast.LtE: v <= c0, ast.Eq: v == c0, ast.NotEq: v != c0}[op]
                verdict = (tv(1) == fa.polarity) and (tv(0) != fa.polarity) and (tv(2) == fa.polarity)
        need(verdict is not None, 'C13.R1b: the guard of %s was not recognised' % ctx.src(c))
        rep.ob('C13.R1b', ctx.loc(f, c), '%s under %s' % (ctx.src(c), fmt_facts(facts)), verdict,
               'taken for one or more non-blank lines, never for none' if verdict else
               'with exactly one non-blank line the minimum is not taken (the common indentation is reported as 0): that line keeps its margin, so the text part is not the de-indented docstring line',
               anchor=f.qualname)


# ---------------------------------------------------------------------------
from ..selftest import fire, silent      # noqa: E402

PA = 'xdoctest/parser.py'
VARIANTS = [
    fire('blank-lines-take-part-in-the-common-indentation', 'C13.R1c', ('xdoctest/parser.py', "INDENT_RE = re.compile(r'^([ ]*)(?=\\S)', re.MULTILINE)\n", "INDENT_RE = re.compile(r'^([ ]*)(?=.)', re.MULTILINE)\n")),
    fire('bare-prompt-not-a-prompt', 'C13.R3e', ('xdoctest/parser.py', "                if _hasprefix(strip_line, ('>>>',)):\n                    curr_state = DSRC\n", "                if strip_line.startswith('>>> '):\n                    curr_state = DSRC\n")),
    fire('ellipsis-line-of-a-want-taken-as-source', 'C13.R3d', ('xdoctest/parser.py', "                elif _hasprefix(line.strip(), ('>>>',)):\n", "                elif _hasprefix(line.strip(), ('>>>', '...')):\n")),
    fire('prose-continuation-marker-taken-as-source', 'C13.R3d', ('xdoctest/parser.py', "                if _hasprefix(strip_line, ('>>>',)):\n                    curr_state = DSRC\n", "                if _hasprefix(strip_line, ('>>>', '...')):\n                    curr_state = DSRC\n")),
    fire('single-line-not-deindented', 'C13.R1b', ('xdoctest/parser.py', "    if len(indents) > 0:\n        return min(indents)\n", "    if len(indents) > 1:\n        return min(indents)\n")),
    silent('min-indentation-truthiness-guard', ('xdoctest/parser.py', "    if len(indents) > 0:\n        return min(indents)\n", "    if indents:\n        return min(indents)\n")),
    fire('blank-test-on-cut-line', 'C13.R3c', (PA, "                if len(strip_line) == 0:\n                    curr_state = TEXT\n", "                if len(norm_line) == 0:\n                    curr_state = TEXT\n")),
    fire('prompt-after-want-tested-at-old-column', 'C13.R3b', (PA, "                elif _hasprefix(line.strip(), ('>>>',)):\n", "                elif _hasprefix(norm_line, ('>>>',)):\n")),
    fire('P4-drop-expandtabs', 'C13.R1', (PA, "        string = string.expandtabs()\n", "")),
    fire('deindent-wrong-bound', 'C13.R1', (PA, "            string = '\\n'.join([ln[min_indent:] for ln in string.splitlines()])\n", "            string = '\\n'.join([ln[min_indent + 1:] for ln in string.splitlines()])\n")),
    fire('deindent-dropped', 'C13.R1', (PA, "        if min_indent > 0:\n            string = '\\n'.join([ln[min_indent:] for ln in string.splitlines()])\n", "")),
    fire('want-line-not-appended', 'C13.R2', (PA, "            elif curr_state == WANT:\n                labeled_lines.append((curr_state, line))\n", "            elif curr_state == WANT:\n                pass\n")),
    fire('text-line-appended-twice', 'C13.R2', (PA, "            elif curr_state == TEXT:\n                labeled_lines.append((curr_state, line))\n", "            elif curr_state == TEXT:\n                labeled_lines.append((curr_state, line))\n                labeled_lines.append((curr_state, line))\n")),
    fire('completion-line-skipped', 'C13.R2', (PA, "                        if _hasprefix(norm_line, ('...',)):\n                            curr_state = DCNT\n                        labeled_lines.append((curr_state, part))\n",
                                                     "                        if _hasprefix(norm_line, ('...',)):\n                            curr_state = DCNT\n                            continue\n                        labeled_lines.append((curr_state, part))\n")),
    fire('completer-drops-consumed-line', 'C13.R2', (PA, "            source_parts.append(suffix)\n            yield next_line, norm_line\n", "            source_parts.append(suffix)\n            if suffix:\n                yield next_line, norm_line\n")),
    fire('completer-yields-first-line-twice', 'C13.R2', (PA, "    yield line, norm_line\n\n    source_parts = [suffix]\n", "    yield line, norm_line\n    yield line, norm_line\n\n    source_parts = [suffix]\n")),
    fire('text-becomes-want', 'C13.R3', (PA, "                if _hasprefix(strip_line, ('>>>',)):\n                    curr_state = DSRC\n                else:\n                    curr_state = TEXT\n",
                                            "                if _hasprefix(strip_line, ('>>>',)):\n                    curr_state = DSRC\n                elif line_indent > state_indent:\n                    curr_state = WANT\n                else:\n                    curr_state = TEXT\n")),
    fire('want-continues-as-dcnt', 'C13.R3', (PA, "                elif line_indent < state_indent:\n                    curr_state = TEXT\n                else:\n                    curr_state = WANT\n",
                                                  "                elif line_indent < state_indent:\n                    curr_state = TEXT\n                elif _hasprefix(line.strip(), ('...',)):\n                    curr_state = DCNT\n                else:\n                    curr_state = WANT\n")),
    fire('text-group-dropped', 'C13.R4', (PA, "                text_part = '\\n'.join(chunk)\n                yield text_part\n", "                text_part = '\\n'.join(chunk)\n                if text_part.strip():\n                    yield text_part\n")),
    fire('final-part-conditional', 'C13.R4', (PA, "            print('<YIELD CHUNK>')\n        yield example\n", "            print('<YIELD CHUNK>')\n        if example.exec_lines:\n            yield example\n")),
    fire('group-reset-without-flush', 'C13.R5', (PA, "                    if state is not None:\n                        groups.append((state, current))\n                    state = mid[0]\n", "                    state = mid[0]\n")),
    fire('last-group-dropped', 'C13.R5', (PA, "        if current:\n            groups.append((state, current))\n\n        if global_state", "        if global_state")),
    fire('merged-group-lines-lost', 'C13.R5', (PA, "                state = mid[0]\n                current = []\n                current.extend(mid[1])\n", "                state = mid[0]\n                current = []\n")),
    fire('pending-source-overwritten', 'C13.R5', (PA, "                if prev_source is not None:\n                    # accept a source block without a want block\n                    grouped_lines.append((prev_source, ''))\n                    prev_source = None\n                # need to check if there is a want after us\n", "                # need to check if there is a want after us\n")),
    fire('text-overtakes-pending-source', 'C13.R5', (PA, "                if prev_source is not None:\n                    # accept a source block without a want block\n                    grouped_lines.append((prev_source, ''))\n                    prev_source = None\n                # accept the text\n", "                # accept the text\n")),
    fire('want-does-not-consume-source', 'C13.R5', (PA, "                grouped_lines.append((prev_source, block))\n                prev_source = None\n", "                grouped_lines.append((prev_source, block))\n")),
    fire('trailing-source-dropped', 'C13.R5', (PA, "        if prev_source:\n            grouped_lines.append((prev_source, ''))\n", "")),
    fire('counter-ignores-want-lines', 'C13.R6', (PA, "                lineno += len(slines) + len(wlines)\n", "                lineno += len(slines)\n")),
    fire('counter-not-advanced-for-text', 'C13.R6', (PA, "                yield text_part\n                lineno += len(chunk)\n", "                yield text_part\n")),
    fire('counter-advanced-before-packaging', 'C13.R6', (PA, "                for example in self._package_chunk(slines, wlines, lineno):\n                    yield example\n                lineno += len(slines) + len(wlines)\n", "                lineno += len(slines) + len(wlines)\n                for example in self._package_chunk(slines, wlines, lineno):\n                    yield example\n")),
    fire('prompt-after-want-needs-indentation', 'C13.R3b',
         (PA, "                if len(strip_line) == 0:\n                    curr_state = TEXT\n                # source-inconsistent indentation terminates want\n                elif _hasprefix(line.strip(), ('>>>',)):\n                    curr_state = DSRC\n                elif line_indent < state_indent:\n                    curr_state = TEXT\n",
              "                if len(strip_line) == 0 or line_indent < state_indent:\n                    curr_state = TEXT\n                elif _hasprefix(line.strip(), ('>>>',)):\n                    curr_state = DSRC\n")),
    silent('want-text-appends-merged', (PA, "            elif curr_state == WANT:\n                labeled_lines.append((curr_state, line))\n            elif curr_state == TEXT:\n                labeled_lines.append((curr_state, line))\n",
                                            "            elif curr_state in {WANT, TEXT}:\n                labeled_lines.append((curr_state, line))\n"),
           note='exhaustiveness of the dispatch over curr_state is the state machine invariant; see below'),
]
