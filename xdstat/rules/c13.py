"""
C13 -- parsing partitions the docstring: each line is text, source or want, once.
"""
import ast

from ..context import need
from ..loader import AnalysisError
from .. import graph
from ..roles import node_calls
from ..resolve import walk_scope
from .common import fmt_facts, is_name
from . import c01

EXPLANATION = (
    'R1 FLOW pre-processing: the docstring reaches every indentation measurement only after expandtabs (taint, shared with C01.R5), and the '
    'value of _min_indentation(string), on its positive branch, is the lower slice bound of every line of that same string whose re-join is '
    'what the labeller receives. R2 PATH-COUNT consume/emit: on every non-exceptional path through one iteration of the labelling loop exactly '
    'one of {direct append of the consumed line, the completion loop} happens; the completion loop appends once per value the completer '
    'yields; the completer yields its first line once before looping and then, per iteration, consumes exactly one line with next() and yields '
    'exactly one. R3 FINITE-EVAL of the label dispatch: for each previous state the set of labels the consumed line can receive is computed by '
    'pruning the tests on the previous state and compared with the documented transition table (prose never becomes a want without '
    'intervening source, a want never continues as a continuation line). R4 grouping: every group leads to at least one yield in iteration '
    'order and the chunk packager always yields its last example. The predicates that choose the label are not decided.')
DECIDES = ['FLOW tab expansion and common de-indent', 'PATH-COUNT consume/emit pairing', 'FINITE-EVAL label transitions', 'grouping arity']
NOT_DECIDED = ['the line-kind predicates (prefix tests, indentation comparisons, statement completion)', 'the running line counter of _package_groups (loop carried)']

PARSE = 'xdoctest.parser.DoctestParser.parse'
LABEL = 'xdoctest.parser.DoctestParser._label_docsrc_lines'
COMPLETE = 'xdoctest.parser._complete_source'
PKG = 'xdoctest.parser.DoctestParser._package_groups'
CHUNK = 'xdoctest.parser.DoctestParser._package_chunk'

TABLE = {
    'text': {'text', 'dsrc'},
    'dsrc': {'dsrc', 'dcnt', 'want', 'text'},
    'dcnt': {'dsrc', 'dcnt', 'want', 'text'},
    'want': {'want', 'text', 'dsrc'},
}


def run(ctx):
    for fn in (r1_preprocessing, r2_consume_emit, r3_transitions, r4_grouping):
        ctx.rep.rule(fn, ctx)


def r1_preprocessing(ctx):
    rep = ctx.rep
    c01.r5_tab_expansion(ctx, rule='C13.R1')
    f = ctx.func(PARSE)
    g = ctx.cfg(f)
    rd = ctx.rd(f)
    dom = ctx.dom(g, g.entry)
    src = f.node.args.args[1].arg
    mi_defs = [d for d in rd.defs if isinstance(d.value, ast.Call) and ctx.res.resolve_call(f, d.value)[0] == 'repo' and
               ctx.res.resolve_call(f, d.value)[1][0].qualname == 'xdoctest.parser._min_indentation']
    need(len(mi_defs) == 1, 'C13.R1: _min_indentation(string) not bound to one local in parse')
    mi = mi_defs[0]
    ok_arg = mi.value.args and is_name(mi.value.args[0], src)
    # the de-indent: string = '\n'.join([ln[mi:] for ln in string.splitlines()]) under mi > 0
    ded = None
    for d in rd.defs:
        if d.name == src and isinstance(d.value, ast.Call) and isinstance(d.value.func, ast.Attribute) and d.value.func.attr == 'join' and d.value.args:
            comp = d.value.args[0]
            if isinstance(comp, (ast.ListComp, ast.GeneratorExp)) and isinstance(comp.elt, ast.Subscript) and isinstance(comp.elt.slice, ast.Slice):
                ded = d
    if ded is None:
        rep.ob('C13.R1', ctx.loc(f, f.node), 'common de-indent', False, 'the common indentation is no longer removed from every line before labelling', anchor=PARSE)
        return
    comp = ded.value.args[0]
    sl = comp.elt.slice
    lower_ok = is_name(sl.lower, mi.name) and sl.upper is None
    it = comp.generators[0].iter
    same_string = isinstance(it, ast.Call) and isinstance(it.func, ast.Attribute) and it.func.attr == 'splitlines' and is_name(it.func.value, src) and \
        is_name(comp.elt.value, comp.generators[0].target.id if isinstance(comp.generators[0].target, ast.Name) else '')
    sep_ok = isinstance(ded.value.func.value, ast.Constant) and ded.value.func.value.value == '\n'
    facts = graph.guard_facts(dom, ded.node)
    pos = any(isinstance(fa.expr, ast.Compare) and is_name(fa.expr.left, mi.name) and isinstance(fa.expr.ops[0], (ast.Gt, ast.GtE, ast.NotEq)) and fa.polarity is True for fa in facts) or \
        any(is_name(fa.expr, mi.name) and fa.polarity is True for fa in facts)
    ok = ok_arg and lower_ok and same_string and sep_ok and pos
    rep.ob('C13.R1', ctx.loc(f, ded.node.ast), ctx.src(ded.node.ast), ok,
           'every line of the same string is sliced from the common indentation and re-joined with newlines' if ok else
           'the common de-indent is not `join(line[min_indent:] for line in string.splitlines())` on the positive branch (arg ok %s, bound ok %s, same string %s, separator %s, guard %s)' % (ok_arg, lower_ok, same_string, sep_ok, pos),
           anchor=PARSE)
    # the labeller receives that string
    lab = [(n, c) for n in g.nodes for c in node_calls(n) if ctx.res.resolve_call(f, c)[0] == 'repo' and ctx.res.resolve_call(f, c)[1][0].qualname == LABEL]
    need(lab, 'C13.R1: call of the labeller not found')
    for (n, c) in lab:
        a0 = c.args[0] if c.args else None
        defs = rd.at(n, a0.id) if isinstance(a0, ast.Name) else []
        ok = is_name(a0, src) and any(d is ded for d in defs) and all(d.kind != 'param' for d in defs)
        rep.ob('C13.R1', ctx.loc(f, c), ctx.src(c), ok,
               'the labeller receives the tab-expanded, de-indented text' if ok else 'the labeller can receive the raw docstring', anchor=PARSE)
    # min on a non-empty list only
    fm = ctx.func('xdoctest.parser._min_indentation')
    gm = ctx.cfg(fm)
    domm = ctx.dom(gm, gm.entry)
    for n in gm.nodes:
        for c in node_calls(n):
            if is_name(c.func, 'min'):
                facts = graph.guard_facts(domm, n)
                ok = any(isinstance(fa.expr, ast.Compare) and 'len(' in fa.text and fa.polarity is True for fa in facts) or any(isinstance(fa.expr, ast.Name) and fa.polarity is True for fa in facts)
                rep.ob('C13.R1', ctx.loc(fm, c), ctx.src(c), ok, 'min() only on a non-empty list' if ok else 'min() of a possibly empty list (a docstring without non-blank lines raises ValueError)', anchor=fm.qualname)


def _state_constants(rd):
    out = {}
    for d in rd.defs:
        if d.kind == 'assign' and isinstance(d.value, ast.Constant) and isinstance(d.value.value, str) and d.name.isupper() and len(rd.defs_of(d.name)) == 1:
            out[d.name] = d.value.value
    return out


def _state_val(e, states):
    if isinstance(e, ast.Name) and e.id in states:
        return states[e.id]
    if isinstance(e, ast.Constant) and isinstance(e.value, str):
        return e.value
    return None


def _state_truth(e, var, val, states):
    """truth of a test on the state variable `var` when it holds `val`; None if the test is not such a test"""
    if isinstance(e, ast.Compare) and len(e.ops) == 1 and is_name(e.left, var):
        c = e.comparators[0]
        if isinstance(e.ops[0], (ast.Eq, ast.NotEq)) and _state_val(c, states) is not None:
            return (val == _state_val(c, states)) == isinstance(e.ops[0], ast.Eq)
        if isinstance(e.ops[0], (ast.In, ast.NotIn)) and isinstance(c, (ast.Set, ast.Tuple, ast.List)):
            vals = [_state_val(x, states) for x in c.elts]
            if None not in vals:
                return (val in vals) == isinstance(e.ops[0], ast.In)
    return None


def _yield_nodes(g):
    return [n for n in g.nodes if n.kind == 'stmt' and not n.dup and any(isinstance(x, ast.Yield) for x in ast.walk(n.ast))]


def r2_consume_emit(ctx):
    rep = ctx.rep
    f = ctx.func(LABEL)
    g = ctx.cfg(f)
    rd = ctx.rd(f)
    # main loop: iterates a local that flows from enumerate(<param>.splitlines())
    src = f.node.args.args[1].arg
    mains = []
    for n in g.nodes:
        if n.kind == 'for' and not n.dup and not any(fr.kind == 'loop' for fr in n.frames) and isinstance(n.ast.iter, ast.Name):
            defs = rd.at(n, n.ast.iter.id)
            if defs and all(isinstance(d.value, ast.Call) and is_name(d.value.func, 'enumerate') and 'splitlines' in ast.unparse(d.value) and src in ast.unparse(d.value) for d in defs):
                mains.append(n)
    need(len(mains) == 1, 'C13.R2: labelling loop over enumerate(string.splitlines()) not found')
    head = mains[0]
    itname = head.ast.iter.id
    line_var = [x.id for x in ast.walk(head.ast.target) if isinstance(x, ast.Name)][-1]
    entry, cut = graph.region_of_loop(g, head)
    appends = [n for n in g.nodes if n.kind == 'stmt' and not n.dup and any(isinstance(c.func, ast.Attribute) and c.func.attr == 'append' and is_name(c.func.value, 'labeled_lines') for c in node_calls(n))]
    inner = [n for n in g.nodes if n.kind == 'for' and not n.dup and graph.in_loop_body(n, head.ast) and isinstance(n.ast.iter, ast.Call) and
             ctx.res.resolve_call(f, n.ast.iter)[0] == 'repo' and ctx.res.resolve_call(f, n.ast.iter)[1][0].qualname == COMPLETE]
    need(len(inner) == 1, 'C13.R2: completion loop over _complete_source(...) not found')
    ih = inner[0]
    direct = [a for a in appends if not graph.in_loop_body(a, ih.ast)]
    in_inner = [a for a in appends if graph.in_loop_body(a, ih.ast)]
    rep.floor('C13.R2', 'label appends', len(appends), 2)
    # (a) per iteration: exactly one of {direct append, completion loop}
    inits = [n for n in g.nodes if n.kind == 'for_init' and n.stmt is ih.ast and not n.dup]
    ev = lambda x: any(x is a for a in direct) or any(x is i for i in inits)
    # the dispatch on curr_state is evaluated per value of the finite state set (all definitions that reach
    # it assign one of the state constants)
    states = _state_constants(rd)
    disp = [n for n in g.nodes if n.kind == 'test' and not n.dup and graph.in_loop_body(n, head.ast) and _state_truth(n.ast, 'curr_state', 'text', states) is not None]
    need(disp, 'C13.R2: dispatch on curr_state not found')
    for t in disp:
        for d in rd.at(t, 'curr_state'):
            v = d.value
            need(isinstance(v, ast.AST) and _state_val(v, states) is not None, 'C13.R2: curr_state may hold a non-state value at the dispatch (%r)' % d)
    for cur in ('text', 'dsrc', 'dcnt', 'want'):
        def ef(a, b, kind, tok, cur=cur):
            if kind != 'n':
                return False
            if b.kind == 'branch' and b.attrs['test'].kind == 'test' and any(b.attrs['test'] is t for t in disp):
                tv = _state_truth(b.attrs['test'].ast, 'curr_state', cur, states)
                if tv is not None and tv != b.attrs['polarity']:
                    return False
            return True
        # only paths on which curr_state can be `cur`: some definition with that value must lie on the path
        cur_defs = [d.node for d in rd.defs_of('curr_state') if isinstance(d.value, ast.AST) and _state_val(d.value, states) == cur and not graph.in_loop_body(d.node, ih.ast)]
        if not cur_defs:
            continue
        res = graph.count_events(entry, ev, lambda x: x is head, efilter=ef)
        need(res, 'C13.R2: labelling loop has no back edge for state %s' % cur)
        (_, lo, hi, wlo, whi) = next(iter(res.values()))
        rep.ob('C13.R2', ctx.loc(f, head.ast), 'consumed line labelled %s -> one emission' % cur, (lo, hi) == (1, 1),
               'on every normal path through an iteration the consumed line is emitted exactly once' if (lo, hi) == (1, 1) else
               'a line labelled %s is emitted between %d and %d times: lines are %s' % (cur, lo, hi, 'dropped' if lo == 0 else 'duplicated'),
               witness=None if (lo, hi) == (1, 1) else graph.fmt_path(wlo if lo != 1 else whi, f.module.relpath), anchor=LABEL)
    # direct appends label the consumed line
    for a in direct:
        c = [c for c in node_calls(a) if isinstance(c.func, ast.Attribute) and c.func.attr == 'append'][0]
        t = c.args[0] if c.args else None
        ok = isinstance(t, ast.Tuple) and len(t.elts) == 2 and is_name(t.elts[1], line_var)
        rep.ob('C13.R2', ctx.loc(f, c), ctx.src(c), ok, 'appends (state, consumed line)' if ok else 'the appended line is not the consumed line', nontrivial=False, anchor=LABEL)
    # (b) completion loop: one append per yielded value
    e2, c2 = graph.region_of_loop(g, ih)
    res = graph.count_events(e2, lambda x: any(x is a for a in in_inner), lambda x: x is ih, efilter=graph.normal_only)
    need(res, 'C13.R2: completion loop has no back edge')
    (_, lo, hi, wlo, whi) = next(iter(res.values()))
    rep.ob('C13.R2', ctx.loc(f, ih.ast), 'one append per completed line', (lo, hi) == (1, 1),
           'every line yielded by the completer is appended exactly once' if (lo, hi) == (1, 1) else 'between %d and %d appends per completed line' % (lo, hi), anchor=LABEL)
    parts = [x.id for x in ast.walk(ih.ast.target) if isinstance(x, ast.Name)]
    for a in in_inner:
        c = [c for c in node_calls(a) if isinstance(c.func, ast.Attribute) and c.func.attr == 'append'][0]
        t = c.args[0] if c.args else None
        ok = isinstance(t, ast.Tuple) and len(t.elts) == 2 and isinstance(t.elts[1], ast.Name) and t.elts[1].id == parts[0]
        rep.ob('C13.R2', ctx.loc(f, c), ctx.src(c), ok, 'appends the line the completer yielded' if ok else 'the appended line is not the yielded line', nontrivial=False, anchor=LABEL)
    # the completer consumes from the same iterator
    ok = len(ih.ast.iter.args) >= 3 and is_name(ih.ast.iter.args[0], line_var) and is_name(ih.ast.iter.args[2], itname)
    rep.ob('C13.R2', ctx.loc(f, ih.ast), ctx.src(ih.ast.iter), ok, 'the completer continues on the labelling iterator, starting from the consumed line' if ok else 'the completer does not consume from the labelling iterator', anchor=LABEL)
    # (c) inside the completer
    fc = ctx.func(COMPLETE)
    gc = ctx.cfg(fc)
    params = [a.arg for a in fc.node.args.args]
    ys = _yield_nodes(gc)
    whiles = [n for n in gc.nodes if n.kind == 'test' and n.attrs.get('loop') and not n.dup]
    need(len(whiles) == 1, 'C13.R2: completion while-loop not found')
    wh = whiles[0]
    before = [y for y in ys if not graph.in_loop_body(y, wh.stmt)]
    inside = [y for y in ys if graph.in_loop_body(y, wh.stmt)]
    res = graph.count_events(gc.entry, lambda x: any(x is y for y in before), lambda x: x is wh, efilter=lambda a, b, k, t: k == 'n' and not graph.in_loop_body(a, wh.stmt))
    (_, lo, hi, _, _) = next(iter(res.values()))
    first_ok = (lo, hi) == (1, 1) and all(isinstance(v := [x for x in ast.walk(y.ast) if isinstance(x, ast.Yield)][0].value, ast.Tuple) and is_name(v.elts[0], params[0]) for y in before)
    rep.ob('C13.R2', ctx.loc(fc, before[0].ast if before else fc.node), 'completer yields its first line once', first_ok,
           'the line that opened the statement is yielded exactly once before the loop' if first_ok else 'the opening line is yielded %d..%d times / is not the parameter' % (lo, hi), anchor=COMPLETE)
    e3, c3 = graph.region_of_loop(gc, wh)
    nexts = [n for n in gc.nodes if not n.dup and graph.in_loop_body(n, wh.stmt) and any(is_name(c.func, 'next') and c.args and is_name(c.args[0], params[2]) for c in node_calls(n))]
    for what, nodes in (('next(line_iter)', nexts), ('yield', inside)):
        res = graph.count_events(e3, lambda x: any(x is y for y in nodes), lambda x: x is wh, efilter=graph.normal_only)
        need(res, 'C13.R2: completion loop has no back edge')
        (_, lo, hi, wlo, whi) = next(iter(res.values()))
        rep.ob('C13.R2', ctx.loc(fc, wh.ast), '%s per completion step' % what, (lo, hi) == (1, 1),
               'exactly one %s on every normal path through an iteration' % what if (lo, hi) == (1, 1) else
               'between %d and %d %s per iteration: a consumed line is %s' % (lo, hi, what, 'lost' if what == 'yield' and lo == 0 else 'mis-paired'), anchor=COMPLETE)
    # the yielded line derives from the consumed one
    rdc = ctx.rd(fc)
    for y in inside:
        v = [x for x in ast.walk(y.ast) if isinstance(x, ast.Yield)][0].value
        ok = False
        if isinstance(v, ast.Tuple) and isinstance(v.elts[0], ast.Name):
            nm = v.elts[0].id
            defs = rdc.at(y, nm)
            ok = bool(defs) and all(any(d2.node is nx for nx in nexts) or (isinstance(d2.value, ast.AST) and nm in {x.id for x in ast.walk(d2.value) if isinstance(x, ast.Name)}) for d2 in defs)
        rep.ob('C13.R2', ctx.loc(fc, y.ast), ctx.src(y.ast), ok, 'yields the line just consumed (possibly re-prefixed)' if ok else 'the yielded line is not the consumed one', nontrivial=False, anchor=COMPLETE)


def r3_transitions(ctx):
    rep = ctx.rep
    f = ctx.func(LABEL)
    g = ctx.cfg(f)
    rd = ctx.rd(f)
    # state constants
    consts_ = {}
    for d in rd.defs:
        if d.kind == 'assign' and isinstance(d.value, ast.Constant) and isinstance(d.value.value, str) and d.name.isupper() and len(rd.defs_of(d.name)) == 1:
            consts_[d.name] = d.value.value
    need(set(consts_.values()) >= {'text', 'dsrc', 'dcnt', 'want'}, 'C13.R3: state constants not recognised: %s' % consts_)
    heads = [n for n in g.nodes if n.kind == 'for' and not n.dup and not any(fr.kind == 'loop' for fr in n.frames)]
    head = heads[0]
    entry, cut = graph.region_of_loop(g, head)
    inner = [n for n in g.nodes if n.kind == 'for' and not n.dup and graph.in_loop_body(n, head.ast)]
    appends = [n for n in g.nodes if n.kind == 'stmt' and not n.dup and any(isinstance(c.func, ast.Attribute) and c.func.attr == 'append' and is_name(c.func.value, 'labeled_lines') for c in node_calls(n))]
    first_emit = [a for a in appends if not any(graph.in_loop_body(a, ih.ast) for ih in inner)] + [n for n in g.nodes if n.kind == 'for_init' and any(n.stmt is ih.ast for ih in inner) and not n.dup]

    def val_of(e):
        if isinstance(e, ast.Name) and e.id in consts_:
            return consts_[e.id]
        if isinstance(e, ast.Constant) and isinstance(e.value, str):
            return e.value
        return None

    def truth(e, prev):
        """truth value of a test on prev_state given its value, None if it does not (only) depend on it"""
        if isinstance(e, ast.Compare) and len(e.ops) == 1 and is_name(e.left, 'prev_state'):
            c = e.comparators[0]
            if isinstance(e.ops[0], (ast.Eq, ast.NotEq)) and val_of(c) is not None:
                return (prev == val_of(c)) == isinstance(e.ops[0], ast.Eq)
            if isinstance(e.ops[0], (ast.In, ast.NotIn)) and isinstance(c, (ast.Set, ast.Tuple, ast.List)):
                vals = [val_of(x) for x in c.elts]
                if None not in vals:
                    return (prev in vals) == isinstance(e.ops[0], ast.In)
        return None
    cur_defs = [d for d in rd.defs_of('curr_state')]
    table = {}
    for prev in ('text', 'dsrc', 'dcnt', 'want'):
        def ef(a, b, kind, tok, prev=prev):
            if kind != 'n':
                return False
            if b.kind == 'branch' and b.attrs['test'].kind == 'test':
                t = truth(b.attrs['test'].ast, prev)
                if t is not None and t != b.attrs['polarity']:
                    return False
            return True
        reach = graph.reachable([entry], efilter=ef, stop=[head])
        rids = set(id(x) for x in reach)
        labels = set()
        for d in cur_defs:
            if id(d.node) not in rids or d.node is g.entry:
                continue
            if any(graph.in_loop_body(d.node, ih.ast) for ih in inner):
                continue
            v = val_of(d.value) if isinstance(d.value, ast.AST) else None
            others = [o.node for o in cur_defs if o is not d]
            # does this definition reach a first emit of the iteration?
            if graph.path(d.node.nsucc(), lambda x: any(x is e_ for e_ in first_emit), efilter=ef, avoid=others, stop=[head]) is not None:
                labels.add(v if v is not None else '?%s' % ctx.src(d.value if isinstance(d.value, ast.AST) else d.node.ast))
        table[prev] = sorted(labels)
        ok = bool(labels) and labels <= TABLE[prev]
        rep.ob('C13.R3', ctx.loc(f, head.ast), 'labels after %s' % prev, ok,
               'a line following %s can be labelled %s (documented: %s)' % (prev, sorted(labels), sorted(TABLE[prev])) if ok else
               'undocumented transition(s) %s -> %s: %s' % (prev, sorted(labels - TABLE[prev]) or labels, 'prose can become a want without source' if prev == 'text' and 'want' in labels else
                                                           ('a want can continue as a continuation line' if prev == 'want' and 'dcnt' in labels else 'outside the documented table')), anchor=LABEL)
    rep.note('label_transition_table', table)
    # prev_state is advanced from curr_state once per iteration
    adv = [n for n in g.nodes if n.kind == 'stmt' and not n.dup and isinstance(n.ast, ast.Assign) and is_name(n.ast.targets[0], 'prev_state') and is_name(n.ast.value, 'curr_state') and graph.in_loop_body(n, head.ast)]
    res = graph.count_events(entry, lambda x: any(x is a for a in adv), lambda x: x is head, efilter=graph.normal_only)
    (_, lo, hi, _, _) = next(iter(res.values())) if res else (None, 0, 0, None, None)
    rep.ob('C13.R3', ctx.loc(f, adv[0].ast if adv else head.ast), 'prev_state = curr_state once per iteration', (lo, hi) == (1, 1),
           'the state machine advances exactly once per consumed line' if (lo, hi) == (1, 1) else 'the state is advanced %d..%d times per line' % (lo, hi), anchor=LABEL)


def r4_grouping(ctx):
    rep = ctx.rep
    f = ctx.func(PKG)
    g = ctx.cfg(f)
    heads = [n for n in g.nodes if n.kind == 'for' and not n.dup and not any(fr.kind == 'loop' for fr in n.frames)]
    need(heads, 'C13.R4: loop over the grouped lines not found')
    head = heads[0]
    params = [a.arg for a in f.node.args.args]
    ok = is_name(head.ast.iter, params[1])
    rep.ob('C13.R4', ctx.loc(f, head.ast), 'iterates the groups in order', ok, ctx.src(head.ast.iter), nontrivial=False, anchor=PKG)
    entry, cut = graph.region_of_loop(g, head)
    ys = [y for y in _yield_nodes(g) if graph.in_loop_body(y, head.ast)]
    inner = [n for n in g.nodes if n.kind == 'for' and not n.dup and graph.in_loop_body(n, head.ast)]
    inits = [n for n in g.nodes if n.kind == 'for_init' and any(n.stmt is ih.ast for ih in inner) and not n.dup]
    direct = [y for y in ys if not any(graph.in_loop_body(y, ih.ast) for ih in inner)]
    res = graph.count_events(entry, lambda x: any(x is y for y in direct) or any(x is i for i in inits), lambda x: x is head, efilter=graph.normal_only)
    need(res, 'C13.R4: grouping loop has no back edge')
    (_, lo, hi, wlo, whi) = next(iter(res.values()))
    rep.ob('C13.R4', ctx.loc(f, head.ast), 'every group is packaged', (lo, hi) == (1, 1),
           'each group yields its text part or runs the chunk packager, exactly once' if (lo, hi) == (1, 1) else 'a group is packaged %d..%d times' % (lo, hi),
           witness=None if (lo, hi) == (1, 1) else graph.fmt_path(wlo if lo != 1 else whi, f.module.relpath), anchor=PKG)
    for ih in inner:
        e2, c2 = graph.region_of_loop(g, ih)
        iy = [y for y in ys if graph.in_loop_body(y, ih.ast)]
        res = graph.count_events(e2, lambda x: any(x is y for y in iy), lambda x: x is ih, efilter=graph.normal_only)
        (_, lo, hi, _, _) = next(iter(res.values())) if res else (None, 0, 0, None, None)
        rep.ob('C13.R4', ctx.loc(f, ih.ast), 'every example of a chunk is passed on', (lo, hi) == (1, 1),
               'one yield per packaged example' if (lo, hi) == (1, 1) else '%d..%d yields per packaged example' % (lo, hi), anchor=PKG)
    conts = [n for n in g.nodes if n.kind == 'stmt' and isinstance(n.ast, (ast.Continue, ast.Break)) and not n.dup]
    rep.ob('C13.R4', ctx.loc(f, conts[0].ast if conts else f.node), 'no continue / break in the grouping loop', not conts, '%d jump statement(s)' % len(conts), nontrivial=False, anchor=PKG)
    # the chunk packager always yields its final example
    fc = ctx.func(CHUNK)
    gc = ctx.cfg(fc)
    ysc = _yield_nodes(gc)
    wit = graph.must_pass([gc.entry], lambda x: x is gc.exit, through=[y for y in ysc if not any(fr.kind == 'loop' for fr in y.frames) and not y.frames or True and not any(fr.kind == 'loop' for fr in y.frames)], efilter=graph.normal_only)
    top_level = [y for y in ysc if not y.frames]
    wit = graph.must_pass([gc.entry], lambda x: x is gc.exit, through=top_level, efilter=graph.normal_only)
    rep.ob('C13.R4', ctx.loc(fc, fc.node), 'the chunk packager yields the last example on every path', wit is None and bool(top_level),
           'every normal path ends with the unconditional yield of the final part (which carries the want)' if wit is None and top_level else 'a chunk can be packaged without its final part',
           anchor=CHUNK)


# ---------------------------------------------------------------------------
from ..selftest import fire, silent      # noqa: E402

PA = 'xdoctest/parser.py'
VARIANTS = [
    fire('P4-drop-expandtabs', 'C13.R1', (PA, "        string = string.expandtabs()\n", "")),
    fire('deindent-wrong-bound', 'C13.R1', (PA, "            string = '\\n'.join([ln[min_indent:] for ln in string.splitlines()])\n", "            string = '\\n'.join([ln[min_indent + 1:] for ln in string.splitlines()])\n")),
    fire('deindent-dropped', 'C13.R1', (PA, "        if min_indent > 0:\n            string = '\\n'.join([ln[min_indent:] for ln in string.splitlines()])\n", "")),
    fire('want-line-not-appended', 'C13.R2', (PA, "            elif curr_state == WANT:\n                labeled_lines.append((curr_state, line))\n", "            elif curr_state == WANT:\n                pass\n")),
    fire('text-line-appended-twice', 'C13.R2', (PA, "            elif curr_state == TEXT:\n                labeled_lines.append((curr_state, line))\n", "            elif curr_state == TEXT:\n                labeled_lines.append((curr_state, line))\n                labeled_lines.append((curr_state, line))\n")),
    fire('completion-line-skipped', 'C13.R2', (PA, "                        if _hasprefix(norm_line, ('...',)):\n                            curr_state = DCNT\n                        labeled_lines.append((curr_state, part))\n",
                                                     "                        if _hasprefix(norm_line, ('...',)):\n                            curr_state = DCNT\n                            continue\n                        labeled_lines.append((curr_state, part))\n")),
    fire('completer-drops-consumed-line', 'C13.R2', (PA, "            source_parts.append(suffix)\n            yield next_line, norm_line\n", "            source_parts.append(suffix)\n            if suffix:\n                yield next_line, norm_line\n")),
    fire('completer-yields-first-line-twice', 'C13.R2', (PA, "    yield line, norm_line\n\n    source_parts = [suffix]\n", "    yield line, norm_line\n    yield line, norm_line\n\n    source_parts = [suffix]\n")),
    fire('text-becomes-want', 'C13.R3', (PA, "                if _hasprefix(strip_line, ('>>>',)):\n                    curr_state = DSRC\n                else:\n                    curr_state = TEXT\n",
                                            "                if _hasprefix(strip_line, ('>>>',)):\n                    curr_state = DSRC\n                elif line_indent > state_indent:\n                    curr_state = WANT\n                else:\n                    curr_state = TEXT\n")),
    fire('want-continues-as-dcnt', 'C13.R3', (PA, "                elif line_indent < state_indent:\n                    curr_state = TEXT\n                else:\n                    curr_state = WANT\n",
                                                  "                elif line_indent < state_indent:\n                    curr_state = TEXT\n                elif _hasprefix(line.strip(), ('...',)):\n                    curr_state = DCNT\n                else:\n                    curr_state = WANT\n")),
    fire('text-group-dropped', 'C13.R4', (PA, "                text_part = '\\n'.join(chunk)\n                yield text_part\n", "                text_part = '\\n'.join(chunk)\n                if text_part.strip():\n                    yield text_part\n")),
    fire('final-part-conditional', 'C13.R4', (PA, "            print('<YIELD CHUNK>')\n        yield example\n", "            print('<YIELD CHUNK>')\n        if example.exec_lines:\n            yield example\n")),
    silent('want-text-appends-merged', (PA, "            elif curr_state == WANT:\n                labeled_lines.append((curr_state, line))\n            elif curr_state == TEXT:\n                labeled_lines.append((curr_state, line))\n",
                                            "            elif curr_state in {WANT, TEXT}:\n                labeled_lines.append((curr_state, line))\n"),
           note='exhaustiveness of the dispatch over curr_state is the state machine invariant; see below'),
]
