"""
C18 -- displayed doctest source is faithful (narrow structural claim).
"""
import ast

from ..context import need
from ..loader import AnalysisError
from .. import graph
from ..affine import Aff, Evaluator, parse_spec, paths_to
from ..roles import node_calls
from ..resolve import walk_scope
from .common import fmt_facts, is_name
from .c08 import _branch_facts

EXPLANATION = (
    'R1 AFFINE numbering: in DocTest.format_parts the start line handed to every part is 1, or the doctest\'s file line on the '
    'offset_linenos branch; DoctestPart.format_part numbers from start line + part offset; add_line_numbers enumerates from exactly that start: '
    'so the i-th displayed number of a part is (Lp - Ld) + 1 + i doctest-relative and Lp + i file-relative. '
    'R2 PATH-COUNT: the displayed source comes from the original prompt lines (prefix on) or the executable lines (prefix off) through one join, '
    'every want line is appended exactly once and only under the `want` option, the want block follows the source block, and format_src joins '
    'the parts in order. That re-parsing the formatted text yields the same doctest is not decided.'
    " R2/R2b also for want rows built by a comprehension. R5 optional formatting arguments are merged with the configuration by `is None` (getvalue), never by truthiness. R6 where _complete_source inserts a continuation prompt into the stored line it inserts it into the labeller's view too.")
RUN_Q = 'xdoctest.doctest_example.DocTest.run'
DECIDES = ['AFFINE numbering of displayed lines', 'PATH-COUNT emission of source and want lines']
NOT_DECIDED = ['re-parse round trip of the formatted text', 'colouring / number width']

FP = 'xdoctest.doctest_part.DoctestPart.format_part'
FPS = 'xdoctest.doctest_example.DocTest.format_parts'
ALN = 'xdoctest.utils.util_str.add_line_numbers'


def run(ctx):
    for fn in (r1_numbering, r2_lines_once, r2b_want_text_unmodified, r3_formatting_is_read_only, r4_file_relative_start, r5_explicit_options_win, r6_continuation_prompt_pairing, r7_formatting_options_are_forwarded, r8_parts_exist_before_they_are_formatted):
        ctx.rep.rule(fn, ctx)


def r1_numbering(ctx):
    rep = ctx.rep
    # format_parts: startline per branch
    f = ctx.func(FPS)
    g = ctx.cfg(f)
    ev = Evaluator({'self.lineno': 'Ld'})
    calls = [(n, c) for n in g.nodes if not n.dup for c in node_calls(n) if isinstance(c.func, ast.Attribute) and c.func.attr == 'format_part']
    rep.floor('C18.R1', 'format_part calls in format_parts', len(calls), 1)
    seen = set()
    for (n, branches, env) in paths_to(g, [n for (n, _) in calls], ev):
        c = [cc for (nn, cc) in calls if nn is n][0]
        sl = None
        for kw in c.keywords:
            if kw.arg == 'startline':
                sl = kw.value
        val = ev.aeval(sl, env) if sl is not None else None
        facts = _branch_facts(branches)
        linenos = any(isinstance(fa.expr, ast.Name) and fa.expr.id == 'linenos' and fa.polarity is True for fa in facts)
        file_rel = any(isinstance(fa.expr, ast.Name) and fa.expr.id == 'offset_linenos' and fa.polarity is True for fa in facts)
        if not linenos:
            continue
        spec_a = parse_spec('Ld') if file_rel else Aff.const(1)
        key = (file_rel, repr(val))
        if key in seen:
            continue
        seen.add(key)
        rep.ob('C18.R1', ctx.loc(f, c), 'startline | %s numbering' % ('file-relative' if file_rel else 'doctest-relative'), val == spec_a,
               'startline = %r' % val if val == spec_a else 'the first line number of a doctest evaluates to %r but must be %r' % (val, spec_a), anchor=FPS)
    rep.ob('C18.R1', ctx.loc(f, f.node), 'both numbering modes present', len({k[0] for k in seen}) == 2, 'modes: %s' % sorted(seen), nontrivial=False, anchor=FPS)
    # format_part: start = startline + self.line_offset, handed to add_line_numbers
    f2 = ctx.func(FP)
    g2 = ctx.cfg(f2)
    recv = f2.node.args.args[0].arg
    ev2 = Evaluator({'startline': 'SL', recv + '.line_offset': 'Lp - Ld'})
    calls2 = [(n, c) for n in g2.nodes if not n.dup for c in node_calls(n) if ctx.res.resolve_call(f2, c)[0] == 'repo' and ctx.res.resolve_call(f2, c)[1][0].qualname == ALN]
    rep.floor('C18.R1', 'add_line_numbers calls in format_part', len(calls2), 1)
    spec_a = parse_spec('SL + Lp - Ld')
    done = set()
    for (n, branches, env) in paths_to(g2, [n for (n, _) in calls2], ev2):
        c = [cc for (nn, cc) in calls2 if nn is n][0]
        st = None
        for kw in c.keywords:
            if kw.arg == 'start':
                st = kw.value
        if st is None and len(c.args) >= 2:
            st = c.args[1]
        val = ev2.aeval(st, env) if st is not None else None
        if repr(val) in done:
            continue
        done.add(repr(val))
        rep.ob('C18.R1', ctx.loc(f2, c), 'first number of a part', val == spec_a,
               'start = %r (start line + part offset)' % val if val == spec_a else 'the first displayed number of a part evaluates to %r but must be %r' % (val, spec_a), anchor=FP)
    # add_line_numbers enumerates from start
    f3 = ctx.func(ALN)
    ok = False
    for c in ast.walk(f3.node):
        if isinstance(c, ast.Call) and is_name(c.func, 'enumerate'):
            st = None
            for kw in c.keywords:
                if kw.arg == 'start':
                    st = kw.value
            if st is None and len(c.args) >= 2:
                st = c.args[1]
            ok = is_name(st, 'start') and not any(isinstance(n, ast.Name) and n.id == 'start' and isinstance(n.ctx, ast.Store) for n in ast.walk(f3.node))
    rep.ob('C18.R1', ctx.loc(f3, f3.node), 'add_line_numbers enumerates from `start`', ok,
           'the i-th line gets number start + i' if ok else 'the numbering does not start at the given start', anchor=ALN)


def _derives_from_want(rd, recv, node, e, bad, src, depth=0):
    """e flows from self.want without any rewriting step"""
    if depth > 6:
        bad.append('derivation too deep')
        return
    if isinstance(e, ast.Attribute) and is_name(e.value, recv) and e.attr == 'want':
        return
    if isinstance(e, ast.Constant) and e.value == '':
        return
    if isinstance(e, ast.IfExp):
        _derives_from_want(rd, recv, node, e.body, bad, src, depth + 1)
        _derives_from_want(rd, recv, node, e.orelse, bad, src, depth + 1)
        return
    if isinstance(e, ast.BoolOp) and isinstance(e.op, ast.Or):
        for v in e.values:
            _derives_from_want(rd, recv, node, v, bad, src, depth + 1)
        return
    if isinstance(e, ast.Name):
        ds = rd.at(node, e.id)
        if not ds:
            bad.append('%s has no definition' % e.id)
        for d in ds:
            if d.kind == 'assign' and isinstance(d.value, ast.AST):
                _derives_from_want(rd, recv, d.node, d.value, bad, src, depth + 1)
            else:
                bad.append('%s defined by %s' % (e.id, d.kind))
        return
    bad.append(src(e, 60))


def _want_comprehensions(ctx, f, g, rd, recv):
    """[(node, comprehension)] for statements that build the displayed want rows by a comprehension over <text>.splitlines(), where the text mentions self.want"""
    out = []
    for n in g.nodes:
        if n.kind != 'stmt' or n.dup or not isinstance(n.ast, (ast.Assign, ast.AugAssign)):
            continue
        v = n.ast.value
        if isinstance(v, ast.ListComp) and len(v.generators) == 1:
            it = v.generators[0].iter
            if isinstance(it, ast.Call) and isinstance(it.func, ast.Attribute) and it.func.attr == 'splitlines':
                subj = it.func.value
                mentions = any(isinstance(x, ast.Attribute) and x.attr == 'want' and is_name(x.value, recv) for x in ast.walk(subj))
                if not mentions and isinstance(subj, ast.Name):
                    bad = []
                    _derives_from_want(rd, recv, n, subj, bad, ctx.src)
                    mentions = not bad
                if mentions:
                    out.append((n, v))
    return out


def r2_lines_once(ctx):
    rep = ctx.rep
    f = ctx.func(FP)
    g = ctx.cfg(f)
    rd = ctx.rd(f)
    recv = f.node.args.args[0].arg
    dom = ctx.dom(g, g.entry)
    # source text per prefix branch
    class _D:
        pass
    src_defs = [d for d in rd.defs if d.name == 'src_text']
    if not src_defs:
        # the text is split where it is chosen: `part_lines = <text>.splitlines()` per branch
        for d in rd.defs:
            if d.kind == 'assign' and isinstance(d.value, ast.Call) and isinstance(d.value.func, ast.Attribute) and d.value.func.attr == 'splitlines' and not d.value.args and \
                    not any(isinstance(x, ast.Attribute) and x.attr == 'want' for x in ast.walk(d.value)):
                dd = _D()
                dd.node, dd.value = d.node, d.value.func.value
                src_defs.append(dd)
    rep.floor('C18.R2', 'definitions of the displayed source', len(src_defs), 2)
    for d in src_defs:
        facts = graph.guard_facts(dom, d.node)
        prefix = [fa.polarity for fa in facts if isinstance(fa.expr, ast.Name) and fa.expr.id == 'prefix']
        v = d.value
        if prefix and prefix[0] is True:
            has_orig = any(fa.polarity is False and 'orig_lines is None' in fa.text for fa in facts)
            if has_orig:
                ok = isinstance(v, ast.Call) and isinstance(v.func, ast.Attribute) and v.func.attr == 'join' and isinstance(v.func.value, ast.Constant) and v.func.value.value == '\n' \
                    and ast.unparse(v.args[0]) == recv + '.orig_lines'
                rep.ob('C18.R2', ctx.loc(f, d.node.ast), ctx.src(d.node.ast), ok,
                       'with prompts the original lines are joined once, in order' if ok else 'the prompted source is not the plain join of the original lines', anchor=FP)
        elif prefix and prefix[0] is False:
            ok = ast.unparse(v) == recv + '.source'
            rep.ob('C18.R2', ctx.loc(f, d.node.ast), ctx.src(d.node.ast), ok,
                   'without prompts the executable source is shown' if ok else 'the prompt-free source is not the executable source of the part', anchor=FP)
    # want lines appended once per line, only under `want`
    apps = [n for n in g.nodes if n.kind == 'stmt' and not n.dup and any(isinstance(c.func, ast.Attribute) and c.func.attr == 'append' and is_name(c.func.value, 'want_lines') for c in node_calls(n))]
    comps = _want_comprehensions(ctx, f, g, rd, recv)
    rep.floor('C18.R2', 'want line appends', len(apps) + len(comps), 1)
    for (n, comp) in comps:
        facts = graph.guard_facts(dom, n)
        names = set()
        for fa in facts:
            if isinstance(fa.expr, ast.Name) and fa.polarity is True:
                bad_ = []
                if fa.expr.id != 'want':
                    _derives_from_want(rd, recv, fa.origin.attrs['test'] if fa.origin is not None else n, fa.expr, bad_, ctx.src)
                    if not bad_:
                        continue        # "the want text is not empty": an empty text has no lines to show anyway
                names.add(fa.expr.id)
        # a condition of the comprehension that does not look at the line is a guard of the whole block, not a filter of lines
        tv_ = {x.id for x in ast.walk(comp.generators[0].target) if isinstance(x, ast.Name)}
        line_filters = [t for t in comp.generators[0].ifs if any(isinstance(x, ast.Name) and x.id in tv_ for x in ast.walk(t))]
        for t in comp.generators[0].ifs:
            if t not in line_filters and isinstance(t, ast.Name):
                names.add(t.id)
        ok = names <= {'want'} and 'want' in names
        rep.ob('C18.R2', ctx.loc(f, n.ast), ctx.src(n.ast), ok,
               'want lines are emitted iff the `want` option is on' if ok else 'want lines are emitted under %s' % sorted(names), anchor=FP)
        ok = not line_filters
        rep.ob('C18.R2', ctx.loc(f, comp), 'one row per want line', ok, 'the comprehension keeps every line of the want' if ok else 'want lines are filtered before they are displayed', anchor=FP)
    for a in apps:
        loops = [fr for fr in a.frames if fr.kind == 'loop']
        need(loops, 'C18.R2: want lines are not appended in a loop over the want text')
        head = loops[-1].head
        entry, cut = graph.region_of_loop(g, head)
        domi = ctx.dom(g, entry, cut)
        facts = graph.guard_facts(domi, a)
        names = {fa.expr.id for fa in facts if isinstance(fa.expr, ast.Name) and fa.polarity is True}
        ok = names <= {'want'} and 'want' in names
        rep.ob('C18.R2', ctx.loc(f, a.ast), ctx.src(a.ast), ok,
               'a want line is emitted iff the `want` option is on' if ok else 'want lines are emitted under %s' % sorted(names), anchor=FP)
        res = graph.count_events(entry, lambda x: any(x is a_ for a_ in apps), lambda x: x is head, efilter=graph.normal_only)
        (_, lo, hi, _, _) = next(iter(res.values()))
        rep.ob('C18.R2', ctx.loc(f, a.ast), 'appends per want line', hi == 1, 'at most %d append per line' % hi, anchor=FP)
        it = head.ast.iter
        ok = isinstance(it, ast.Call) and isinstance(it.func, ast.Attribute) and it.func.attr == 'splitlines'
        rep.ob('C18.R2', ctx.loc(f, head.ast), 'loop over the lines of the want', ok, ctx.src(it), nontrivial=False, anchor=FP)
    # want block after the source block
    rets = [n for n in g.nodes if n.kind == 'stmt' and isinstance(n.ast, ast.Return)]
    augs = [n for n in g.nodes if n.kind == 'stmt' and isinstance(n.ast, ast.AugAssign) and is_name(n.ast.target, 'part_text')]
    ok = bool(augs) and all(isinstance(n.ast.op, ast.Add) and any(is_name(x, 'want_text') for x in ast.walk(n.ast.value)) for n in augs)
    if not ok:
        # the same assembly written another way: names that come from the want text and names that come from the source text ...
        def derived(seeds):
            names = set()
            changed = True
            while changed:
                changed = False
                for d in rd.defs:
                    if d.name not in names and isinstance(d.value, ast.AST) and d.kind in ('assign', 'augassign') and \
                            any((isinstance(y, ast.Attribute) and y.attr in seeds) or (isinstance(y, ast.Name) and y.id in names) for y in ast.walk(d.value)):
                        names.add(d.name)
                        changed = True
            return names
        wnames = derived({'want'})
        snames = derived({'source', 'orig_lines'}) - wnames

        def chain(e):
            return chain(e.left) + chain(e.right) if isinstance(e, ast.BinOp) and isinstance(e.op, ast.Add) else [e]
        # ... `return source_text + newline + want_text`
        for n in rets:
            parts = chain(n.ast.value) if n.ast.value is not None else []
            if len(parts) >= 2 and isinstance(parts[0], ast.Name) and parts[0].id in snames and any(isinstance(p_, ast.Name) and p_.id in wnames for p_ in parts[1:]):
                ok = True
        if not ok:
            reaches_result = any(isinstance(y, ast.Name) and y.id in wnames for n in rets if n.ast.value is not None for y in ast.walk(n.ast.value)) or \
                any(isinstance(y, ast.Name) and y.id in wnames for n in augs for y in ast.walk(n.ast.value))
            need(not reaches_result, 'C18.R2: the want text reaches the result in a way that was not recognised (neither `part_text += ... want_text` nor `return source + ... + want`)')
    rep.ob('C18.R2', ctx.loc(f, augs[0].ast if augs else f.node), 'want block appended after the source block', ok,
           'part_text += newline + want_text' if ok else 'the want block is not appended after the source', nontrivial=False, anchor=FP)
    # format_src joins the parts in order
    f2 = ctx.func('xdoctest.doctest_example.DocTest.format_src')
    ok = any(isinstance(c, ast.Call) and isinstance(c.func, ast.Attribute) and c.func.attr == 'join' and isinstance(c.func.value, ast.Constant) and c.func.value.value == '\n' for c in ast.walk(f2.node)) \
        and not any(isinstance(c, ast.Call) and isinstance(c.func, (ast.Name, ast.Attribute)) and (getattr(c.func, 'id', None) in ('sorted', 'reversed', 'set') or getattr(c.func, 'attr', None) in ('sort', 'reverse')) for c in ast.walk(f2.node))
    rep.ob('C18.R2', ctx.loc(f2, f2.node), 'format_src joins the parts in order', ok, 'newline join of the generated parts, no re-ordering' if ok else 'parts are re-ordered or not joined', nontrivial=False, anchor=f2.qualname)


# ---------------------------------------------------------------------------
def r4_file_relative_start(ctx):
    """file-relative numbers are DocTest.lineno + ...: the freeform offset accumulation that produces lineno (same clause as C08.R4)"""
    from . import c08
    from .common import run_as
    run_as(ctx, c08.r4_freeform_offset, 'C08.R4', 'C18.R4')


def r2b_want_text_unmodified(ctx):
    """the want lines shown are the want lines of the part: the text that is split into lines flows from self.want
    without any rewriting step (strip, replace, slicing ...) -- leading blanks of a want line are significant"""
    rep = ctx.rep
    f = ctx.func(FP)
    g = ctx.cfg(f)
    rd = ctx.rd(f)
    recv = f.node.args.args[0].arg
    heads = [n for n in g.nodes if n.kind == 'for' and not n.dup and isinstance(n.ast.iter, ast.Call) and isinstance(n.ast.iter.func, ast.Attribute) and n.ast.iter.func.attr == 'splitlines'
             and any(isinstance(c.func, ast.Attribute) and c.func.attr == 'append' and is_name(c.func.value, 'want_lines') for s_ in n.ast.body for c in ast.walk(s_) if isinstance(c, ast.Call))]
    comps = _want_comprehensions(ctx, f, g, rd, recv)
    rep.floor('C18.R2b', 'loops over the want lines', len(heads) + len(comps), 1)
    for (n, comp) in comps:
        bad = []
        _derives_from_want(rd, recv, n, comp.generators[0].iter.func.value, bad, ctx.src)
        rep.ob('C18.R2b', ctx.loc(f, comp), 'want lines <- %s' % ctx.src(comp.generators[0].iter), not bad,
               'the lines are those of self.want, unmodified' if not bad else
               'the want text is rewritten before it is displayed (%s): a displayed want line differs from the want line of the doctest' % '; '.join(bad), anchor=FP)
        lv = comp.generators[0].target.id if isinstance(comp.generators[0].target, ast.Name) else None
        a = comp.elt
        uses = lambda e: any(is_name(x, lv) for x in ast.walk(e))
        ok = is_name(a, lv) or (isinstance(a, ast.BinOp) and isinstance(a.op, ast.Add) and is_name(a.right, lv) and not uses(a.left)) or \
            (isinstance(a, ast.Call) and isinstance(a.func, ast.Attribute) and a.func.attr == 'format' and not uses(a.func.value) and
             len(a.keywords) + len(a.args) == 1 and is_name((a.args + [k.value for k in a.keywords])[0], lv))
        rep.ob('C18.R2b', ctx.loc(f, a), ctx.src(a), ok, 'the line is emitted as it is (after the alignment blanks)' if ok else 'the emitted want row is not the alignment blanks followed by the line itself', anchor=FP)
    for h in heads:
        init = [n for n in g.nodes if n.kind == 'for_init' and n.stmt is h.ast][0]
        subj = h.ast.iter.func.value
        bad = []

        def walk(node, e, depth=0):
            if depth > 6:
                bad.append('derivation too deep')
                return
            if isinstance(e, ast.Attribute) and is_name(e.value, recv) and e.attr == 'want':
                return
            if isinstance(e, ast.Constant) and e.value == '':
                return
            if isinstance(e, ast.IfExp):
                walk(node, e.body, depth + 1)
                walk(node, e.orelse, depth + 1)
                return
            if isinstance(e, ast.BoolOp) and isinstance(e.op, ast.Or):
                for v in e.values:
                    walk(node, v, depth + 1)
                return
            if isinstance(e, ast.Name):
                ds = rd.at(node, e.id)
                if not ds:
                    bad.append('%s has no definition' % e.id)
                for d in ds:
                    if d.kind == 'assign' and isinstance(d.value, ast.AST):
                        walk(d.node, d.value, depth + 1)
                    else:
                        bad.append('%s defined by %s' % (e.id, d.kind))
                return
            bad.append(ctx.src(e, 60))
        walk(init, subj)
        rep.ob('C18.R2b', ctx.loc(f, h.ast), 'want lines <- %s' % ctx.src(h.ast.iter), not bad,
               'the lines are those of self.want, unmodified' if not bad else
               'the want text is rewritten before it is displayed (%s): a displayed want line differs from the want line of the doctest' % '; '.join(bad), anchor=FP)
        # the line itself goes through the indentation format only
        for n in g.nodes:
            if n.dup or not graph.in_loop_body(n, h.ast):
                continue
            for c in node_calls(n):
                if isinstance(c.func, ast.Attribute) and c.func.attr == 'append' and is_name(c.func.value, 'want_lines') and c.args:
                    a = c.args[0]
                    lv = h.ast.target.id if isinstance(h.ast.target, ast.Name) else None
                    ok = is_name(a, lv) or (isinstance(a, ast.Call) and isinstance(a.func, ast.Attribute) and a.func.attr == 'format' and is_name(a.func.value, 'want_fmt') and
                                            len(a.keywords) == 1 and is_name(a.keywords[0].value, lv) and not a.args)
                    rep.ob('C18.R2b', ctx.loc(f, c), ctx.src(c), ok, 'the line is emitted as it is (after the alignment blanks)' if ok else 'the emitted want line is not the line itself', nontrivial=False, anchor=FP)


def r3_formatting_is_read_only(ctx):
    """displaying a part never changes it: format_part stores to no field of the part and mutates no list that may alias one
    (a later run / format / dump of the same DocTest would otherwise see wants mixed into the executable lines)"""
    rep = ctx.rep
    f = ctx.func(FP)
    g = ctx.cfg(f)
    rd = ctx.rd(f)
    recv = f.node.args.args[0].arg
    n_checked = 0
    MUT = ('append', 'extend', 'insert', 'remove', 'pop', 'clear', 'sort', 'reverse')

    def may_alias_field(node, name, depth=0):
        """field texts the local may alias (assigned from self.<attr> without a copy)"""
        out = set()
        if depth > 4:
            return out
        for d in rd.at(node, name):
            v = d.value
            if d.kind != 'assign' or not isinstance(v, ast.AST):
                continue
            for alt in ([v.body, v.orelse] if isinstance(v, ast.IfExp) else ([*v.values] if isinstance(v, ast.BoolOp) else [v])):
                if isinstance(alt, ast.Attribute) and is_name(alt.value, recv):
                    out.add(recv + '.' + alt.attr)
                elif isinstance(alt, ast.Name):
                    out |= may_alias_field(d.node, alt.id, depth + 1)
        return out
    for n in g.nodes:
        if n.kind != 'stmt' or n.dup:
            continue
        st = n.ast
        targets = []
        if isinstance(st, ast.Assign):
            targets = st.targets
        elif isinstance(st, (ast.AugAssign, ast.AnnAssign)):
            targets = [st.target]
        for t in targets:
            for tt in ([t] if not isinstance(t, (ast.Tuple, ast.List)) else t.elts):
                base = tt.value if isinstance(tt, ast.Subscript) else tt
                if isinstance(base, ast.Attribute) and is_name(base.value, recv):
                    n_checked += 1
                    rep.ob('C18.R3', ctx.loc(f, st), ctx.src(st), False, 'format_part writes the field %s.%s of the part it displays' % (recv, base.attr), anchor=FP)
                elif isinstance(st, ast.AugAssign) and isinstance(tt, ast.Name):
                    al = may_alias_field(n, tt.id)
                    n_checked += 1
                    rep.ob('C18.R3', ctx.loc(f, st), ctx.src(st), not al,
                           'the augmented local is a fresh object' if not al else
                           '`%s` may be the list object %s itself (assigned without a copy): the in-place %s changes the part that is being displayed' % (tt.id, sorted(al), ctx.src(st)), anchor=FP)
        for c in node_calls(n):
            if isinstance(c.func, ast.Attribute) and c.func.attr in MUT:
                b = c.func.value
                if isinstance(b, ast.Attribute) and is_name(b.value, recv):
                    n_checked += 1
                    rep.ob('C18.R3', ctx.loc(f, c), ctx.src(c), False, 'format_part mutates the field %s.%s' % (recv, b.attr), anchor=FP)
                elif isinstance(b, ast.Name):
                    al = may_alias_field(n, b.id)
                    n_checked += 1
                    rep.ob('C18.R3', ctx.loc(f, c), ctx.src(c), not al, 'the mutated local is a fresh list' if not al else
                           '`%s` may be the list object %s itself: %s changes the part that is being displayed' % (b.id, sorted(al), ctx.src(c)), nontrivial=bool(al), anchor=FP)
    rep.note('read_only_sites_checked', n_checked)


def r5_explicit_options_win(ctx):
    """the numbering mode (file-relative or doctest-relative), colouring ... requested by the CALLER of a formatting function wins over the
    configured default; the merge is by `is None` (DoctestConfig.getvalue), never by truthiness -- `opt or config[...]` turns an explicit False
    back into the configured True"""
    from .common import falsy_override_sites
    rep = ctx.rep
    n = 0
    for q in ('xdoctest.doctest_example.DocTest.format_parts', 'xdoctest.doctest_example.DocTest.format_src', 'xdoctest.doctest_example.DocTest.repr_failure',
              'xdoctest.doctest_example.DocTest.run', 'xdoctest.doctest_example.DocTest._color'):
        f = ctx.func(q)
        gets = [c for c in ast.walk(f.node) if isinstance(c, ast.Call) and isinstance(c.func, ast.Attribute) and c.func.attr == 'getvalue' and len(c.args) == 2]
        n += len(gets)
        for (x, p_, e) in falsy_override_sites(f):
            rep.ob('C18.R5', ctx.loc(f, x), ctx.src(x, 80), False,
                   'the optional argument `%s` is merged with the configuration by truthiness: an explicit %s=False of the caller is replaced by the configured value '
                   '(e.g. file-relative line numbers are shown although doctest-relative ones were requested)' % (p_, p_), anchor=q)
        for c in gets:
            rep.ob('C18.R5', ctx.loc(f, c), ctx.src(c, 70), True, 'merged by `is None` (getvalue)', nontrivial=False, anchor=q)
    rep.floor('C18.R5', 'option merges through getvalue in the formatting / run functions', n, 3)
    # every optional argument of format_parts that names a configuration key is merged with it (an unmerged None would silently mean "off")
    fp = ctx.func('xdoctest.doctest_example.DocTest.format_parts')
    fc = ctx.func('xdoctest.doctest_example.DoctestConfig.__init__')
    keys = {k.value for x in ast.walk(fc.node) if isinstance(x, ast.Dict) for k in x.keys if isinstance(k, ast.Constant) and isinstance(k.value, str)}
    a = fp.node.args
    dflt = dict(zip([x.arg for x in a.args[len(a.args) - len(a.defaults):]], a.defaults))
    for pname, d in sorted(dflt.items()):
        if isinstance(d, ast.Constant) and d.value is None and pname in keys:
            merged = [c for c in ast.walk(fp.node) if isinstance(c, ast.Call) and isinstance(c.func, ast.Attribute) and c.func.attr == 'getvalue' and len(c.args) == 2
                      and isinstance(c.args[0], ast.Constant) and c.args[0].value == pname and is_name(c.args[1], pname)]
            stored = [x for x in ast.walk(fp.node) if isinstance(x, ast.Assign) and any(is_name(t, pname) for t in x.targets) and any(c is x.value for c in merged)]
            rep.ob('C18.R5', ctx.loc(fp, fp.node), "format_parts: %s = config.getvalue('%s', %s)" % (pname, pname, pname), bool(stored),
                   'the configured value applies when the caller passes None' if stored else
                   'the optional argument `%s` is never merged with config[%r]: left at None it means "off", so a configured %s (e.g. --offset) has no effect on the displayed text' % (pname, pname, pname),
                   anchor=fp.qualname)

    # the merged value is what the function works with: every other read of such a parameter comes after its merge (a read before it sees the
    # caller's None, i.e. "off", whatever the configuration says)
    gp = ctx.cfg(fp)
    rdp = ctx.rd(fp)
    for pname, d in sorted(dflt.items()):
        if not (isinstance(d, ast.Constant) and d.value is None and pname in keys):
            continue
        early = []
        for n in gp.nodes:
            if n.dup or not isinstance(n.ast, ast.AST) or n.kind in ('for_init',):
                continue
            scope_ = n.ast.test if n.kind == 'test' and hasattr(n.ast, 'test') else n.ast
            for x in ast.walk(scope_ if n.kind != 'for' else n.ast.iter):
                if isinstance(x, ast.Name) and x.id == pname and isinstance(x.ctx, ast.Load):
                    # inside the merge itself?
                    if isinstance(n.ast, ast.Assign) and isinstance(n.ast.value, ast.Call) and isinstance(n.ast.value.func, ast.Attribute) and n.ast.value.func.attr == 'getvalue' and \
                            any(x is y for y in ast.walk(n.ast.value)):
                        continue
                    if any(dd.kind == 'param' for dd in rdp.at(n, pname)):
                        early.append((n, x))
        if not early:
            rep.ob('C18.R5', ctx.loc(fp, fp.node), 'format_parts: every read of `%s` comes after its merge' % pname, True, 'no use sees the unmerged argument', nontrivial=False, anchor=fp.qualname)
        for (n, x) in early[:1]:
            rep.ob('C18.R5', ctx.loc(fp, x), 'format_parts reads `%s` before it is merged with the configuration' % pname, False,
                   '`%s` is read at `%s` while it can still be the caller\'s None: the configured %s (e.g. --offset) does not reach this use, so the displayed numbers ignore the '
                   'configuration when the argument is left out' % (pname, ctx.src(n.ast, 60), pname), anchor=fp.qualname)
    # ... and a function that hands its OWN optional argument on to such a parameter must leave it at None by default as well: a literal
    # default (False) is an explicit value by the time it arrives, and the configured value never applies
    merged_params = {pname for pname, d in dflt.items() if isinstance(d, ast.Constant) and d.value is None and pname in keys}
    pos_names = [x.arg for x in a.args]
    for fq, fn in sorted(ctx.prog.funcs.items()):
        if fn is fp or fn.module is not fp.module:
            continue
        own = {x.arg: dd for x, dd in zip(fn.node.args.args[len(fn.node.args.args) - len(fn.node.args.defaults):], fn.node.args.defaults)}
        for c in ast.walk(fn.node):
            if not (isinstance(c, ast.Call) and isinstance(c.func, ast.Attribute) and c.func.attr == 'format_parts'):
                continue
            passed = {k.arg: k.value for k in c.keywords if k.arg}
            for i, arg in enumerate(c.args):
                if i + 1 < len(pos_names):
                    passed[pos_names[i + 1]] = arg
            for q_, v in passed.items():
                if q_ in merged_params and isinstance(v, ast.Name) and v.id in own:
                    dflt_ok = isinstance(own[v.id], ast.Constant) and own[v.id].value is None
                    rep.ob('C18.R5', ctx.loc(fn, c), '%s: %s=%s (default %s)' % (fn.node.name, q_, v.id, ctx.src(own[v.id])), dflt_ok,
                           'left at None the configured value applies' if dflt_ok else
                           '`%s` hands its argument `%s` (default %s) on to format_parts(%s=...), where only None means "use the configuration": a caller that does not pass it never gets the '
                           'configured %s (e.g. --offset has no effect on this listing)' % (fn.node.name, v.id, ctx.src(own[v.id]), q_, q_), anchor=fq)
    # the merge itself, evaluated over the values a caller may pass (FINITE-EVAL)
    gq = 'xdoctest.doctest_example.DoctestConfig.getvalue'
    gf = ctx.func(gq)
    gg = ctx.cfg(gf)
    gdom = ctx.dom(gg, gg.entry)
    pnames = [x.arg for x in gf.node.args.args]
    need(len(pnames) == 3, 'C18.R5: getvalue(self, key, given) not found')
    given = pnames[2]
    rets = [n for n in gg.nodes if n.kind == 'stmt' and not n.dup and isinstance(n.ast, ast.Return) and n.ast.value is not None]
    rep.floor('C18.R5', 'returns of DoctestConfig.getvalue', len(rets), 2)

    def gev(e, v):
        if isinstance(e, ast.Constant):
            return e.value
        if is_name(e, given):
            return v
        if isinstance(e, ast.UnaryOp) and isinstance(e.op, ast.Not):
            return not gev(e.operand, v)
        if isinstance(e, ast.BoolOp):
            vs = [bool(gev(x, v)) for x in e.values]
            return all(vs) if isinstance(e.op, ast.And) else any(vs)
        if isinstance(e, ast.Compare) and len(e.ops) == 1:
            l, r = gev(e.left, v), gev(e.comparators[0], v)
            op = e.ops[0]
            if isinstance(op, ast.Is):
                return l is r
            if isinstance(op, ast.IsNot):
                return l is not r
            if isinstance(op, ast.Eq):
                return l == r
            if isinstance(op, ast.NotEq):
                return l != r
        raise AnalysisError('C18.R5: a condition of getvalue was not recognised: %s' % ast.unparse(e))
    rows = []
    for v in (None, False, 0, '', True, 1, 'x'):
        hit = [n for n in rets if all(bool(gev(fa.expr, v)) == fa.polarity for fa in graph.guard_facts(gdom, n) if fa.polarity in (True, False) and isinstance(fa.expr, ast.AST))]
        need(len(hit) == 1, 'C18.R5: getvalue(%r) does not reach exactly one return' % (v,))
        gives = 'given' if is_name(hit[0].ast.value, given) else 'config'
        if gives != ('config' if v is None else 'given'):
            rows.append((v, gives, hit[0]))
    rep.ob('C18.R5', ctx.loc(gf, rows[0][2].ast if rows else gf.node), 'getvalue(key, given) over given in None, False, 0, \'\', True, 1, \'x\'', not rows,
           'the configured value is used exactly when the caller passed None' if not rows else
           'getvalue(key, %r) returns the %s value: an explicit falsy option of the caller (colored=False, offset_linenos=False, verbose=0) is replaced by the configured one' %
           (rows[0][0], 'configured' if rows[0][1] == 'config' else 'given'), anchor=gq)


def r6_continuation_prompt_pairing(ctx):
    """_complete_source yields (line as stored, line as the labeller sees it).  Where it inserts a continuation prompt into the stored line (body
    lines of a triple-quoted string written without prompt) the labeller's view must get the same prompt in the same block: otherwise the line is
    displayed as `... text` but labelled as a new statement, and the formatted doctest no longer re-parses to the same parts"""
    rep = ctx.rep
    f = ctx.func('xdoctest.parser._complete_source')
    ys = [y for y in ast.walk(f.node) if isinstance(y, ast.Yield) and isinstance(y.value, ast.Tuple) and len(y.value.elts) == 2 and all(isinstance(e, ast.Name) for e in y.value.elts)]
    need(ys, 'C18.R6: _complete_source does not yield (stored line, normalised line) pairs')
    stored, seen = {y.value.elts[0].id for y in ys}, {y.value.elts[1].id for y in ys}
    n = 0
    for blk in ast.walk(f.node):
        for body in (getattr(blk, 'body', None), getattr(blk, 'orelse', None)):
            if not isinstance(body, list):
                continue
            ins = [st for st in body if isinstance(st, ast.Assign) and len(st.targets) == 1 and isinstance(st.targets[0], ast.Name) and st.targets[0].id in stored
                   and any(isinstance(c, ast.Constant) and isinstance(c.value, str) and c.value.strip() == '...' for c in ast.walk(st.value))]
            for st in ins:
                n += 1
                twin = [t for t in body if isinstance(t, ast.Assign) and len(t.targets) == 1 and isinstance(t.targets[0], ast.Name) and t.targets[0].id in seen
                        and any(isinstance(c, ast.Constant) and isinstance(c.value, str) and c.value.strip() == '...' for c in ast.walk(t.value))]
                rep.ob('C18.R6', ctx.loc(f, st), ctx.src(st, 80), bool(twin),
                       'the labeller\'s view of the line gets the same continuation prompt (%s)' % ctx.src(twin[0], 50) if twin else
                       'a continuation prompt is inserted into the stored line but not into the line the labeller tests: the line is shown as `... text` yet labelled as the start of a '
                       'new statement, so the displayed doctest groups (and evaluates) differently when it is parsed again', anchor=f.qualname)
    rep.floor('C18.R6', 'continuation prompts inserted by _complete_source', n, 1)
    # what follows the inserted prompt is the WHOLE text of the line (the line minus its indentation), not the line minus the four columns
    # where a prompt would have been: the un-prompted line has no prompt to cut
    rdc = ctx.rd(f)
    gcs = ctx.cfg(f)
    for node in gcs.nodes:
        st = node.ast
        if node.dup or node.kind != 'stmt' or not (isinstance(st, ast.Assign) and len(st.targets) == 1 and isinstance(st.targets[0], ast.Name) and isinstance(st.value, ast.BinOp)):
            continue
        parts_ = []

        def flat(e):
            if isinstance(e, ast.BinOp) and isinstance(e.op, ast.Add):
                flat(e.left)
                flat(e.right)
            else:
                parts_.append(e)
        flat(st.value)
        idx = [i for i, e in enumerate(parts_) if isinstance(e, ast.Constant) and isinstance(e.value, str) and e.value.strip() == '...']
        if not idx or idx[0] + 1 >= len(parts_):
            continue
        tail = parts_[idx[0] + 1]
        if not isinstance(tail, ast.Name):
            continue
        ds = [d for d in rdc.at(node, tail.id) if isinstance(d.value, ast.AST)]
        # the text after the prompt: a slice that starts at the indentation (whole line) is right, a slice that starts at a constant column cuts text
        cuts = [d for d in ds if isinstance(d.value, ast.Subscript) and isinstance(d.value.slice, ast.Slice) and isinstance(d.value.slice.lower, ast.Constant)
                and isinstance(d.value.slice.lower.value, int) and d.value.slice.lower.value > 0]
        # ... and it is the line WITHOUT its indentation (the indentation is already in front of the prompt): the raw line would repeat it
        head_slices = [e for e in parts_[:idx[0]] if isinstance(e, ast.Subscript) and isinstance(e.slice, ast.Slice) and e.slice.lower is None and isinstance(e.value, ast.Name)]
        raw = bool(head_slices) and tail.id == head_slices[0].value.id
        ok_ = not cuts and not raw
        rep.ob('C18.R6', ctx.loc(f, st), ctx.src(st, 90), ok_,
               'the inserted prompt is followed by the whole text of the line' if ok_ else
               ('the text put after the inserted `... ` is `%s` = `%s`: the first %d characters of an un-prompted line (which has no prompt there) are cut off, so a line of a '
                'triple-quoted string loses text in the stored and in the displayed source' % (tail.id, ctx.src(cuts[0].value), cuts[0].value.slice.lower.value) if cuts else
                'the text put after the inserted `... ` is the raw line `%s`, whose indentation was already placed in front of the prompt: every un-prompted line of a triple-quoted '
                'string gains the indentation of the example a second time, so the string the doctest builds is not the one that was written' % tail.id), anchor=f.qualname)
    # the branch that accepts an un-prompted body line of an open triple-quoted string is live and does accept: it is reachable when constant
    # switches are taken into account, and from it the "bad indentation" raise cannot be reached before the line is yielded
    g = ctx.cfg(f)
    reach, _ = graph.env_search([g.entry], None, efilter=graph.normal_only)
    rids = set(id(x) for x in reach)
    for blk in ast.walk(f.node):
        for body in (getattr(blk, 'body', None), getattr(blk, 'orelse', None)):
            if not isinstance(body, list):
                continue
            for st in body:
                if isinstance(st, ast.Assign) and len(st.targets) == 1 and isinstance(st.targets[0], ast.Name) and st.targets[0].id in stored \
                        and any(isinstance(c, ast.Constant) and isinstance(c.value, str) and c.value.strip() == '...' for c in ast.walk(st.value)):
                    nodes = [x for x in g.nodes_containing(st) if not x.dup]
                    live = any(id(x) in rids for x in nodes)
                    raises = [x for x in g.nodes if x.kind == 'stmt' and isinstance(x.ast, ast.Raise) and not x.dup]
                    ys = [x for x in g.nodes if x.kind == 'stmt' and not x.dup and any(isinstance(y, ast.Yield) for y in ast.walk(x.ast))]
                    _, bad = graph.env_search([y for x in nodes for y in x.nsucc()], lambda x: any(x is r_ for r_ in raises), efilter=graph.normal_only, stop=ys) if nodes else (None, None)
                    ok = live and bad is None
                    rep.ob('C18.R6', ctx.loc(f, st), 'un-prompted line of an open triple-quoted string is accepted', ok,
                           'the branch is live and leads to the yield of the line' if ok else
                           ('the branch that completes a triple-quoted string over un-prompted lines is switched off by a constant: such doctests no longer parse' if not live else
                            'after the continuation prompt was inserted the line is still rejected as badly indented (the error flag is not cleared): doctests with un-prompted lines '
                            'inside a triple-quoted string no longer parse'), anchor=f.qualname)


def r7_formatting_options_are_forwarded(ctx):
    """CONFIG-FLOW: format_src -> format_parts -> format_part hand the formatting options on by name.  An option of the caller that the callee
    also has and that is not passed falls back to the callee's default: `format_src(want=False)` would show the wants, `prefix=False` the prompts"""
    rep = ctx.rep
    chain = [('xdoctest.doctest_example.DocTest.format_src', 'xdoctest.doctest_example.DocTest.format_parts'),
             ('xdoctest.doctest_example.DocTest.format_parts', 'xdoctest.doctest_part.DoctestPart.format_part')]
    n = 0
    for (qa, qb) in chain:
        fa_, fb = ctx.func(qa), ctx.func(qb)
        pa = [a.arg for a in fa_.node.args.args[1:] + fa_.node.args.kwonlyargs]
        pb = [a.arg for a in fb.node.args.args[1:] + fb.node.args.kwonlyargs]
        calls = [c for c in walk_scope(fa_.node) if isinstance(c, ast.Call) and isinstance(c.func, ast.Attribute) and c.func.attr == fb.name]
        need(calls, 'C18.R7: %s does not call %s' % (fa_.name, fb.name))
        locals_ = {x.id for x in walk_scope(fa_.node) if isinstance(x, ast.Name) and isinstance(x.ctx, ast.Store)}
        for c in calls:
            passed = {k.arg for k in c.keywords if k.arg} | set(pb[:len(c.args)])
            for opt in pb:
                if opt in pa or opt in locals_:
                    n += 1
                    ok = opt in passed
                    rep.ob('C18.R7', ctx.loc(fa_, c), '%s -> %s(%s=...)' % (fa_.name, fb.name, opt), ok,
                           'handed on' if ok else
                           'the option `%s` of %s is not handed on to %s: the callee falls back to its own default, whatever the caller asked for' % (opt, fa_.name, fb.name), anchor=qa)
    rep.floor('C18.R7', 'formatting options shared along the chain', n, 6)


def r8_parts_exist_before_they_are_formatted(ctx):
    """MUST-PASS: the parts of a doctest are created lazily by `_parse()`.  A function that walks `self._parts` to display (or run) them calls
    `self._parse()` first on every path -- formatting an unparsed doctest would silently show nothing"""
    rep = ctx.rep
    n = 0
    for q in ('xdoctest.doctest_example.DocTest.format_parts', RUN_Q):
        f = ctx.func(q)
        g = ctx.cfg(f)
        recv = f.node.args.args[0].arg
        loops = [x for x in g.nodes if x.kind == 'for' and not x.dup and any(isinstance(y, ast.Attribute) and y.attr == '_parts' and is_name(y.value, recv) for y in ast.walk(x.ast.iter))]
        parses = [x for x in g.nodes if not x.dup for c in node_calls(x) if isinstance(c.func, ast.Attribute) and c.func.attr == '_parse' and is_name(c.func.value, recv)]
        # ... or the body of _parse expanded in place by the loader
        parses += [x for x in g.nodes if not x.dup and isinstance(x.ast, ast.AST) and getattr(x.ast, '_inlined_from', None) == '_parse']
        parses += [x for x in g.nodes if not x.dup and x.kind in ('stmt', 'test') and isinstance(x.ast, ast.AST) and any(getattr(y, '_inlined_from', None) == '_parse' for y in [getattr(x.ast, '_parent', None)] if y is not None)]
        for lp in loops:
            n += 1
            wit = graph.must_pass([g.entry], lambda x: x is lp, through=parses, efilter=graph.normal_only)
            rep.ob('C18.R8', ctx.loc(f, lp.ast), '%s: self._parse() before the loop over self._parts' % f.name, wit is None,
                   'the parts exist when they are walked' if wit is None else
                   'the loop over self._parts can be reached without self._parse(): for a doctest that was not parsed yet nothing is displayed / run', anchor=q)
    rep.floor('C18.R8', 'loops over self._parts in format_parts and run', n, 2)


# ---------------------------------------------------------------------------
from ..selftest import fire, silent      # noqa: E402

DE = 'xdoctest/doctest_example.py'
DP = 'xdoctest/doctest_part.py'
US = 'xdoctest/utils/util_str.py'
VARIANTS = [
    fire('inserted-prompt-followed-by-the-raw-line', 'C18.R6', ('xdoctest/parser.py', "                        next_line = next_line[:state_indent] + '... ' + norm_line\n", "                        next_line = next_line[:state_indent] + '... ' + next_line\n")),
    fire('inserted-prompt-followed-by-the-cut-line', 'C18.R6', ('xdoctest/parser.py', "                        next_line = next_line[:state_indent] + '... ' + norm_line\n", "                        next_line = next_line[:state_indent] + '... ' + suffix\n")),
    fire('options-merged-after-the-numbering-was-computed', 'C18.R5', (DE, "        colored = self.config.getvalue('colored', colored)\n        partnos = self.config.getvalue('partnos')\n        offset_linenos = self.config.getvalue('offset_linenos', offset_linenos)\n\n        n_digits = None\n", '\n        n_digits = None\n'), (DE, '            n_digits = int(math.ceil(n_digits))\n\n        for part in self._parts:\n            part_text = part.format_part(', "            n_digits = int(math.ceil(n_digits))\n\n        colored = self.config.getvalue('colored', colored)\n        partnos = self.config.getvalue('partnos')\n        offset_linenos = self.config.getvalue('offset_linenos', offset_linenos)\n        for part in self._parts:\n            part_text = part.format_part(")),
    fire('format-src-default-is-an-explicit-value', 'C18.R5', (DE, "    def format_src(self, linenos=True, colored=None, want=True,\n                   offset_linenos=None, prefix=True):\n", "    def format_src(self, linenos=True, colored=None, want=True,\n                   offset_linenos=False, prefix=True):\n")),
    fire('getvalue-merges-by-truthiness', 'C18.R5', (DE, "        if given is None:\n            return self[key]\n", "        if not given:\n            return self[key]\n")),
    silent('getvalue-early-return', (DE, "        if given is None:\n            return self[key]\n        else:\n            return given\n", "        if given is not None:\n            return given\n        return self[key]\n")),
    fire('format-before-parse', 'C18.R8', (DE, "        self._parse()\n        colored = self.config.getvalue('colored', colored)\n", "        colored = self.config.getvalue('colored', colored)\n")),
    fire('configured-offset-never-merged', 'C18.R5', (DE, "        offset_linenos = self.config.getvalue('offset_linenos', offset_linenos)\n", "        pass\n")),
    fire('prefix-option-not-forwarded', 'C18.R7', (DE, "                                         n_digits=n_digits, prefix=prefix,\n", "                                         n_digits=n_digits,\n")),
    fire('triple-quote-completion-switched-off', 'C18.R6', ('xdoctest/parser.py', "HACK_TRIPLE_QUOTE_FIX = True", "HACK_TRIPLE_QUOTE_FIX = False")),
    fire('triple-quote-line-still-rejected', 'C18.R6', ('xdoctest/parser.py', "                        suffix = norm_line\n                        error = False\n", "                        suffix = norm_line\n")),
    fire('explicit-numbering-mode-overridden-by-config', 'C18.R5', (DE, "        offset_linenos = self.config.getvalue('offset_linenos', offset_linenos)\n", "        offset_linenos = offset_linenos or self.config['offset_linenos']\n")),
    fire('continuation-prompt-not-seen-by-the-labeller', 'C18.R6', ('xdoctest/parser.py', "                        norm_line = '... ' + norm_line\n", "")),
    fire('want-text-stripped', 'C18.R2b', (DP, "        want_text = self.want if self.want else ''\n", "        want_text = (self.want or '').strip()\n")),
    fire('want-lines-appended-into-exec-lines', 'C18.R3', (DP, "        part_lines = src_text.splitlines()\n", "        part_lines = src_text.splitlines() if prefix else self.exec_lines\n"), (DP, "        part_text = '\\n'.join(part_lines)\n", "        part_lines += want_lines\n        part_text = '\\n'.join(part_lines)\n")),
    silent('want-text-or-form', (DP, "        want_text = self.want if self.want else ''\n", "        want_text = self.want or ''\n")),
    fire('numbering-ignores-part-offset', 'C18.R1', (DP, "            start = startline + self.line_offset\n", "            start = startline\n")),
    fire('numbering-off-by-one', 'C18.R1', (DP, "            start = startline + self.line_offset\n", "            start = startline + self.line_offset + 1\n")),
    fire('file-relative-starts-at-one', 'C18.R1', (DE, "            if offset_linenos:\n                startline = self.lineno\n", "            if offset_linenos:\n                startline = 1\n")),
    fire('doctest-relative-starts-at-zero', 'C18.R1', (DE, "        n_digits = None\n        startline = 1\n", "        n_digits = None\n        startline = 0\n")),
    fire('enumerate-from-one', 'C18.R1', (US, "        for count, line in enumerate(part_lines, start=start)\n", "        for count, line in enumerate(part_lines, start=1)\n")),
    fire('want-lines-always-shown', 'C18.R2', (DP, "                if want:\n                    want_lines.append(want_fmt.format(line=line))\n", "                want_lines.append(want_fmt.format(line=line))\n")),
    fire('want-line-duplicated', 'C18.R2', (DP, "                    want_lines.append(want_fmt.format(line=line))\n", "                    want_lines.append(want_fmt.format(line=line))\n                    want_lines.append(want_fmt.format(line=line))\n")),
    fire('source-from-exec-lines-with-prefix', 'C18.R2', (DP, "                src_text = '\\n'.join(self.orig_lines)\n", "                src_text = '\\n'.join(self.orig_lines[:1])\n")),
    silent('start-sum-commuted', (DP, "            start = startline + self.line_offset\n", "            start = self.line_offset + startline\n")),
]
