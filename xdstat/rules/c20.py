"""
C20 -- backwards compatibility with the standard doctest module (narrow structural claim).

Equivalence with the stdlib over all programs is not decided (no executable
oracle in this family).  Decided: the syntactic acceptance table and the
REPL-compatibility switches that the compatibility rests on.
"""
import ast
import re as _re

from ..context import need
from ..loader import AnalysisError
from .. import graph, consts
from ..roles import node_calls, run_roles, RUN
from .common import fmt_facts, is_name, const_str, run_as

EXPLANATION = (
    'Narrow static rule conformance. R1 the directive pattern (folded from its pieces) accepts the standard `doctest:` prefix next to `xdoctest:` / `xdoc:`, '
    'case-insensitively, on a finite set of sample comments. R2 the four option directives of the property (SKIP, ELLIPSIS, NORMALIZE_WHITESPACE, '
    'IGNORE_EXCEPTION_DETAIL) and DONT_ACCEPT_BLANKLINE are keys of the default run state (so they are known commands), with defaults that never accept less than '
    'the standard module with no flags (SKIP off, DONT_ACCEPT_BLANKLINE off); an unknown option only warns. R3 `+NAME` / `-NAME` / bare `NAME` are parsed to (name, polarity) and a '
    'plain flag yields one assign effect of that polarity. R4 a bare `...` line directly after a continuation line stays source, after a prompt line it starts the want. '
    'R5 an example written in the old style (one prompt line followed only by continuation lines) is grouped alone and compiled in `single` mode, and a `single` part is '
    'executed (not evaluated) so that the REPL echo of its value goes to the captured stdout. R6 REPL display: when a statement both prints and returns a value the standard '
    'module shows the concatenation; some comparison in check_got_vs_want must use stdout followed by the repr of the value (reported today as known finding F6). '
    'R7 expected tracebacks: the clauses of C03.R2 (a matching traceback want is accepted). '
    'That every doctest the standard module passes also passes here is not decided.'
    ' R3 the polarity is evaluated concretely for the three sign classes (+NAME, -NAME, NAME) along the paths to the Directive construction.')
DECIDES = ['REGEX-FACT accepted directive prefixes', 'TABLE-AGREE option names and defaults', 'polarity parsing', 'bare-continuation transition', 'old-style grouping and single mode',
           'REPL display concatenation (F6)', 'expected traceback acceptance']
NOT_DECIDED = ['behavioural equivalence with the stdlib doctest on all programs', 'output comparison details (decided clause-wise under C05/C06)']

DIRMOD = 'xdoctest.directive'
PDO = 'xdoctest.directive.parse_directive_optstr'
EFF = 'xdoctest.directive.Directive.effects'
LABEL = 'xdoctest.parser.DoctestParser._label_docsrc_lines'
LOC = 'xdoctest.parser.DoctestParser._locate_ps1_linenos'
GROUP = 'xdoctest.parser.DoctestParser._group_labeled_lines'
CGW = 'xdoctest.checker.check_got_vs_want'

STD_OPTIONS = ('SKIP', 'ELLIPSIS', 'NORMALIZE_WHITESPACE', 'IGNORE_EXCEPTION_DETAIL')


def run(ctx):
    for fn in (r1_prefix, r2_option_table, r3_polarity, r4_bare_continuation, r5_old_style_single, r6_repl_display, r7_expected_tracebacks, r8_future_flags_after_module_globals):
        ctx.rep.rule(fn, ctx)


def r1_prefix(ctx):
    rep = ctx.rep
    fold = consts.Folder(ctx.prog)
    mod = ctx.prog.module(DIRMOD)
    # DIRECTIVE_RE = re.compile('|'.join(DIRECTIVE_PATTERNS), flags=re.IGNORECASE)
    node = mod.assigns.get('DIRECTIVE_RE')
    need(isinstance(node, ast.Call) and node.args, 'C20.R1: DIRECTIVE_RE is not a re.compile(...) call')
    try:
        pat = fold.fold(mod, node.args[0], None, None)
    except consts.NotConstant as ex:
        raise AnalysisError('C20.R1: directive pattern not foldable: %s' % ex)
    flags = 0
    fl = next((k.value for k in node.keywords if k.arg == 'flags'), node.args[1] if len(node.args) > 1 else None)
    if fl is not None:
        for x in ast.walk(fl):
            if isinstance(x, ast.Attribute) and x.attr in ('IGNORECASE', 'I'):
                flags |= _re.IGNORECASE
            elif isinstance(x, ast.Attribute) and x.attr in ('VERBOSE', 'X'):
                flags |= _re.VERBOSE
            elif isinstance(x, ast.Attribute) and x.attr in ('MULTILINE', 'M'):
                flags |= _re.MULTILINE
    rx = _re.compile(pat, flags)
    # how the pattern is applied: DIRECTIVE_RE.match(comment[1:].strip())
    samples = [('doctest: +SKIP', True), ('doctest:+ELLIPSIS', True), ('doctest: +NORMALIZE_WHITESPACE', True), ('doctest: +IGNORE_EXCEPTION_DETAIL', True),
               ('DOCTEST: +SKIP', True), ('xdoctest: +SKIP', True), ('xdoc: +SKIP', True), ('a plain comment', False), ('doctests are great', False)]
    bad = []
    for text, want in samples:
        m = rx.match(text)
        got = bool(m) and any(v for v in m.groupdict().values())
        if got != want:
            bad.append((text, got))
    rep.ob('C20.R1', ctx.mloc(mod, node), 'DIRECTIVE_RE = %r' % pat, not bad,
           'standard `# doctest: +OPTION` comments are recognised as directives (9 sample comments)' if not bad else
           'the directive pattern decides wrongly for %s: option directives written for the standard doctest module are ignored (or prose is taken for a directive)' % bad, anchor=DIRMOD)
    # the option text is taken from a named group of the match
    f = ctx.func('xdoctest.directive.Directive.extract')
    uses = [c for c in ast.walk(f.node) if isinstance(c, ast.Call) and isinstance(c.func, ast.Attribute) and c.func.attr == 'groupdict']
    rep.ob('C20.R1', ctx.loc(f, uses[0] if uses else f.node), 'option text read from the named groups', bool(uses), 'm.groupdict()' if uses else 'the matched option text is not read from the pattern groups', nontrivial=False, anchor=f.qualname)


def r2_option_table(ctx):
    rep = ctx.rep
    fold = consts.Folder(ctx.prog)
    default = fold.module_const(DIRMOD, 'DEFAULT_RUNTIME_STATE')
    need(isinstance(default, dict), 'C20.R2: DEFAULT_RUNTIME_STATE is not a foldable dict literal')
    mod = ctx.prog.module(DIRMOD)
    node = mod.assigns['DEFAULT_RUNTIME_STATE']
    for name in STD_OPTIONS + ('DONT_ACCEPT_BLANKLINE',):
        rep.ob('C20.R2', ctx.mloc(mod, node), 'option %s known' % name, name in default,
               'key of the default run state' if name in default else 'the standard option %s is not a key of the default run state: `# doctest: +%s` is an unknown directive' % (name, name), anchor=DIRMOD)
    for name, must in (('SKIP', False), ('DONT_ACCEPT_BLANKLINE', False)):
        if name in default:
            rep.ob('C20.R2', ctx.mloc(mod, node), 'default %s = %r' % (name, default[name]), default[name] is must,
                   'same as the standard module without flags' if default[name] is must else 'with this default a doctest that passes under the standard module without flags is skipped / compared more strictly', anchor=DIRMOD)
    # COMMANDS is built from the keys of the default state
    cn = mod.assigns.get('COMMANDS')
    ok = cn is not None and any(isinstance(x, ast.Name) and x.id == 'DEFAULT_RUNTIME_STATE' for x in ast.walk(cn))
    rep.ob('C20.R2', ctx.mloc(mod, cn) if cn is not None else 'src/%s:1' % mod.relpath, 'COMMANDS derives from the default state keys', ok, ctx.src(cn) if cn is not None else 'COMMANDS not found', nontrivial=False, anchor=DIRMOD)
    # unknown option: warning, no exception
    f = ctx.func(PDO)
    g = ctx.cfg(f)
    dom = ctx.dom(g, g.entry)
    raises = [n for n in g.nodes if n.kind == 'stmt' and isinstance(n.ast, ast.Raise) and not n.dup]
    rep.ob('C20.R2', ctx.loc(f, raises[0].ast if raises else f.node), 'an unknown option does not raise', not raises,
           'unknown options only warn (options of the standard module that are not supported do not break collection)' if not raises else 'parse_directive_optstr raises for some option text', anchor=PDO)


def r3_polarity(ctx):
    rep = ctx.rep
    f = ctx.func(PDO)
    g = ctx.cfg(f)
    rd = ctx.rd(f)
    dom = ctx.dom(g, g.entry)
    defs = rd.defs_of('positive')
    rep.floor('C20.R3', 'definitions of the polarity', len(defs), 1)
    optvar = f.node.args.args[0].arg

    class _Unknown(Exception):
        pass

    def cev(e, text):
        """concrete value of an expression over the option text"""
        if isinstance(e, ast.Constant):
            return e.value
        if is_name(e, optvar):
            return text
        if isinstance(e, (ast.Tuple, ast.List)):
            return tuple(cev(x, text) for x in e.elts)
        if isinstance(e, ast.UnaryOp) and isinstance(e.op, ast.Not):
            return not cev(e.operand, text)
        if isinstance(e, ast.BoolOp):
            vs = [cev(v, text) for v in e.values]
            return all(vs) if isinstance(e.op, ast.And) else any(vs)
        if isinstance(e, ast.IfExp):
            return cev(e.body, text) if cev(e.test, text) else cev(e.orelse, text)
        if isinstance(e, ast.Call) and isinstance(e.func, ast.Attribute) and e.func.attr in ('startswith', 'endswith') and len(e.args) == 1:
            return getattr(cev(e.func.value, text), e.func.attr)(cev(e.args[0], text))
        if isinstance(e, ast.Call) and isinstance(e.func, ast.Attribute) and e.func.attr in ('strip', 'lstrip') and not e.args:
            return getattr(cev(e.func.value, text), e.func.attr)()
        if isinstance(e, ast.Subscript):
            base = cev(e.value, text)
            if isinstance(e.slice, ast.Slice):
                lo = cev(e.slice.lower, text) if e.slice.lower is not None else None
                hi = cev(e.slice.upper, text) if e.slice.upper is not None else None
                if e.slice.step is None:
                    return base[lo:hi]
            else:
                return base[cev(e.slice, text)]
        if isinstance(e, ast.Compare) and len(e.ops) == 1:
            l, r = cev(e.left, text), cev(e.comparators[0], text)
            op = e.ops[0]
            if isinstance(op, ast.Eq):
                return l == r
            if isinstance(op, ast.NotEq):
                return l != r
            if isinstance(op, ast.In):
                return l in r
            if isinstance(op, ast.NotIn):
                return l not in r
        raise _Unknown(ast.unparse(e))
    cons_nodes = [n for n in g.nodes if not n.dup and n.kind == 'stmt' and any(is_name(c.func, 'Directive') for c in node_calls(n))]
    need(cons_nodes, 'C20.R3: no Directive construction in parse_directive_optstr')
    from collections import deque
    for text, spec, what in (('+SKIP', True, "'+' option"), ('-SKIP', False, "'-' option"), ('SKIP', True, 'bare option')):
        seen = set()
        got = {}
        work = deque([(g.entry, 'unset')])
        while work:
            n, pv = work.popleft()
            if (id(n), pv) in seen:
                continue
            seen.add((id(n), pv))
            if n.kind == 'stmt' and isinstance(n.ast, ast.Assign) and len(n.ast.targets) == 1 and is_name(n.ast.targets[0], 'positive'):
                try:
                    pv = bool(cev(n.ast.value, text))
                except _Unknown as ex:
                    raise AnalysisError('C20.R3: the polarity is computed by an expression this rule cannot evaluate: %s' % ex)
                except Exception:
                    pv = 'error'
            if any(n is c for c in cons_nodes):
                got.setdefault(pv, n)
            for (t, kind, tok) in n.succ:
                if kind != 'n':
                    continue
                if t.kind == 'branch' and t.attrs['test'].kind == 'test' and t.attrs['polarity'] in (True, False):
                    try:
                        tr = bool(cev(t.attrs['test'].ast, text))
                    except _Unknown:
                        tr = None
                    except Exception:
                        tr = None
                    if tr is not None and tr != t.attrs['polarity']:
                        continue
                work.append((t, pv))
        need(got, 'C20.R3: no Directive construction is reachable for a %s' % what)
        ok = set(got) == {spec}
        rep.ob('C20.R3', ctx.loc(f, next(iter(got.values())).ast), '%s: polarity %s' % (what, sorted(map(str, got))), ok,
               "'+' (or no sign) switches the option on, '-' off" if ok else 'a %s is parsed with polarity %s (must be %s)' % (what, sorted(map(str, got)), spec), anchor=PDO)
    # the Directive is built from (name, positive, ...)
    cons = [c for c in ast.walk(f.node) if isinstance(c, ast.Call) and is_name(c.func, 'Directive')]
    ok = bool(cons) and all(len(c.args) >= 2 and is_name(c.args[0], 'name') and is_name(c.args[1], 'positive') for c in cons)
    rep.ob('C20.R3', ctx.loc(f, cons[0] if cons else f.node), 'Directive(name, positive, ...)', ok, 'name and polarity handed on in order' if ok else 'name / polarity are not what the directive is built from', nontrivial=False, anchor=PDO)
    # effects(): a plain flag assigns its polarity
    fe = ctx.func(EFF)
    ge = ctx.cfg(fe)
    rde = ctx.rd(fe)
    recv = fe.node.args.args[0].arg
    # every Effect('assign', key, value) construction: value resolves to self.positive
    n_assign = 0
    for n in ge.nodes:
        if n.dup or n.kind != 'stmt':
            continue
        for c in node_calls(n):
            if not (is_name(c.func, 'Effect') and len(c.args) >= 3):
                continue

            def consts_of(e):
                if isinstance(e, ast.Constant):
                    return [e.value]
                if isinstance(e, ast.Name):
                    ds = rde.at(n, e.id)
                    if ds and all(isinstance(d.value, ast.Constant) for d in ds):
                        return [d.value.value for d in ds]
                return [None]
            if 'assign' not in consts_of(c.args[0]):
                continue
            n_assign += 1
            v = c.args[2]
            ok = isinstance(v, ast.Attribute) and v.attr == 'positive' and is_name(v.value, recv)
            if not ok and isinstance(v, ast.Name):
                ds = [d for d in rde.at(n, v.id)]
                # the definitions reaching together with action == 'assign': those made in the same block as the 'assign' store
                ok = any(isinstance(d.value, ast.Attribute) and d.value.attr == 'positive' and is_name(d.value.value, recv) for d in ds) and \
                    all((isinstance(d.value, ast.Attribute) and d.value.attr == 'positive') or (isinstance(d.value, ast.Constant) and d.value.value is None) or isinstance(d.value, ast.Name) for d in ds if isinstance(d.value, ast.AST))
            rep.ob('C20.R3', ctx.loc(fe, c), 'assign effect carries the polarity: ' + ctx.src(c), ok, 'value = self.positive' if ok else 'the assigned value is not the polarity of the directive', anchor=EFF)
    rep.floor('C20.R3', 'assign effects', n_assign, 1)


def r4_bare_continuation(ctx):
    rep = ctx.rep
    f = ctx.func(LABEL)
    g = ctx.cfg(f)
    rd = ctx.rd(f)
    heads = [n for n in g.nodes if n.kind == 'for' and not n.dup and not any(fr.kind == 'loop' for fr in n.frames)]
    head = heads[0]
    entry, cut = graph.region_of_loop(g, head)
    dom = ctx.dom(g, entry, cut)
    from .c13 import _state_constants
    consts_ = _state_constants(rd, f.module)      # local or module-level label names

    def val(e):
        return consts_.get(e.id) if isinstance(e, ast.Name) else (e.value if isinstance(e, ast.Constant) else None)

    def is_bare(fa):
        e = fa.expr
        return isinstance(e, ast.Compare) and len(e.ops) == 1 and isinstance(e.ops[0], ast.Eq) and const_str(e.comparators[0]) == '...'
    seen = {}
    for d in rd.defs_of('curr_state'):
        if d.node is g.entry or not dom.has(d.node):
            continue
        facts = graph.guard_facts(dom, d.node)
        if not any(is_bare(fa) and fa.polarity is True for fa in facts):
            continue
        prev_is_dcnt = [fa.polarity for fa in facts if isinstance(fa.expr, ast.Compare) and is_name(fa.expr.left, 'prev_state') and isinstance(fa.expr.ops[0], ast.Eq) and val(fa.expr.comparators[0]) == 'dcnt']
        seen[val(d.value)] = (d, prev_is_dcnt)
    ok_d = 'dcnt' in seen and seen['dcnt'][1] == [True]
    ok_w = 'want' in seen and seen['want'][1] == [False]
    rep.ob('C20.R4', ctx.loc(f, seen['dcnt'][0].node.ast if 'dcnt' in seen else head.ast), "bare '...' after a continuation line", ok_d,
           'stays source (the terminating bare continuation of an old-style example is not taken for a want)' if ok_d else
           "a bare '...' line after a continuation line is not kept as source: the standard `... ` terminator of a compound example becomes its want", anchor=LABEL)
    rep.ob('C20.R4', ctx.loc(f, seen['want'][0].node.ast if 'want' in seen else head.ast), "bare '...' after a prompt line", ok_w,
           'starts the want (an ellipsis want directly under an example)' if ok_w else "a bare '...' directly under a prompt line is not a want", anchor=LABEL)


def r8_future_flags_after_module_globals(ctx):
    """MUST-PASS / ordering: a doctest of a module that says `from __future__ import annotations` (or any other feature) is compiled with that
    feature, like the standard doctest module does: the compile flags are extracted from the namespace AFTER the globals of the module were
    put into it -- extracted before, the feature objects are not there yet and the flags are always 0"""
    rep = ctx.rep
    q = 'xdoctest.doctest_example.DocTest._test_globals'
    f = ctx.func(q)
    g = ctx.cfg(f)
    recv = f.node.args.args[0].arg
    ups = [n for n in g.nodes if not n.dup for c in node_calls(n) if isinstance(c.func, ast.Attribute) and c.func.attr == 'update' and c.args and
           isinstance(c.args[0], ast.Attribute) and c.args[0].attr == '__dict__' and isinstance(c.args[0].value, ast.Attribute) and c.args[0].value.attr == 'module']
    # readers of the feature flags: the extraction helper, or a written-out loop over __future__ feature names
    reads = [n for n in g.nodes if not n.dup for c in node_calls(n) if isinstance(c.func, ast.Attribute) and c.func.attr == '_extract_future_flags']
    reads += [n for n in g.nodes if not n.dup and n.kind == 'for' and any(isinstance(x, ast.Attribute) and x.attr == 'all_feature_names' for x in ast.walk(n.ast.iter))]
    rep.floor('C20.R8', 'module globals copied into the test namespace', len(ups), 1)
    rep.floor('C20.R8', 'reads of the __future__ features of the namespace', len(reads), 1)
    for rn in reads:
        wit = graph.must_pass([g.entry], lambda x, rn=rn: x is rn, through=ups, efilter=graph.normal_only)
        rep.ob('C20.R8', ctx.loc(f, rn.ast), 'feature flags read after the module globals are in the namespace', wit is None,
               'every path to the extraction passes the update with the module\'s globals' if wit is None else
               'the __future__ flags are extracted before the module\'s globals are copied into the namespace: the feature objects are not there yet, the flags are always 0, and a '
               'doctest of a module with `from __future__ import annotations` is compiled without it (it passes under the standard doctest module and fails here)', anchor=q)


def r5_old_style_single(ctx):
    rep = ctx.rep
    f = ctx.func(LOC)
    g = ctx.cfg(f)
    rd = ctx.rd(f)
    dom = ctx.dom(g, g.entry)
    singles = [d for d in rd.defs_of('mode_hint') if isinstance(d.value, ast.Constant) and d.value.value == 'single']
    rep.floor('C20.R5', 'assignments of the single mode', len(singles), 1)
    found = False
    for d in singles:
        facts = graph.guard_facts(dom, d.node)
        first_ps1 = any(fa.polarity is True and isinstance(fa.expr, ast.Call) and isinstance(fa.expr.func, ast.Attribute) and fa.expr.func.attr == 'startswith' and
                        isinstance(fa.expr.func.value, ast.Subscript) and fa.expr.args and (const_str(fa.expr.args[0]) or '').startswith('>>>') for fa in facts)
        rest_ps2 = any(fa.polarity is True and isinstance(fa.expr, ast.Call) and is_name(fa.expr.func, 'all') and '...' in fa.text and '[1:]' in fa.text for fa in facts)
        many = any(fa.polarity is True and isinstance(fa.expr, ast.Compare) and 'len(' in fa.text for fa in facts)
        if first_ps1 or rest_ps2:
            found = True
            ok = first_ps1 and rest_ps2 and many
            rep.ob('C20.R5', ctx.loc(f, d.node.ast), "old style -> 'single'", ok,
                   'one prompt line followed only by continuation lines is compiled in single mode (its value is echoed like in the REPL)' if ok else
                   'the old-style test is incomplete (guards %s)' % fmt_facts(facts), anchor=LOC)
    rep.ob('C20.R5', ctx.loc(f, f.node), 'old-style examples get the single mode', found, 'present' if found else
           'no branch selects the single mode for old-style examples: the value of a compound old-style example is not echoed and its want fails', anchor=LOC)
    # the hint is what is returned
    rets = [n for n in g.nodes if n.kind == 'stmt' and isinstance(n.ast, ast.Return) and not n.dup]
    ok = bool(rets) and all(isinstance(r.ast.value, ast.Tuple) and any(is_name(e, 'mode_hint') for e in r.ast.value.elts) for r in rets)
    rep.ob('C20.R5', ctx.loc(f, rets[0].ast if rets else f.node), 'the mode is returned', ok, '', nontrivial=False, anchor=LOC)
    # grouping: a source line followed by a continuation starts its own group
    fg = ctx.func(GROUP)
    ok = False
    for t in ast.walk(fg.node):
        if isinstance(t, ast.BoolOp) and isinstance(t.op, ast.And):
            txt = ast.unparse(t)
            if "== 'dsrc'" in txt and "== 'dcnt'" in txt and 'right' in txt and 'mid' in txt:
                ok = True
    rep.ob('C20.R5', ctx.loc(fg, fg.node), 'a prompt line followed by a continuation starts a new group', ok,
           "mid == 'dsrc' and right == 'dcnt' opens a group" if ok else 'old-style examples are not separated from the source lines before them (they cannot be compiled in single mode alone)', anchor=GROUP)
    # RUN: a single-mode part is executed, not evaluated
    rr = run_roles(ctx)
    domr = ctx.dom(rr.g, rr.iter_entry, rr.cut)
    n_eval = 0
    for (n, c) in rr.exec_sites:
        r = ctx.res.resolve_call(rr.f, c)
        if r[0] == 'builtin' and r[1] == 'eval':
            facts = graph.guard_facts(domr, n)
            from .c01 import _is_coroutine_fact
            if any(_is_coroutine_fact(fa) and fa.polarity is True for fa in facts):
                continue        # a coroutine code object is always eval()-ed to obtain the coroutine, whatever its mode
            is_eval_mode = any(fa.polarity is True and isinstance(fa.expr, ast.Compare) and const_str(fa.expr.comparators[0]) == 'eval' and 'compile_mode' in fa.text for fa in facts)
            n_eval += 1
            rep.ob('C20.R5', ctx.loc(rr.f, c), ctx.src(c), is_eval_mode, "eval() only for parts compiled in 'eval' mode" if is_eval_mode else
                   "eval() is reachable for a part that was not compiled in 'eval' mode (a 'single' part must be exec'd so that the display hook prints its value)", anchor=RUN)
    rep.floor('C20.R5', 'eval sites', n_eval, 1)


def r6_repl_display(ctx):
    rep = ctx.rep
    f = ctx.func(CGW)
    g = ctx.cfg(f)
    rd = ctx.rd(f)
    params = [a.arg for a in f.node.args.args]
    need('got_stdout' in params and 'got_eval' in params, 'C20.R6: check_got_vs_want(want, got_stdout, got_eval, ...) signature changed')

    def depends(node, e, depth=0, seen=None):
        """which of (stdout, value) the expression's value is built from"""
        seen = seen if seen is not None else set()
        out = set()
        for x in ast.walk(e):
            if isinstance(x, ast.Name):
                if x.id == 'got_stdout':
                    out.add('stdout')
                elif x.id == 'got_eval':
                    out.add('value')
                elif depth < 4:
                    for d in rd.at(node, x.id):
                        if id(d) in seen or not isinstance(d.value, ast.AST) or d.kind == 'param':
                            continue
                        seen.add(id(d))
                        out |= depends(d.node, d.value, depth + 1, seen)
        return out
    calls = [(n, c) for n in g.nodes if not n.dup for c in node_calls(n) if is_name(c.func, 'check_output')]
    rep.floor('C20.R6', 'comparisons in check_got_vs_want', len(calls), 2)
    both = [(n, c) for (n, c) in calls if c.args and depends(n, c.args[0]) >= {'stdout', 'value'}]
    rep.note('comparison_sources', [sorted(depends(n, c.args[0])) for (n, c) in calls if c.args])
    rep.ob('C20.R6', ctx.loc(f, f.node), 'stdout + repr(value) is compared', bool(both),
           'some comparison uses the REPL display (printed text followed by the echoed value)' if both else
           'a statement that prints AND returns a value is compared against its stdout or against the repr of its value, never against their concatenation, which is what the '
           'REPL (and the standard doctest module) shows', anchor=CGW)


def r7_expected_tracebacks(ctx):
    from . import c03
    run_as(ctx, c03.r2_check_exception, 'C03.R2', 'C20.R7')


# ---------------------------------------------------------------------------
from ..selftest import fire, silent      # noqa: E402

DI = 'xdoctest/directive.py'
PA = 'xdoctest/parser.py'
DE = 'xdoctest/doctest_example.py'
VARIANTS = [
    fire('future-flags-extracted-before-the-module-globals', 'C20.R8', ('xdoctest/doctest_example.py', "            test_globals.update(self.module.__dict__)\n", "            compileflags = self._extract_future_flags(test_globals)\n            test_globals.update(self.module.__dict__)\n")),
    fire('doctest-prefix-dropped', 'C20.R1', (DI, "    r'x?doctest:\\s*' + named('style2', '.*'),\n", "    r'xdoctest:\\s*' + named('style2', '.*'),\n")),
    fire('prefix-case-sensitive', 'C20.R1', (DI, "DIRECTIVE_RE = re.compile('|'.join(DIRECTIVE_PATTERNS), flags=re.IGNORECASE)\n", "DIRECTIVE_RE = re.compile('|'.join(DIRECTIVE_PATTERNS))\n")),
    fire('option-renamed', 'C20.R2', (DI, "    'IGNORE_EXCEPTION_DETAIL': False,\n", "    'IGNORE_EXCEPTION_DETAILS': False,\n")),
    fire('blankline-not-accepted-by-default', 'C20.R2', (DI, "    'DONT_ACCEPT_BLANKLINE': False,\n", "    'DONT_ACCEPT_BLANKLINE': True,\n")),
    fire('unknown-option-raises', 'C20.R2', (DI, "        msg = 'Unknown directive: {!r}'.format(optpart)\n        warnings.warn(msg)\n", "        msg = 'Unknown directive: {!r}'.format(optpart)\n        raise ValueError(msg)\n")),
    fire('minus-sign-ignored', 'C20.R3', (DI, "        positive = not optpart.startswith('-')\n", "        positive = True\n")),
    fire('bare-continuation-becomes-want', 'C20.R4', (PA, "                        if prev_state == DCNT:\n                            # Hack to fix continuation issue\n                            curr_state = DCNT\n                        else:\n                            curr_state = WANT\n", "                        curr_state = WANT\n")),
    fire('old-style-not-single', 'C20.R5', (PA, "                if all(_hasprefix(s, ('...',)) for s in source_lines[1:]):\n                    mode_hint = 'single'\n", "                pass\n")),
    silent('polarity-compare-form', (DI, "        positive = not optpart.startswith('-')\n", "        positive = optpart[0] != '-'\n")),
]
