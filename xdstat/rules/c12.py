"""
C12 -- process-global state is restored after every outcome.
"""
import ast

from ..context import need
from ..loader import AnalysisError, Program
from .. import graph
from ..roles import run_roles, RUN, node_calls
from ..dataflow import field_name
from ..resolve import walk_scope
from .common import fmt_facts, is_name, is_attr_of
from .c11 import all_scopes, owner_func

EXPLANATION = (
    'Static rule conformance over the whole package: R1 sys.stdout/sys.stderr/sys.stdin are stored only by CaptureStdout.start/stop, '
    'sys.path is mutated only by PythonPathContext.__enter__/__exit__ (aliases followed), and no code touches warning filters, the working '
    'directory or event-loop policy (the patterns are shown to match an embedded positive fixture on every run); R2 stdout acquire/release: '
    'start/stop are guarded by the same field, stop restores exactly the object saved at construction, __exit__ reaches stop on every exit '
    'including exceptional ones, every CaptureStdout construction is used through `with`, explicit start() calls are paired by try/finally; '
    'R3 sys.path: every PythonPathContext is a with item, every normal exit of __exit__ has removed one entry, explicit raises are the '
    'verified-absent RuntimeError, and an index whose bounds test failed is never evaluated on the path that follows that failure; '
    'R4 every exec site is inside warnings.catch_warnings; R5 coroutines are only driven through asyncio.run. '
    'What doctest code itself does to process globals is not decided.')
DECIDES = ['WHO-MAY single owners (+ positive fixture)', 'PAIRING stdout incl. BaseException', 'context-manager-only use', 'PAIRING sys.path + bounds CONTRADICTION', 'catch_warnings encloses exec', 'asyncio.run only']
NOT_DECIDED = ['what the executed doctest code does to sys.stdout, sys.path, warning filters', 'sys.modules entries created by importing the module under test']

CAP = 'xdoctest.utils.util_stream.CaptureStdout'
PPC = 'xdoctest.utils.util_import.PythonPathContext'

FIXTURE = '''
import sys, os, warnings, asyncio
def leak(loop, p):
    sys.stdout = None
    sys.stderr = open(os.devnull)
    del sys.stdin
    sys.path.insert(0, p)
    sp = sys.path
    sp.append(p)
    sys.path[0] = p
    sys.path += [p]
    warnings.simplefilter('ignore')
    warnings.filterwarnings('ignore')
    os.chdir(p)
    asyncio.set_event_loop(loop)
    loop.run_until_complete(None)
'''


def run(ctx):
    for fn in (r1_single_owners, r2_stdout_pairing, r3_syspath_pairing, r4_warnings, r5_event_loop):
        ctx.rep.rule(fn, ctx)


# ---------------------------------------------------------------------------
STREAMS = ('stdout', 'stderr', 'stdin', '__stdout__', '__stderr__')
PATH_MUT = ('insert', 'append', 'extend', 'pop', 'remove', 'clear', 'sort', 'reverse', '__setitem__', '__delitem__')
FORBIDDEN_CALLS = {
    'warnings.simplefilter': 'warning filters', 'warnings.filterwarnings': 'warning filters', 'warnings.resetwarnings': 'warning filters',
    'os.chdir': 'working directory', 'asyncio.set_event_loop': 'event loop', 'asyncio.new_event_loop': 'event loop',
    'asyncio.set_event_loop_policy': 'event loop',
}
FORBIDDEN_METHODS = {'run_until_complete': 'event loop', 'run_forever': 'event loop'}


def _is_sys_attr(e, names):
    return isinstance(e, ast.Attribute) and e.attr in names and is_name(e.value, 'sys')


def global_effects(tree):
    """[(kind, what, node)] sites with an effect on process-global state inside `tree`"""
    out = []
    # aliases of sys.path per function scope (flow-insensitive)
    aliases = set()
    for n in ast.walk(tree):
        if isinstance(n, ast.Assign) and _is_sys_attr(n.value, ('path',)):
            for t in n.targets:
                if isinstance(t, ast.Name):
                    aliases.add((t.id, _scope_of(n)))

    def is_path(e):
        if _is_sys_attr(e, ('path',)):
            return True
        return isinstance(e, ast.Name) and (e.id, _scope_of(e)) in aliases
    for n in ast.walk(tree):
        if isinstance(n, (ast.Assign, ast.AugAssign, ast.AnnAssign)):
            tgts = n.targets if isinstance(n, ast.Assign) else [n.target]
            for t in tgts:
                for tt in (t.elts if isinstance(t, (ast.Tuple, ast.List)) else [t]):
                    if _is_sys_attr(tt, STREAMS):
                        out.append(('stream', 'sys.' + tt.attr, n))
                    if _is_sys_attr(tt, ('path',)):
                        out.append(('path', 'rebinding sys.path', n))
                    if isinstance(tt, ast.Subscript) and is_path(tt.value):
                        out.append(('path', 'item store', n))
            if isinstance(n, ast.AugAssign) and is_path(n.target):
                out.append(('path', 'augmented assignment', n))
        elif isinstance(n, ast.Delete):
            for t in n.targets:
                if _is_sys_attr(t, STREAMS):
                    out.append(('stream', 'del sys.' + t.attr, n))
                if isinstance(t, ast.Subscript) and is_path(t.value):
                    out.append(('path', 'item delete', n))
        elif isinstance(n, ast.Call):
            f = n.func
            if isinstance(f, ast.Attribute) and f.attr in PATH_MUT and is_path(f.value):
                out.append(('path', '.%s()' % f.attr, n))
            if is_name(f, 'setattr') and n.args and is_name(n.args[0], 'sys') and len(n.args) > 1 and isinstance(n.args[1], ast.Constant) and n.args[1].value in STREAMS + ('path',):
                out.append(('stream' if n.args[1].value in STREAMS else 'path', 'setattr(sys, %r)' % n.args[1].value, n))
            try:
                d = ast.unparse(f)
            except Exception:
                d = ''
            if d in FORBIDDEN_CALLS:
                out.append(('forbidden', '%s (%s)' % (d, FORBIDDEN_CALLS[d]), n))
            if isinstance(f, ast.Attribute) and f.attr in FORBIDDEN_METHODS:
                out.append(('forbidden', '.%s() (%s)' % (f.attr, FORBIDDEN_METHODS[f.attr]), n))
    return out


def _scope_of(node):
    cur = getattr(node, '_parent', None)
    while cur is not None:
        if isinstance(cur, (ast.FunctionDef, ast.AsyncFunctionDef, ast.Module)):
            return id(cur)
        cur = getattr(cur, '_parent', None)
    return None


def r1_single_owners(ctx):
    rep = ctx.rep
    # positive fixture: every pattern must match, so that zero counts are not vacuous
    fx = ast.parse(FIXTURE)
    for n in ast.walk(fx):
        for c in ast.iter_child_nodes(n):
            c._parent = n
    fx_hits = global_effects(fx)
    kinds = {}
    for (k, w, n) in fx_hits:
        kinds[k] = kinds.get(k, 0) + 1
    need(kinds.get('stream', 0) >= 3 and kinds.get('path', 0) >= 4 and kinds.get('forbidden', 0) >= 5,
         'C12.R1: the effect patterns no longer match the embedded positive fixture: %s' % kinds)
    rep.note('positive_fixture_matches', kinds)
    owners = {
        'stream': (CAP + '.start', CAP + '.stop'),
        'path': (PPC + '.__enter__', PPC + '.__exit__'),
    }
    n_stream = n_path = 0
    for mod in all_scopes(ctx):
        for (kind, what, node) in global_effects(mod.tree):
            f = owner_func(ctx, mod, node)
            q = f.qualname if f else mod.name
            if kind == 'forbidden':
                rep.ob('C12.R1', ctx.mloc(mod, node), ctx.src(node), False,
                       'the package changes %s, which nothing restores' % what, anchor=q)
                continue
            ok = q in owners[kind]
            if kind == 'stream':
                n_stream += 1
            else:
                n_path += 1
            rep.ob('C12.R1', ctx.mloc(mod, node), ctx.src(node), ok,
                   '%s written by its single owner' % ('stream' if kind == 'stream' else 'sys.path') if ok else
                   '%s (%s) is changed outside its owner (%s): nothing pairs this change with a restore' % ('a process stream' if kind == 'stream' else 'sys.path', what, ' / '.join(o.split('.')[-2] + '.' + o.split('.')[-1] for o in owners[kind])),
                   anchor=q)
    rep.floor('C12.R1', 'stores to process streams', n_stream, 2)
    rep.floor('C12.R1', 'mutations of sys.path', n_path, 2)


# ---------------------------------------------------------------------------
def _calls_resolved_to(ctx, qual):
    out = []
    for func in ctx.prog.funcs.values():
        if func.module.name == 'xdoctest._tokenize':
            continue
        for n in walk_scope(func.node):
            if isinstance(n, ast.Call):
                r = ctx.res.resolve_call(func, n)
                if (r[0] == 'repo' and any(x.qualname == qual for x in r[1])) or (r[0] == 'class' and r[1].qualname == qual):
                    out.append((func, n))
    return out


def _constructions(ctx, class_q):
    out = []
    for func in ctx.prog.funcs.values():
        if func.module.name == 'xdoctest._tokenize':
            continue
        for n in walk_scope(func.node):
            if isinstance(n, ast.Call):
                r = ctx.res.resolve_call(func, n)
                if r[0] == 'class':
                    classes, _ = ctx.prog.mro(r[1])
                    if any(c.qualname == class_q for c in classes):
                        out.append((func, n))
    return out


def _used_only_as_context(ctx, func, call):
    """the constructed object is a with item, or bound to a local whose every
    use is a with item or an attribute read"""
    p = call._parent
    if isinstance(p, ast.withitem) and p.context_expr is call:
        return True, 'with item'
    if isinstance(p, ast.Assign) and len(p.targets) == 1 and isinstance(p.targets[0], ast.Name):
        name = p.targets[0].id
        uses = [n for n in walk_scope(func.node) if isinstance(n, ast.Name) and n.id == name and isinstance(n.ctx, ast.Load)]
        as_with = 0
        for u in uses:
            up = u._parent
            if isinstance(up, ast.withitem) and up.context_expr is u:
                as_with += 1
            elif isinstance(up, ast.Attribute) and not (isinstance(getattr(up, '_parent', None), ast.Call) and up._parent.func is up):
                continue        # attribute read (cap.text, cap.enabled)
            elif isinstance(up, ast.Attribute) and up.attr in ('start', 'stop'):
                continue        # explicit acquire / release: paired by rule R2a
            else:
                return False, 'local `%s` is also used as `%s`' % (name, ctx.src(up, 60))
        return (as_with > 0), ('local used as with item %d time(s)' % as_with if as_with else 'never entered')
    return False, 'constructed object is neither a with item nor a local'


def r2_stdout_pairing(ctx):
    rep = ctx.rep
    cls = ctx.cls(CAP)
    fstart, fstop, fexit, finit, fenter = (ctx.func(CAP + '.' + m) for m in ('start', 'stop', '__exit__', '__init__', '__enter__'))
    # (c) same guard field
    guards = {}
    full = {}
    for f in (fstart, fstop):
        g = ctx.cfg(f)
        dom = ctx.dom(g, g.entry)
        recv = f.node.args.args[0].arg
        stores = [n for n in g.nodes if n.kind == 'stmt' and isinstance(n.ast, ast.Assign) and any(_is_sys_attr(t, STREAMS) for t in n.ast.targets)]
        need(stores, 'C12.R2: %s does not store a process stream' % f.qualname)
        for sn in stores:
            flds = sorted({field_name(fa.expr, recv) for fa in graph.guard_facts(dom, sn) if isinstance(fa.expr, ast.AST) and field_name(fa.expr, recv) and fa.polarity is True})
            guards[f.name] = flds
            # the complete set of dominating conditions, receiver-normalised
            full[f.name] = sorted({('%s%s' % ('' if fa.polarity is True else 'not ', fa.text)).replace(recv + '.', 'self.') for fa in graph.guard_facts(dom, sn) if fa.polarity in (True, False)})
    ok = guards.get('start') == guards.get('stop') and full.get('start') == full.get('stop')
    rep.ob('C12.R2c', ctx.loc(fstop, fstop.node), 'start()/stop() guard', ok,
           'acquire and release are controlled by exactly the same condition(s) %s: release happens iff acquire happened' % full.get('start') if ok else
           'start() replaces sys.stdout under %s but stop() restores it only under %s: a capture that replaced sys.stdout may never restore it '
           '(e.g. when the doctest itself re-bound sys.stdout in between)' % (full.get('start'), full.get('stop')), anchor=CAP)
    # (d) saved object restored
    recv = finit.node.args.args[0].arg
    saved = [n for n in ast.walk(finit.node) if isinstance(n, ast.Assign) and _is_sys_attr(n.value, ('stdout',))]
    saved_fields = {field_name(t, recv) for n in saved for t in n.targets if field_name(t, recv)}
    others = []
    for key, m in cls.methods.items():
        r_ = m.node.args.args[0].arg if m.node.args.args else 'self'
        for n in ast.walk(m.node):
            if isinstance(n, ast.Assign):
                for t in n.targets:
                    fn = field_name(t, r_)
                    if fn and (r_ + '.' + fn.split('.', 1)[1]) in {x.replace(recv + '.', r_ + '.', 1) for x in saved_fields} and m is not finit:
                        others.append((m, n))
    sstop = [n for n in ast.walk(fstop.node) if isinstance(n, ast.Assign) and any(_is_sys_attr(t, ('stdout',)) for t in n.targets)]
    rs = fstop.node.args.args[0].arg
    restored = {field_name(n.value, rs) for n in sstop}
    ok = bool(saved_fields) and not others and restored and all(r is not None and r.split('.', 1)[1] in {s.split('.', 1)[1] for s in saved_fields} for r in restored)
    rep.ob('C12.R2d', ctx.loc(fstop, sstop[0] if sstop else fstop.node), 'sys.stdout = <object saved in __init__>', ok,
           'stop() restores exactly the field stored from sys.stdout at construction (%s), which nothing else rebinds' % sorted(saved_fields) if ok else
           'stop() does not restore the stream object saved at construction (saved %s, restored %s, other writers %d)' % (sorted(saved_fields), sorted(map(str, restored)), len(others)),
           anchor=CAP)
    # (a) acquire only via __enter__ / paired explicit start()
    starts = _calls_resolved_to(ctx, CAP + '.start')
    for (func, c) in starts:
        if func is fenter:
            rep.ob('C12.R2a', ctx.loc(func, c), ctx.src(c), True, 'acquire inside __enter__', nontrivial=False, anchor=func.qualname)
            continue
        if func.cls is cls:
            rep.ob('C12.R2a', ctx.loc(func, c), ctx.src(c), False, 'CaptureStdout acquires sys.stdout outside __enter__ (in %s)' % func.name, anchor=func.qualname)
            continue
        # explicit start elsewhere: every exit after it passes .stop() on the same object
        g = ctx.cfg(func)
        recv_txt = ast.unparse(c.func.value)
        stops = [n for n in g.nodes for cc in node_calls(n) if isinstance(cc.func, ast.Attribute) and cc.func.attr == 'stop' and ast.unparse(cc.func.value) == recv_txt]
        bad = None
        for n in g.nodes_containing(c):
            bad = bad or graph.must_pass(n.nsucc(), lambda x: x is g.exit or x is g.raise_exit, through=stops)
        rep.ob('C12.R2a', ctx.loc(func, c), ctx.src(c), bad is None,
               'explicit start() is paired with stop() on every exit (try/finally)' if bad is None else
               'explicit start() without a stop() on every exit: an exception in between leaves sys.stdout replaced',
               witness=None if bad is None else graph.fmt_path(bad, func.module.relpath), anchor=func.qualname)
    # __enter__ acquires
    ok = any(func is fenter for (func, _) in starts)
    rep.ob('C12.R2a', ctx.loc(fenter, fenter.node), '__enter__ -> start()', ok, 'with-entry acquires' if ok else '__enter__ no longer calls start()', nontrivial=False, anchor=CAP)
    # (b) __exit__ reaches stop on every exit of the enabled branch
    g = ctx.cfg(fexit)
    re_ = fexit.node.args.args[0].arg
    stop_nodes = [n for n in g.nodes for cc in node_calls(n) if ctx.res.resolve_call(fexit, cc)[0] == 'repo' and any(x.qualname == CAP + '.stop' for x in ctx.res.resolve_call(fexit, cc)[1])]
    # entry points of the acquired state: branches where the guard field is true, or the entry if unguarded
    guard_field = (guards.get('stop') or [None])[0]
    starts_ = []
    for n in g.nodes:
        if n.kind == 'branch' and n.attrs['test'].kind == 'test':
            for fa in graph.facts_of(n.attrs['test'].ast, n.attrs['polarity']):
                if guard_field and field_name(fa.expr, re_) == guard_field.replace(rs + '.', re_ + '.', 1) and fa.polarity is True:
                    starts_.append(n)
    if not starts_:
        starts_ = [g.entry]
    wit = graph.must_pass(starts_, lambda x: x is g.exit or x is g.raise_exit, through=stop_nodes)
    rep.ob('C12.R2b', ctx.loc(fexit, fexit.node), '__exit__ -> stop() on every exit', wit is None,
           'when capturing is enabled every exit of __exit__ (normal and exceptional) has restored sys.stdout' if wit is None else
           '__exit__ can be left without restoring sys.stdout (e.g. when logging the captured text raises)',
           witness=None if wit is None else graph.fmt_path(wit, fexit.module.relpath), anchor=CAP + '.__exit__')
    # (e) constructions are context managers
    cons = _constructions(ctx, CAP)
    rep.floor('C12.R2', 'CaptureStdout constructions', len(cons), 1)
    for (func, c) in cons:
        ok, how = _used_only_as_context(ctx, func, c)
        rep.ob('C12.R2e', ctx.loc(func, c), ctx.src(c), ok,
               'capture object used only as a context manager (%s): the language guarantees __exit__ on normal, Exception and BaseException exits' % how if ok else
               'capture object is not used exclusively through `with` (%s)' % how, anchor=func.qualname)
    # (f) exec sites inside the capture
    rr = run_roles(ctx)
    cap_items = [w.ast for w in rr.cap_withs]
    for (n, c) in rr.exec_sites:
        inside = any(fr.kind == 'with' and any(fr.item is it for it in cap_items) for fr in n.frames)
        rep.ob('C12.R2f', ctx.loc(rr.f, c), ctx.src(c), inside, 'exec site inside the capture with-block' if inside else
               'user code runs while sys.stdout may be replaced without a pending restore', nontrivial=False, anchor=RUN)


# ---------------------------------------------------------------------------
def r3_syspath_pairing(ctx):
    rep = ctx.rep
    cons = _constructions(ctx, PPC)
    rep.floor('C12.R3', 'PythonPathContext constructions', len(cons), 1)
    for (func, c) in cons:
        p = c._parent
        ok = isinstance(p, ast.withitem) and p.context_expr is c
        rep.ob('C12.R3a', ctx.loc(func, c), ctx.src(c), ok,
               'constructed as a with item' if ok else 'PythonPathContext is entered without `with`: the inserted sys.path entry is not removed on an exception', anchor=func.qualname)
    fenter = ctx.func(PPC + '.__enter__')
    fexit = ctx.func(PPC + '.__exit__')
    ins = [n for n in ast.walk(fenter.node) if isinstance(n, ast.Call) and isinstance(n.func, ast.Attribute) and n.func.attr in ('insert', 'append') and _is_sys_attr(n.func.value, ('path',))]
    rep.ob('C12.R3b', ctx.loc(fenter, fenter.node), '__enter__ inserts one entry', len(ins) == 1, '%d insertion(s)' % len(ins), nontrivial=False, anchor=PPC)
    if len(ins) == 1:
        # __exit__ removes an entry unconditionally, so __enter__ must have inserted one on every normal exit
        ge = ctx.cfg(fenter)
        ins_nodes = [n for n in ge.nodes for c in node_calls(n) if isinstance(c.func, ast.Attribute) and c.func.attr in ('insert', 'append') and _is_sys_attr(c.func.value, ('path',))]
        wit = graph.must_pass([ge.entry], lambda x: x is ge.exit, through=ins_nodes, efilter=graph.normal_only)
        rep.ob('C12.R3b', ctx.loc(fenter, fenter.node), '__enter__ inserts on every normal exit', wit is None,
               'every normal exit of __enter__ has inserted the directory' if wit is None else
               '__enter__ can return without inserting the directory, and __exit__ removes an entry unconditionally: an entry that was on sys.path before is removed', anchor=PPC)
    g = ctx.cfg(fexit)
    pops = [n for n in g.nodes for c in node_calls(n) if isinstance(c.func, ast.Attribute) and c.func.attr in ('pop', 'remove') and _is_sys_attr(c.func.value, ('path',))
            or (n.kind == 'stmt' and isinstance(n.ast, ast.Delete) and any(isinstance(t, ast.Subscript) and _is_sys_attr(t.value, ('path',)) for t in n.ast.targets))]
    wit = graph.must_pass([g.entry], lambda x: x is g.exit, through=pops, efilter=graph.normal_only)
    rep.ob('C12.R3b', ctx.loc(fexit, fexit.node), '__exit__ removes one entry on every normal exit', wit is None,
           'every normal exit of __exit__ has removed an entry from sys.path' if wit is None else '__exit__ can return without removing the inserted directory',
           witness=None if wit is None else graph.fmt_path(wit, fexit.module.relpath), anchor=PPC + '.__exit__')
    cnt = graph.count_events(g.entry, lambda x: any(x is p for p in pops), lambda x: x is g.exit, efilter=graph.normal_only)
    if cnt:
        (_, lo, hi, _, whi) = next(iter(cnt.values()))
        rep.ob('C12.R3b', ctx.loc(fexit, fexit.node), 'exactly one removal', hi <= 1, 'between %d and %d removals on a path' % (lo, hi), anchor=PPC + '.__exit__')
    # (d) removal is by position: the entry at the remembered index once it is verified to be ours, or the position found by
    # sys.path.index(dpath) during recovery.  remove(value) on the verified branch deletes the FIRST equal entry, i.e. possibly one that
    # was on sys.path before the context was entered (same members afterwards, different order).
    domx = ctx.dom(g, g.entry)
    rdx = ctx.rd(fexit)
    recvx = fexit.node.args.args[0].arg
    for n in pops:
        if n.dup:
            continue
        facts = graph.guard_facts(domx, n)
        recovering = any(isinstance(fa.expr, ast.Name) and fa.expr.id == 'need_recover' and fa.polarity is True for fa in facts)
        for c in node_calls(n):
            if not (isinstance(c.func, ast.Attribute) and c.func.attr in ('pop', 'remove') and _is_sys_attr(c.func.value, ('path',))):
                continue
            if c.func.attr == 'remove':
                rep.ob('C12.R3d', ctx.loc(fexit, c), ctx.src(c), recovering,
                       'removal by value only during recovery (the entry is known not to be at its index)' if recovering else
                       'the entry is removed by value although its position is known: remove() deletes the first equal element, so a directory that was already on sys.path before '
                       'the context loses its original position while the inserted copy stays (sys.path is not what it was)', anchor=PPC + '.__exit__')
            else:
                a = c.args[0] if c.args else None
                by_index = a is not None and ((isinstance(a, ast.Attribute) and a.attr == 'index' and is_name(a.value, recvx)) or
                                              (isinstance(a, ast.Name) and all(isinstance(d.value, ast.Call) and isinstance(d.value.func, ast.Attribute) and d.value.func.attr == 'index' and
                                                                               _is_sys_attr(d.value.func.value, ('path',)) for d in rdx.at(n, a.id)) and bool(rdx.at(n, a.id))))
                rep.ob('C12.R3d', ctx.loc(fexit, c), ctx.src(c), by_index,
                       'removes the entry at the remembered / recovered position' if by_index else
                       ('pop() without an index removes the LAST element, not the inserted one' if a is None else 'the removed position is neither the remembered index nor one found by sys.path.index(dpath)'),
                       anchor=PPC + '.__exit__')
    # explicit raises: RuntimeError inside a handler for ValueError of list.index
    for n in g.nodes:
        if n.kind == 'stmt' and isinstance(n.ast, ast.Raise) and n.ast.exc is not None and not n.dup:
            toks = {tok for (_, k, tok) in n.succ if k == 'e'}
            in_h = [fr for fr in n.frames if fr.kind == 'try' and fr.phase == 'handler']
            idx_calls = [c for s in (in_h[-1].stmt.body if in_h else []) for c in ast.walk(s) if isinstance(c, ast.Call) and isinstance(c.func, ast.Attribute) and c.func.attr == 'index' and _is_sys_attr(c.func.value, ('path',))]
            whole = bool(idx_calls) and all(len(c.args) == 1 and not c.keywords for c in idx_calls)
            ok = toks == {('exact', 'RuntimeError')} and bool(in_h) and g._handler_classes(in_h[-1].handler) == ['ValueError'] and whole
            rep.ob('C12.R3b', ctx.loc(fexit, n.ast), ctx.src(n.ast, 80), ok,
                   'raises RuntimeError only where an unbounded list.index proved the entry absent' if ok else
                   ('the search that decides "entry absent" does not cover the whole of sys.path (%s): the inserted directory can be declared absent and left behind' % [ctx.src(c) for c in idx_calls]
                    if idx_calls and not whole else 'an explicit raise leaves __exit__ although the inserted entry may still be in sys.path'), anchor=PPC + '.__exit__')
    # (c) CONTRADICTION: index evaluated after its bounds test failed
    dom = ctx.dom(g, g.entry)
    n_tests = 0
    for t in g.nodes:
        if t.kind != 'test' or t.dup:
            continue
        bt = _bounds_test(t.ast)
        if bt is None:
            continue
        n_tests += 1
        lst, idx, out_of_range_when = bt
        for b in t.nsucc():
            if b.kind != 'branch' or b.attrs['polarity'] != out_of_range_when:
                continue
            reach = graph.reachable([b], efilter=graph.normal_only)
            hit = None
            for m in reach:
                if m.kind not in ('stmt', 'test'):
                    continue
                for sub in ast.walk(m.ast):
                    if isinstance(sub, ast.Subscript) and isinstance(sub.ctx, ast.Load) and ast.unparse(sub.value) == lst and ast.unparse(sub.slice) == idx:
                        # re-guarded by an in-range fact of the same test shape?
                        reguard = False
                        for gb in dom.guards(m):
                            if gb.kind == 'branch' and gb.attrs['test'].kind == 'test' and gb.attrs['test'] is not t:
                                bt2 = _bounds_test(gb.attrs['test'].ast)
                                if bt2 and bt2[0] == lst and bt2[1] == idx and gb.attrs['polarity'] != bt2[2]:
                                    reguard = True
                        if not reguard:
                            hit = (m, sub)
                            break
                if hit:
                    break
            wit = None
            if hit:
                wit = graph.fmt_path(graph.path([b], lambda x: x is hit[0], efilter=graph.normal_only) or [], fexit.module.relpath)
            rep.ob('C12.R3c', ctx.loc(fexit, hit[1] if hit else t.ast), ctx.src(hit[1]) if hit else ctx.src(t.ast), hit is None,
                   'no use of %s[%s] on the path that follows the failed bounds test' % (lst, idx) if hit is None else
                   'the bounds test `%s` has just established that the index is out of range, yet %s[%s] is evaluated on the path that follows: IndexError inside __exit__ skips the recovery code and the inserted directory stays in sys.path'
                   % (ctx.src(t.ast), lst, idx), witness=wit, anchor=PPC + '.__exit__')
    # (c') a test that only excludes len(L) < I still admits I == len(L): every use of L[I] in a function that tests the
    # bound at all must be dominated by a test that implies I < len(L)
    weak_pairs = {}
    for t in g.nodes:
        if t.kind == 'test' and not t.dup:
            for e in ast.walk(t.ast):
                w = _weak_bounds_test(e)
                bt = _bounds_test(e) if isinstance(e, (ast.Compare, ast.UnaryOp)) else None
                if w is not None:
                    weak_pairs.setdefault((w[0], w[1]), []).append(t)
                if bt is not None:
                    weak_pairs.setdefault((bt[0], bt[1]), [])
    for m in g.nodes:
        if m.kind not in ('stmt', 'test') or m.dup:
            continue
        for sub in ast.walk(m.ast):
            if isinstance(sub, ast.Subscript) and isinstance(sub.ctx, ast.Load):
                key = (ast.unparse(sub.value), ast.unparse(sub.slice))
                if key not in weak_pairs or not weak_pairs[key]:
                    continue
                strong = False
                for gb in dom.guards(m):
                    if gb.kind == 'branch' and gb.attrs['test'].kind == 'test':
                        for fa in graph.facts_of(gb.attrs['test'].ast, gb.attrs['polarity']):
                            bt2 = _bounds_test(fa.expr) if isinstance(fa.expr, ast.AST) else None
                            if bt2 and (bt2[0], bt2[1]) == key and fa.polarity != bt2[2]:
                                strong = True
                wt = weak_pairs[key][0]
                rep.ob('C12.R3c', ctx.loc(fexit, sub), ctx.src(sub) + ' under ' + ctx.src(wt.ast), strong,
                       'dominated by a test implying index < len' if strong else
                       'the only bounds test `%s` still admits index == len(%s): %s raises IndexError inside __exit__ when the list shrank by exactly one entry, '
                       'the recovery code is skipped and the inserted directory stays in sys.path' % (ctx.src(wt.ast), key[0], ctx.src(sub)), anchor=PPC + '.__exit__')
    rep.note('bounds_tests_in_exit', n_tests)     # a CONTRADICTION rule: no bounds test, no contradiction


def _bounds_test(e):
    """(list text, index text, polarity meaning out-of-range) for len(L) <= I and variants"""
    if isinstance(e, ast.UnaryOp) and isinstance(e.op, ast.Not):
        inner = _bounds_test(e.operand)
        return None if inner is None else (inner[0], inner[1], not inner[2])
    if isinstance(e, ast.Compare) and len(e.ops) == 1:
        l, op, r = e.left, e.ops[0], e.comparators[0]

        def is_len(x):
            return isinstance(x, ast.Call) and is_name(x.func, 'len') and len(x.args) == 1
        if is_len(l) and not is_len(r):
            lst, idx = ast.unparse(l.args[0]), ast.unparse(r)
            if isinstance(op, ast.LtE):      # len(L) <= I  -> out of range when true
                return lst, idx, True
            if isinstance(op, ast.Gt):       # len(L) > I   -> out of range when false
                return lst, idx, False
        if is_len(r) and not is_len(l):
            lst, idx = ast.unparse(r.args[0]), ast.unparse(l)
            if isinstance(op, ast.GtE):      # I >= len(L)
                return lst, idx, True
            if isinstance(op, ast.Lt):       # I < len(L)
                return lst, idx, False
    return None


def _weak_bounds_test(e):
    """(list text, index text) for tests that exclude only len(L) < I:  len(L) < I,  I > len(L),  and their negations len(L) >= I, I <= len(L)"""
    if isinstance(e, ast.Compare) and len(e.ops) == 1:
        l, op, r = e.left, e.ops[0], e.comparators[0]

        def is_len(x):
            return isinstance(x, ast.Call) and is_name(x.func, 'len') and len(x.args) == 1
        if is_len(l) and not is_len(r) and isinstance(op, (ast.Lt, ast.GtE)):
            return ast.unparse(l.args[0]), ast.unparse(r)
        if is_len(r) and not is_len(l) and isinstance(op, (ast.Gt, ast.LtE)):
            return ast.unparse(r.args[0]), ast.unparse(l)
    return None


# ---------------------------------------------------------------------------
def r4_warnings(ctx):
    rr = run_roles(ctx)
    rep = ctx.rep
    for (n, c) in rr.exec_sites:
        ok = False
        for fr in n.frames:
            if fr.kind == 'with':
                ce = fr.item.context_expr
                if isinstance(ce, ast.Call) and ctx.res.resolve_call(rr.f, ce) == ('ext', 'warnings.catch_warnings'):
                    ok = True
        rep.ob('C12.R4', ctx.loc(rr.f, c), ctx.src(c), ok,
               'exec site is inside `with warnings.catch_warnings(...)`: filters changed by the doctest are restored on every exit' if ok else
               'doctest code runs outside warnings.catch_warnings: filters it changes stay changed', anchor=RUN)


def r5_event_loop(ctx):
    rr = run_roles(ctx)
    rep = ctx.rep
    # asyncio API used in the package: only asyncio.run and get_running_loop
    used = {}
    for mod in all_scopes(ctx):
        for n in ast.walk(mod.tree):
            if isinstance(n, ast.Attribute) and is_name(n.value, 'asyncio') and mod.imports.get('asyncio', (None, None))[1] == 'asyncio':
                used.setdefault(n.attr, []).append((mod, n))
    allowed = {'run', 'get_running_loop'}
    for attr, sites in sorted(used.items()):
        mod, n = sites[0]
        rep.ob('C12.R5', ctx.mloc(mod, n), 'asyncio.%s' % attr, attr in allowed,
               'loop-neutral asyncio API (%d use(s))' % len(sites) if attr in allowed else 'asyncio.%s manages event loops explicitly; nothing closes / restores them' % attr,
               nontrivial=False, anchor=mod.name)
    need('run' in used, 'C12.R5: asyncio.run not used any more')


# ---------------------------------------------------------------------------
from ..selftest import fire, silent      # noqa: E402

DE = 'xdoctest/doctest_example.py'
US = 'xdoctest/utils/util_stream.py'
UI = 'xdoctest/utils/util_import.py'
RN = 'xdoctest/runner.py'
CO = 'xdoctest/core.py'
VARIANTS = [
    fire('removal-by-value-on-verified-branch', 'C12.R3d', ('xdoctest/utils/util_import.py', "        else:\n            sys.path.pop(self.index)\n", "        else:\n            sys.path.remove(self.dpath)\n")),
    fire('bounds-test-off-by-one', 'C12.R3c', ('xdoctest/utils/util_import.py', "        if len(sys.path) <= self.index:  # nocover\n", "        if len(sys.path) < self.index:  # nocover\n")),
    fire('stdout-store-in-runner', 'C12.R1', (RN, "    n_total = len(enabled_examples)\n", "    n_total = len(enabled_examples)\n    sys.stdout = sys.__stdout__\n")),
    fire('syspath-insert-in-core', 'C12.R1', (CO, "        pkgpath = _rectify_to_modpath(pkg_identifier)\n", "        pkgpath = _rectify_to_modpath(pkg_identifier)\n        sys.path.insert(0, pkgpath)\n")),
    fire('syspath-alias-append', 'C12.R1',
         (UI, "    dpath, rel_modpath = split_modpath(modpath)\n    modname = modpath_to_modname(modpath)\n    try:\n        with PythonPathContext",
              "    dpath, rel_modpath = split_modpath(modpath)\n    modname = modpath_to_modname(modpath)\n    sp = sys.path\n    sp.append(dpath)\n    try:\n        with PythonPathContext")),
    fire('warnings-filter-changed', 'C12.R1', (DE, "        needs_capture = True\n", "        needs_capture = True\n        warnings.simplefilter('always')\n")),
    fire('exit-without-finally', 'C12.R2b',
         (US, "            try:\n                self.log_part()\n            except Exception:  # nocover\n                raise\n            finally:\n                self.stop()\n",
              "            self.log_part()\n            self.stop()\n")),
    fire('stop-guard-differs', 'C12.R2c', (US, "        if self.enabled:\n            self.started = False\n", "        if self.started and not self.suppress:\n            self.started = False\n")),
    fire('stop-restores-dunder-stdout', 'C12.R2d', (US, "            sys.stdout = self.orig_stdout\n", "            sys.stdout = sys.__stdout__\n")),
    fire('orig-stdout-resaved-at-start', 'C12.R2d', (US, "            self.text = ''\n            self.started = True\n", "            self.text = ''\n            self.orig_stdout = sys.stdout\n            self.started = True\n")),
    fire('capture-started-explicitly', 'C12.R2',
         (DE, "        with warnings.catch_warnings(record=True) as self.warn_list:\n", "        cap.start()\n        with warnings.catch_warnings(record=True) as self.warn_list:\n")),
    fire('pathcontext-without-with', 'C12.R3a',
         (UI, "        with PythonPathContext(dpath, index=index):\n            module = import_module_from_name(modname)\n",
              "        ctxmgr = PythonPathContext(dpath, index=index)\n        ctxmgr.__enter__()\n        module = import_module_from_name(modname)\n        ctxmgr.__exit__(None, None, None)\n")),
    fire('enter-returns-without-insert', 'C12.R3b', (UI, "        sys.path.insert(self.index, self.dpath)\n\n    def __exit__", "        if sys.path[self.index:self.index + 1] == [self.dpath]:\n            return\n        sys.path.insert(self.index, self.dpath)\n\n    def __exit__")),
    fire('exit-path-without-pop', 'C12.R3b', (UI, "                warnings.warn('\\n'.join(msg_parts))\n                sys.path.pop(real_index)\n", "                warnings.warn('\\n'.join(msg_parts))\n")),
    fire('exec-outside-catch-warnings', 'C12.R4',
         (DE, "        with warnings.catch_warnings(record=True) as self.warn_list:\n", "        self.warn_list = []\n        if True:\n")),
    fire('event-loop-managed-by-hand', 'C12.R',
         (DE, "                                    asyncio.run(eval(code, test_globals))\n", "                                    asyncio.new_event_loop().run_until_complete(eval(code, test_globals))\n")),
    fire('revert-fix-F8-index-after-failed-bounds-test', 'C12.R3c',
         (UI, "            need_recover = True\n        elif sys.path[self.index] != self.dpath:  # nocover\n", "            need_recover = True\n\n        if sys.path[self.index] != self.dpath:  # nocover\n")),
    silent('bounds-test-rephrased',
           (UI, "        if len(sys.path) <= self.index:  # nocover\n", "        if not (self.index < len(sys.path)):  # nocover\n")),
    fire('stop-restores-only-if-still-installed', 'C12.R2c', (US, "        if self.enabled:\n            self.started = False\n            sys.stdout = self.orig_stdout\n", "        if self.enabled:\n            self.started = False\n            if sys.stdout is self.cap_stdout:\n                sys.stdout = self.orig_stdout\n")),
    fire('recovery-search-bounded', 'C12.R3b', (UI, "                real_index = sys.path.index(self.dpath)\n", "                real_index = sys.path.index(self.dpath, self.index)\n")),
    silent('explicit-start-stop-paired',
           (DE, "                        with cap:\n", "                        with cap:\n                            pass\n                        cap.start()\n                        try:\n                            pass\n                        finally:\n                            cap.stop()\n                        with cap:\n"),
           note='try/finally pairing is recognised as PAIRING, not as a bare start'),
    silent('stop-guard-renamed-consistently', (US, "self.enabled", "self.active", 0)),
]
