"""
C10 -- native runner tallies and exit status agree with the per-doctest outcomes.
"""
import ast

from ..context import need
from ..loader import AnalysisError
from .. import graph
from ..roles import node_calls, RUN
from ..resolve import walk_scope
from .common import fmt_facts, is_name, subscript_key, keys_read, BoolEval
from . import c02

EXPLANATION = (
    'R1 the three summary flags of a doctest are exclusive and exhaustive (truth table, shared with C02.R6). '
    'R2 in runner._run_examples the failed list is appended exactly under "not skipped and not passed" (full set of dominating guards), and '
    'every iteration performs exactly one example.run and one summaries.append on its normal paths. '
    'R3 TABLE-AGREE on dictionary keys: keys read from a per-doctest summary are written by DocTest._post_run; each n_<k> of the run summary '
    'is a sum over the summaries reading key <k>, n_total is the number of gathered examples, and every key read from a run summary (subscript or '
    '.get) in runner.py / __main__.py is written by a run-summary literal (a misspelt key in .get(..., 0) would silently always exit 0). '
    'R4 SIGN: in __main__.main every return reachable after the run is 0 when n_failed is 0 and non-zero when it is positive, and the module '
    'passes main()\'s result to sys.exit. R5 FINITE-EVAL of the gathering loop: an example is gathered iff (all|dump or named) and not (all|dump and disabled); '
    'all|dump is true exactly for those two commands. The text printed by `list` is not decided.'
    ' R5 the gathering decision is evaluated over the 12 rows command x named x disabled for a loop, comprehension, mode split, selection flag or helper form, and a doctest is named by membership in valid_testnames. R6 also: one prompt per marker pattern (no fused literals). R8 `list` names every collected example at the default log level.')
DECIDES = ['FINITE-EVAL summary flags', 'GUARD-DOM failed list + PATH-COUNT run/append', 'TABLE-AGREE writer/reader keys', 'SIGN exit status', 'FINITE-EVAL gathering']
NOT_DECIDED = ['text of the `list` command', 'zero-argument fallback gathering', 'output formatting of the summary']

RUNEX = 'xdoctest.runner._run_examples'
DM = 'xdoctest.runner.doctest_module'
MAIN = 'xdoctest.__main__.main'


def run(ctx):
    for fn in (r1_flags, r2_failed_list, r3_keys, r4_exit_status, r5_gathering, r6_disable_marker_anchored, r7_no_mutation_of_iterated_lists, r8_list_names_every_example, r9_native_mode_is_set, r10_rerun_command_names_one_doctest):
        ctx.rep.rule(fn, ctx)


def r1_flags(ctx):
    c02.r6_summary_flags(ctx, rule='C10.R1')


def _run_calls(ctx, f, g):
    out = []
    for n in g.nodes:
        for c in node_calls(n):
            r = ctx.res.resolve_call(f, c)
            if (r[0] in ('repo', 'method')) and any(x.qualname == RUN for x in (r[1] if r[0] == 'repo' else r[2])):
                out.append((n, c))
    return out


def r2_failed_list(ctx):
    rep = ctx.rep
    f = ctx.func(RUNEX)
    g = ctx.cfg(f)
    rd = ctx.rd(f)
    runs = _run_calls(ctx, f, g)
    need(runs, 'C10.R2: example.run call not found')
    loops = [fr for fr in runs[0][0].frames if fr.kind == 'loop']
    need(loops, 'C10.R2: example.run is not inside a loop')
    head = loops[-1].head
    entry, cut = graph.region_of_loop(g, head)
    dom = ctx.dom(g, entry, cut)
    # the summary variable: result of the run call
    sumvar = None
    for (n, c) in runs:
        if isinstance(n.ast, ast.Assign) and isinstance(n.ast.targets[0], ast.Name):
            sumvar = n.ast.targets[0].id
    need(sumvar, 'C10.R2: result of example.run is not bound to a local')
    appends = [n for n in g.nodes if n.kind == 'stmt' and not n.dup and any(isinstance(c.func, ast.Attribute) and c.func.attr == 'append' and is_name(c.func.value, 'failed') for c in node_calls(n))]
    rep.floor('C10.R2', 'failed.append sites', len(appends), 1)
    for a in appends:
        facts = [fa for fa in graph.guard_facts(dom, a) if fa.polarity in (True, False)]
        got = set()
        other = []
        for fa in facts:
            k = subscript_key(fa.expr) if isinstance(fa.expr, ast.AST) else None
            if k and k[0] == sumvar:
                got.add((k[1], fa.polarity))
            else:
                other.append(repr(fa))
        ok = got == {('skipped', False), ('passed', False)} and not other
        rep.ob('C10.R2', ctx.loc(f, a.ast), ctx.src(a.ast), ok,
               'appended exactly when the doctest is neither skipped nor passed' if ok else
               'the failed list is appended under %s%s: it is not the set of doctests that failed' % (sorted(got), (' and ' + ', '.join(other)) if other else ''), anchor=RUNEX)
        # what is appended is the loop's example
        c = [c for c in node_calls(a) if isinstance(c.func, ast.Attribute) and c.func.attr == 'append'][0]
        tgt = head.ast.target
        ok = isinstance(tgt, ast.Name) and c.args and is_name(c.args[0], tgt.id)
        rep.ob('C10.R2', ctx.loc(f, a.ast), 'appends the current example', ok, ctx.src(c), nontrivial=False, anchor=RUNEX)
    run_nodes = [n for (n, _) in runs]
    sapp = [n for n in g.nodes if n.kind == 'stmt' and not n.dup and any(isinstance(c.func, ast.Attribute) and c.func.attr == 'append' and is_name(c.func.value, 'summaries') for c in node_calls(n))]
    rep.floor('C10.R2', 'summaries.append sites', len(sapp), 1)
    for what, nodes in (('example.run', run_nodes), ('summaries.append', sapp)):
        res = graph.count_events(entry, lambda x: any(x is y for y in nodes), lambda x: x is head, efilter=graph.normal_only)
        need(res, 'C10.R2: runner loop has no normal back edge')
        (_, lo, hi, wlo, whi) = next(iter(res.values()))
        rep.ob('C10.R2', ctx.loc(f, head.ast), '%s per iteration' % what, (lo, hi) == (1, 1),
               'exactly one %s on every normal path through an iteration' % what if (lo, hi) == (1, 1) else 'between %d and %d %s per example' % (lo, hi, what),
               witness=None if (lo, hi) == (1, 1) else graph.fmt_path(wlo if lo != 1 else whi, f.module.relpath), anchor=RUNEX)
    # appended summary is the result of this run
    for s in sapp:
        c = [c for c in node_calls(s) if isinstance(c.func, ast.Attribute) and c.func.attr == 'append'][0]
        ok = c.args and is_name(c.args[0], sumvar) and all(any(d.node is rn for rn in run_nodes) for d in rd.at(s, sumvar))
        rep.ob('C10.R2', ctx.loc(f, s.ast), ctx.src(s.ast), ok, 'the appended summary is the result of this iteration\'s run' if ok else 'the appended summary is not the result of the run', anchor=RUNEX)
    # the loop iterates the gathered examples
    it = head.ast.iter
    params = [a.arg for a in f.node.args.args]
    ok = isinstance(it, ast.Name) and it.id == params[0]
    rep.ob('C10.R2', ctx.loc(f, head.ast), 'loop over the gathered examples', ok, ctx.src(it), nontrivial=False, anchor=RUNEX)


def _dict_literals_with(ctx, f, required):
    out = []
    for n in walk_scope(f.node):
        if isinstance(n, ast.Dict):
            keys = [k.value for k in n.keys if isinstance(k, ast.Constant)]
            if required <= set(keys):
                out.append(n)
    return out


def r3_keys(ctx):
    rep = ctx.rep
    # writer 1: per-doctest summary
    fpost, gpost, rdpost, node, exprs = c02.summary_flag_exprs(ctx)
    summary_keys = set()
    for n in ast.walk(fpost.node):
        if isinstance(n, ast.Dict) and {'passed', 'skipped', 'failed'} <= {k.value for k in n.keys if isinstance(k, ast.Constant)}:
            summary_keys = {k.value for k in n.keys if isinstance(k, ast.Constant)}
    f = ctx.func(RUNEX)
    g = ctx.cfg(f)
    rd = ctx.rd(f)
    runs = _run_calls(ctx, f, g)
    sumvars = [n.ast.targets[0].id for (n, c) in runs if isinstance(n.ast, ast.Assign) and isinstance(n.ast.targets[0], ast.Name)]
    need(sumvars, 'C10.R3: the summary returned by example.run is not bound to a local in _run_examples')
    sumvar = sumvars[0]
    read = {}
    for n in walk_scope(f.node):
        k = subscript_key(n)
        if k and isinstance(n.ctx, ast.Load) and k[0] in (sumvar, 's'):
            read.setdefault(k[1], n)
    rep.floor('C10.R3', 'summary keys read by the runner', len(read), 2)
    for key, n in sorted(read.items()):
        rep.ob('C10.R3', ctx.loc(f, n), "%s['%s']" % (ast.unparse(n.value), key), key in summary_keys,
               'key is written by DocTest._post_run' if key in summary_keys else 'the runner reads summary key %r which _post_run never writes' % key, anchor=RUNEX)
    # writer 2: run summary literals
    lits = _dict_literals_with(ctx, f, {'n_failed'})
    need(len(lits) == 1, 'C10.R3: run summary literal not found in _run_examples')
    rs = lits[0]
    rs_keys = {k.value for k in rs.keys if isinstance(k, ast.Constant)}
    all_rs_keys = set(rs_keys)
    fdm = ctx.func(DM)
    for n in walk_scope(fdm.node):
        if isinstance(n, ast.Dict) and any(isinstance(k, ast.Constant) and k.value == 'action' for k in n.keys):
            all_rs_keys |= {k.value for k in n.keys if isinstance(k, ast.Constant)}
    rs_node = [n for n in g.nodes if n.kind == 'stmt' and any(x is rs for x in ast.walk(n.ast))][0]
    for key, v in zip(rs.keys, rs.values):
        kk = key.value
        if kk in ('n_passed', 'n_failed', 'n_skipped'):
            want_key = kk[2:]
            ok = False
            src = v
            if isinstance(v, ast.Name):
                defs = rd.at(rs_node, v.id)
                src = defs[0].value if len(defs) == 1 and isinstance(defs[0].value, ast.AST) else None
            keyenv = {}
            tk = subscript_key(src) if src is not None else None
            if tk is not None:
                # `tally = {key: sum(s[key] for s in summaries) for key in ('passed', ...)}` read by constant key
                defs = rd.at(rs_node, tk[0])
                dc = defs[0].value if len(defs) == 1 and isinstance(defs[0].value, ast.AST) else None
                if isinstance(dc, ast.DictComp) and len(dc.generators) == 1 and not dc.generators[0].ifs \
                        and isinstance(dc.generators[0].target, ast.Name) and is_name(dc.key, dc.generators[0].target.id) \
                        and isinstance(dc.generators[0].iter, (ast.Tuple, ast.List, ast.Set)) \
                        and all(isinstance(e, ast.Constant) for e in dc.generators[0].iter.elts):
                    need(tk[1] in [e.value for e in dc.generators[0].iter.elts], 'C10.R3: %s reads a key the tally comprehension does not produce' % kk)
                    keyenv = {dc.generators[0].target.id: tk[1]}
                    src = dc.value
                elif isinstance(dc, ast.Dict):
                    hit = [v2 for k2, v2 in zip(dc.keys, dc.values) if isinstance(k2, ast.Constant) and k2.value == tk[1]]
                    need(len(hit) == 1, 'C10.R3: %s reads a key the tally literal does not hold' % kk)
                    src = hit[0]
                else:
                    need(False, 'C10.R3: the source of %s (%s) is not a recognised tally' % (kk, ctx.src(src)))
            if src is None and isinstance(v, ast.Name):
                # several definitions: wrong as soon as one of them is not the full sum (decided below on that one)
                cands = [d.value for d in rd.at(rs_node, v.id) if isinstance(d.value, ast.AST)]
                need(cands and len(cands) == len(rd.at(rs_node, v.id)), 'C10.R3: the definition of %s is not resolvable' % kk)
                bad = [c for c in cands if not (isinstance(c, ast.Call) and is_name(c.func, 'sum'))]
                src = bad[0] if bad else cands[0]
            if isinstance(src, ast.Call) and is_name(src.func, 'sum') and src.args:
                gen = src.args[0]
                if isinstance(gen, (ast.GeneratorExp, ast.ListComp)) and len(gen.generators) == 1:
                    it = gen.generators[0].iter
                    k = subscript_key(gen.elt)
                    if k is None and isinstance(gen.elt, ast.Subscript) and isinstance(gen.elt.value, ast.Name) \
                            and isinstance(gen.elt.slice, ast.Name) and gen.elt.slice.id in keyenv:
                        k = (gen.elt.value.id, keyenv[gen.elt.slice.id])
                    ok = is_name(it, 'summaries') and k is not None and k[1] == want_key and not gen.generators[0].ifs
            need(ok or any(is_name(x, 'summaries') for x in ast.walk(src)),
                 'C10.R3: %s is computed as %s, which this rule cannot relate to the per-doctest summaries' % (kk, ctx.src(src)))
            rep.ob('C10.R3', ctx.loc(f, v), "'%s': %s" % (kk, ctx.src(src) if src is not None else '?'), ok,
                   "sum over all summaries of key '%s'" % want_key if ok else "%s is not the sum of summary['%s'] over all doctests run" % (kk, want_key), anchor=RUNEX)
        if kk == 'n_total':
            src = v
            if isinstance(v, ast.Name):
                defs = rd.at(rs_node, v.id)
                src = defs[0].value if len(defs) == 1 and isinstance(defs[0].value, ast.AST) else None
            params = [a.arg for a in f.node.args.args]
            ok = isinstance(src, ast.Call) and is_name(src.func, 'len') and src.args and is_name(src.args[0], params[0])
            rep.ob('C10.R3', ctx.loc(f, v), "'n_total': %s" % (ctx.src(src) if src is not None else '?'), ok,
                   'number of gathered examples' if ok else 'n_total is not the number of gathered examples', anchor=RUNEX)
        if kk == 'failed':
            ok = is_name(v, 'failed')
            rep.ob('C10.R3', ctx.loc(f, v), "'failed': %s" % ctx.src(v), ok, 'the failed list' if ok else 'the failed entry is not the failed list', nontrivial=False, anchor=RUNEX)
    # readers of the run summary
    readers = []
    for q in (DM, 'xdoctest.runner._print_summary_report', 'xdoctest.runner._auto_disable_failing_tests_hook', MAIN):
        fn = ctx.func(q)
        for n in walk_scope(fn.node):
            k = subscript_key(n)
            if k and isinstance(n.ctx, ast.Load) and k[0] == 'run_summary':
                readers.append((fn, n, k[1]))
            if isinstance(n, ast.Call) and isinstance(n.func, ast.Attribute) and n.func.attr == 'get' and is_name(n.func.value, 'run_summary') and n.args and isinstance(n.args[0], ast.Constant):
                readers.append((fn, n, n.args[0].value))
    rep.floor('C10.R3', 'reads of the run summary', len(readers), 5)
    for (fn, n, key) in readers:
        rep.ob('C10.R3', ctx.loc(fn, n), ctx.src(n), key in all_rs_keys,
               'key is written by a run-summary literal' if key in all_rs_keys else
               'run summary key %r is read but never written: with .get(..., default) the default is silently used' % key, anchor=fn.qualname)
    rep.note('key_tables', {'summary_keys': sorted(summary_keys), 'run_summary_keys': sorted(all_rs_keys)})


# ---------------------------------------------------------------------------
def _is_subject(e, var):
    """the count under test: a local name, or (var = '@<text>') the read expression itself when it is used in place"""
    if var.startswith('@'):
        return isinstance(e, ast.AST) and ' '.join(ast.unparse(e).split()) == var[1:]
    return is_name(e, var)


def sign_of(e, var, sign):
    """sign ('zero' | 'nonzero' | None) of integer expression e when `var` is zero / positive"""
    if isinstance(e, ast.Constant) and isinstance(e.value, (int, bool)):
        return 'zero' if not e.value else 'nonzero'
    if _is_subject(e, var):
        return 'zero' if sign == 'zero' else 'nonzero'
    t = truth_of(e, var, sign)
    if t is not None and isinstance(e, (ast.Compare, ast.BoolOp, ast.UnaryOp)):
        return 'nonzero' if t else 'zero'
    if isinstance(e, ast.Call) and isinstance(e.func, ast.Name) and e.func.id in ('int', 'bool') and len(e.args) == 1:
        t = truth_of(e.args[0], var, sign)
        if t is not None:
            return 'nonzero' if t else 'zero'
        return sign_of(e.args[0], var, sign)
    if isinstance(e, ast.Call) and is_name(e.func, 'min') and len(e.args) == 2:
        s = [sign_of(a, var, sign) for a in e.args]
        if None not in s:
            # min of non-negative values
            return 'zero' if 'zero' in s else 'nonzero'
    if isinstance(e, ast.IfExp):
        t = truth_of(e.test, var, sign)
        if t is not None:
            return sign_of(e.body if t else e.orelse, var, sign)
    return None


def bounded_status(e, var):
    """the integer is within 0..255 whatever the count is (an exit status is truncated to one byte by the OS)"""
    if isinstance(e, ast.Constant) and isinstance(e.value, (int, bool)):
        return 0 <= int(e.value) <= 255
    if isinstance(e, (ast.Compare, ast.BoolOp)) or (isinstance(e, ast.UnaryOp) and isinstance(e.op, ast.Not)):
        return True
    if isinstance(e, ast.Call) and isinstance(e.func, ast.Name) and e.func.id == 'bool':
        return True
    if isinstance(e, ast.Call) and isinstance(e.func, ast.Name) and e.func.id == 'int' and len(e.args) == 1:
        return bounded_status(e.args[0], var)
    if isinstance(e, ast.Call) and is_name(e.func, 'min') and len(e.args) == 2:
        return any(bounded_status(a, var) for a in e.args)
    if isinstance(e, ast.IfExp):
        return bounded_status(e.body, var) and bounded_status(e.orelse, var)
    return False


def truth_of(e, var, sign):
    if _is_subject(e, var):
        return sign != 'zero'
    if isinstance(e, ast.UnaryOp) and isinstance(e.op, ast.Not):
        t = truth_of(e.operand, var, sign)
        return None if t is None else not t
    if isinstance(e, ast.Compare) and len(e.ops) == 1 and _is_subject(e.left, var) and isinstance(e.comparators[0], ast.Constant) and isinstance(e.comparators[0].value, int):
        c = e.comparators[0].value
        op = e.ops[0]
        # var in {0} or var in {1, 2, ...}
        if sign == 'zero':
            v = 0
            return {ast.Gt: v > c, ast.GtE: v >= c, ast.Lt: v < c, ast.LtE: v <= c, ast.Eq: v == c, ast.NotEq: v != c}.get(type(op))
        # positive: decide only when every positive value agrees
        vals = [1, 2, 3, 10 ** 6]
        res = {({ast.Gt: v > c, ast.GtE: v >= c, ast.Lt: v < c, ast.LtE: v <= c, ast.Eq: v == c, ast.NotEq: v != c}.get(type(op))) for v in vals}
        return res.pop() if len(res) == 1 else 'mixed'
    if isinstance(e, ast.Constant):
        return bool(e.value)
    return None


def r4_exit_status(ctx):
    rep = ctx.rep
    f = ctx.func(MAIN)
    g = ctx.cfg(f)
    rd = ctx.rd(f)
    # the variable read from key n_failed of the result of doctest_module
    cand = []
    for d in rd.defs:
        v = d.value
        if isinstance(v, ast.Call) and isinstance(v.func, ast.Attribute) and v.func.attr == 'get' and v.args and isinstance(v.args[0], ast.Constant) and v.args[0].value == 'n_failed':
            cand.append(d)
        elif isinstance(v, ast.Subscript) and subscript_key(v) and subscript_key(v)[1] == 'n_failed':
            cand.append(d)
    inline = None
    if not cand:
        # the count may be tested where it is read: `return 1 if run_summary.get('n_failed', 0) > 0 else 0`
        for n in g.nodes:
            if n.dup or n.kind not in ('stmt', 'test') or not isinstance(n.ast, ast.AST):
                continue
            for v in ast.walk(n.ast):
                if (isinstance(v, ast.Call) and isinstance(v.func, ast.Attribute) and v.func.attr == 'get' and v.args and isinstance(v.args[0], ast.Constant) and v.args[0].value == 'n_failed') or \
                        (isinstance(v, ast.Subscript) and subscript_key(v) and subscript_key(v)[1] == 'n_failed'):
                    inline = inline or (n, v)
    need(len(cand) == 1 or (not cand and inline is not None), "C10.R4: the read of run_summary['n_failed'] in main() was not found")
    if cand:
        d = cand[0]
        var = d.name
    else:
        class _D:
            pass
        d = _D()
        d.node, d.value, d.name = inline[0], inline[1], None
        var = '@' + ' '.join(ast.unparse(inline[1]).split())
    # default of .get must be falsy
    if isinstance(d.value, ast.Call) and len(d.value.args) > 1:
        dv = d.value.args[1]
        ok = isinstance(dv, ast.Constant) and not dv.value
        rep.ob('C10.R4', ctx.loc(f, d.value), ctx.src(d.value), ok, 'missing key (list / dump) counts as zero failures' if ok else 'default of the n_failed read is not zero', nontrivial=False, anchor=MAIN)
    # the dict comes from doctest_module
    base = d.value.func.value if isinstance(d.value, ast.Call) else d.value.value
    src_ok = False
    if isinstance(base, ast.Name):
        for dd in rd.at(d.node, base.id):
            if isinstance(dd.value, ast.Call) and ast.unparse(dd.value.func).endswith('doctest_module'):
                src_ok = True
    rep.ob('C10.R4', ctx.loc(f, d.value), 'n_failed is read from the result of doctest_module', src_ok, ctx.src(d.node.ast), nontrivial=False, anchor=MAIN)
    for sign in ('zero', 'pos'):
        def ef(a, b, kind, tok, sign=sign):
            if kind != 'n':
                return False
            if b.kind == 'branch' and b.attrs['test'].kind == 'test':
                t = truth_of(b.attrs['test'].ast, var, sign)
                if t in (True, False) and b.attrs['polarity'] != t:
                    return False
            return True
        reach = graph.reachable(d.node.nsucc() if cand else [d.node], efilter=ef)
        rets = [n for n in reach if n.kind == 'stmt' and isinstance(n.ast, ast.Return)]
        implicit = any(x is g.exit for n in reach if not (n.kind == 'stmt' and isinstance(n.ast, ast.Return)) for x in n.nsucc())
        ok = bool(rets) and not implicit
        bad = []
        for rn in rets:
            s = sign_of(rn.ast.value, var, sign) if rn.ast.value is not None else 'zero'
            want = 'zero' if sign == 'zero' else 'nonzero'
            if s != want:
                ok = False
                bad.append((rn, s))
            elif sign == 'pos' and rn.ast.value is not None and not bounded_status(rn.ast.value, var):
                ok = False
                bad.append((rn, 'unbounded: the process exit status is this value modulo 256, so 256 failing doctests exit 0'))
        rep.ob('C10.R4', ctx.loc(f, (bad[0][0].ast if bad else rets[0].ast) if rets else f.node), 'exit status | n_failed %s' % ('== 0' if sign == 'zero' else '> 0'), ok,
               'every reachable return is %s' % ('0' if sign == 'zero' else 'non-zero') if ok else
               'with n_failed %s main() can return %s' % ('== 0' if sign == 'zero' else '> 0', [('`%s` (%s)' % (ctx.src(r.ast), s)) for (r, s) in bad] or 'without a value'), anchor=MAIN)
    # __main__ block: sys.exit(main())
    mod = f.module
    ok = False
    for n in ast.walk(mod.tree):
        if isinstance(n, ast.Call) and ast.unparse(n.func) == 'sys.exit' and n.args:
            a = n.args[0]
            if isinstance(a, ast.Call) and is_name(a.func, 'main'):
                ok = True
            elif isinstance(a, ast.Name):
                for m in ast.walk(mod.tree):
                    if isinstance(m, ast.Assign) and any(is_name(t, a.id) for t in m.targets) and isinstance(m.value, ast.Call) and is_name(m.value.func, 'main'):
                        ok = True
    rep.ob('C10.R4', 'src/%s:1' % mod.relpath, 'sys.exit(main())', ok, 'the process exit status is the value returned by main()' if ok else 'the result of main() is not passed to sys.exit', anchor=mod.name)


# ---------------------------------------------------------------------------
def _with(val, env):
    out = val.__class__(val)
    out.update({'@' + k: v for k, v in env.items()})
    return out


def _val_reach(g, starts, val, be, stop=(), strict=True):
    """nodes reachable along normal edges when the atoms have the values `val`: branches whose test evaluates to the other polarity are pruned.
    Boolean locals assigned from atom expressions (`is_selected = not example.is_disabled()`) are carried along the path.  In strict mode a test
    that cannot be evaluated is an analysis error; otherwise it does not prune."""
    from collections import deque
    stop = set(id(x) for x in stop)
    seen = set()
    out = {}
    work = deque((s_, ()) for s_ in starts)
    while work:
        n, envt = work.popleft()
        if (id(n), envt) in seen:
            continue
        seen.add((id(n), envt))
        out[id(n)] = n
        if id(n) in stop:
            continue
        env = dict(envt)
        if n.kind == 'stmt' and isinstance(n.ast, ast.Assign) and len(n.ast.targets) == 1 and isinstance(n.ast.targets[0], ast.Name):
            nm = n.ast.targets[0].id
            try:
                env[nm] = be.eval(n.ast.value, _with(val, env))
            except AnalysisError:
                env.pop(nm, None)
        nenvt = tuple(sorted(env.items()))
        for (t, kind, tok) in n.succ:
            if kind != 'n':
                continue
            if t.kind == 'branch' and t.attrs['test'].kind == 'test' and t.attrs['polarity'] in (True, False):
                try:
                    tr = be.eval(t.attrs['test'].ast, _with(val, env))
                except AnalysisError:
                    if strict:
                        raise
                    tr = None
                if tr is not None and tr != t.attrs['polarity']:
                    continue
            work.append((t, nenvt))
    return list(out.values())


def _literal_tables(fnode):
    """locals of a function that are bound exactly once, to a tuple / list / set of string constants (possibly empty)"""
    seen = {}
    for x in ast.walk(fnode):
        if isinstance(x, ast.Name) and isinstance(x.ctx, (ast.Store, ast.Del)):
            seen[x.id] = seen.get(x.id, 0) + 1
    out = {}
    for x in ast.walk(fnode):
        if isinstance(x, ast.Assign) and len(x.targets) == 1 and isinstance(x.targets[0], ast.Name) and seen.get(x.targets[0].id) == 1 and \
                isinstance(x.value, (ast.Tuple, ast.List, ast.Set)) and all(isinstance(y, ast.Constant) and isinstance(y.value, str) for y in x.value.elts):
            out[x.targets[0].id] = x.value
    return out


def _selection_atoms(names, ex, false_names=(), tables=None):
    """atoms of the gathering decision in a host function: names = {'G': <name of the all/dump flag>, 'command': <name>}"""
    tables = tables or {}

    def atom_of(e):
        if isinstance(e, ast.Name) and e.id == names.get('G'):
            return ('G', True)
        if isinstance(e, ast.Compare) and len(e.ops) == 1 and isinstance(e.ops[0], (ast.In, ast.NotIn)) and is_name(e.left, names.get('command')):
            c = e.comparators[0]
            if isinstance(c, ast.Name) and c.id in tables and c.id not in false_names:
                c = tables[c.id]
                if not c.elts:
                    return ('FALSE', isinstance(e.ops[0], ast.In))
            if isinstance(c, ast.Attribute) and c.attr == 'valid_testnames' and is_name(c.value, ex):
                return ('N', isinstance(e.ops[0], ast.In))
            if isinstance(c, ast.Name) and c.id in false_names:
                return ('FALSE', isinstance(e.ops[0], ast.In))
            if isinstance(c, (ast.Tuple, ast.List, ast.Set)) and all(isinstance(y, ast.Constant) and isinstance(y.value, str) for y in c.elts):
                return ('CMDIN=' + '|'.join(y.value for y in c.elts), isinstance(e.ops[0], ast.In))
        if isinstance(e, ast.Compare) and len(e.ops) == 1 and isinstance(e.ops[0], (ast.Eq, ast.NotEq)) and is_name(e.left, names.get('command')) \
                and isinstance(e.comparators[0], ast.Constant) and isinstance(e.comparators[0].value, str):
            return ('CMD=' + e.comparators[0].value, isinstance(e.ops[0], ast.Eq))
        if isinstance(e, ast.Call) and isinstance(e.func, ast.Attribute) and e.func.attr == 'is_disabled' and is_name(e.func.value, ex) and not e.args and not e.keywords:
            return ('D', True)
        if isinstance(e, ast.Name):
            return ('@' + e.id, True)
        return None
    return atom_of


class _PathBool(BoolEval):
    def eval(self, e, val, depth=0):
        if isinstance(e, ast.Name):
            a = self.atom_of(e)
            if a is not None and a[0] not in val:
                raise AnalysisError('unrecognised boolean atom: %s' % e.id)
        return BoolEval.eval(self, e, val, depth)


def _comp_over(e, src_name):
    """(comprehension, element variable) when e is [x for x in <src_name> if ...] / list(...) / a generator over src_name yielding its elements"""
    if isinstance(e, ast.Call) and is_name(e.func, 'list') and len(e.args) == 1:
        e = e.args[0]
    if isinstance(e, (ast.ListComp, ast.GeneratorExp)) and len(e.generators) == 1 and is_name(e.generators[0].iter, src_name) \
            and isinstance(e.generators[0].target, ast.Name) and is_name(e.elt, e.generators[0].target.id):
        return e, e.generators[0].target.id
    return None, None


def _gathering_model(ctx, f, g):
    """how doctest_module decides which collected examples run: returns gathered(val) for val over G (all|dump), N (named), D (disabled),
    and a location for the report.  Recognised forms: a loop over `examples` that appends; one or more comprehensions over `examples` stored in
    `enabled_examples`; either of them inside one helper of runner.py that is handed `examples`."""
    def model_in(host, hg, names, src_name, false_names, strict_all):
        sites = []
        # (a) append inside a loop over the source list
        apps = [n for n in hg.nodes if n.kind == 'stmt' and not n.dup and any(isinstance(c.func, ast.Attribute) and c.func.attr == 'append' for c in node_calls(n))
                and any(fr.kind == 'loop' and is_name(fr.stmt.iter, src_name) for fr in n.frames)]
        for a_ in apps:
            lf = [fr for fr in a_.frames if fr.kind == 'loop' and is_name(fr.stmt.iter, src_name)][-1]
            c = [c for c in node_calls(a_) if isinstance(c.func, ast.Attribute) and c.func.attr == 'append'][0]
            if isinstance(lf.stmt.target, ast.Name) and c.args and is_name(c.args[0], lf.stmt.target.id):
                sites.append(('append', a_, lf.head, lf.stmt.target.id))
        # (b) comprehensions over the source list (assigned, returned or extended with)
        for n in hg.nodes:
            if n.kind != 'stmt' or n.dup:
                continue
            cands = []
            if isinstance(n.ast, (ast.Assign, ast.Return)) and n.ast.value is not None:
                cands.append(n.ast.value)
            for c in node_calls(n):
                if isinstance(c.func, ast.Attribute) and c.func.attr == 'extend' and len(c.args) == 1:
                    cands.append(c.args[0])
            for v in cands:
                comp, ex_ = _comp_over(v, src_name)
                if comp is not None:
                    sites.append(('comp', n, comp, ex_))
        return sites

    def gathered_in(host, hg, sites, names, false_names, val, strict_all):
        got = False
        for st in sites:
            be = _PathBool(_selection_atoms(names, st[3], false_names, _literal_tables(host.node)))
            v = val.__class__(val)
            v['FALSE'] = False
            if st[0] == 'append':
                _, a_, head, ex_ = st
                if not any(x is head for x in _val_reach(hg, [hg.entry], v, be, strict=strict_all)):
                    continue
                entry, cut = graph.region_of_loop(hg, head)
                if any(x is a_ for x in _val_reach(hg, [entry], v, be, stop=[head], strict=True)):
                    got = True
            else:
                _, n, comp, ex_ = st
                if not any(x is n for x in _val_reach(hg, [hg.entry], v, be, strict=strict_all)):
                    continue
                if all(be.eval(c, v) for c in comp.generators[0].ifs):
                    got = True
        return got

    names = {'G': 'gather_all', 'command': 'command'}
    sites = model_in(f, g, names, 'examples', (), False)
    if sites:
        return (lambda val: gathered_in(f, g, sites, names, (), val, False)), sites[0][1], len(sites)
    # (c) one helper that is handed the collected examples
    for n in g.nodes:
        if n.kind != 'stmt' or n.dup:
            continue
        for c in node_calls(n):
            if not any(is_name(a_, 'examples') for a_ in c.args):
                continue
            r = ctx.res.resolve_call(f, c)
            if r[0] != 'repo' or len(r[1]) != 1 or r[1][0].module is not f.module or r[1][0].cls is not None:
                continue
            h = r[1][0]
            hp = [a_.arg for a_ in h.node.args.posonlyargs + h.node.args.args]
            bind = {}
            for i, a_ in enumerate(c.args):
                if i < len(hp):
                    bind[hp[i]] = a_
            for kw in c.keywords:
                if kw.arg in hp:
                    bind[kw.arg] = kw.value
            inv = {v.id: k for k, v in bind.items() if isinstance(v, ast.Name)}
            if 'examples' not in inv:
                continue
            hnames = {'G': inv.get('gather_all'), 'command': inv.get('command')}
            need(hnames['G'] is not None and hnames['command'] is not None, 'C10.R5: the gathering helper %s is not handed gather_all and command by name' % h.name)
            # parameters that keep an empty default at this call can hold no command
            defaults = dict(zip(hp[len(hp) - len(h.node.args.defaults):], h.node.args.defaults))
            false_names = tuple(p_ for p_, dv in defaults.items() if p_ not in bind and isinstance(dv, (ast.Tuple, ast.List, ast.Set)) and not dv.elts)
            hg = ctx.cfg(h)
            hs = model_in(h, hg, hnames, inv['examples'], false_names, True)
            need(hs, 'C10.R5: no selection of examples recognised in helper %s' % h.name)
            return (lambda val: gathered_in(h, hg, hs, hnames, false_names, val, True)), n, len(hs)
    raise AnalysisError('C10.R5: how doctest_module selects the examples to run was not recognised (no loop, comprehension or helper over `examples`)')


def r5_gathering(ctx):
    rep = ctx.rep
    f = ctx.func(DM)
    g = ctx.cfg(f)
    rd = ctx.rd(f)
    # a doctest is named by exact membership in its set of valid names
    for func in [f] + [h for h in ctx.prog.funcs.values() if h.module is f.module and h.cls is None and h is not f]:
        for x in walk_scope(func.node):
            if isinstance(x, ast.Compare) and len(x.ops) == 1 and isinstance(x.ops[0], (ast.In, ast.NotIn)) and is_name(x.left, 'command') and isinstance(x.comparators[0], ast.Attribute) \
                    and isinstance(x.comparators[0].value, ast.Name) and x.comparators[0].value.id in ('example', 'ex', 'e') and x.comparators[0].attr != 'valid_testnames':
                rep.ob('C10.R5', ctx.loc(func, x), ctx.src(x), False,
                       'the requested name is looked up in `%s`, not in the set of valid names of the doctest: with a string this is a substring test, so naming `check:0` also runs '
                       '`recheck:0` (and force-disabled doctests whose name contains it)' % ctx.src(x.comparators[0]), anchor=func.qualname)
                return
    gathered, where, n_sites = _gathering_model(ctx, f, g)
    rep.floor('C10.R5', 'selection sites over the collected examples', n_sites, 1)
    a = where
    rows = []
    ok_all = True
    class _Val(dict):
        """valuation of the atoms; tests of the command against constants are evaluated for the concrete command of the row"""
        def __missing__(self, key):
            if key.startswith('CMD='):
                return self['@cmd'] == key[4:]
            if key.startswith('CMDIN='):
                return self['@cmd'] in key[6:].split('|')
            raise KeyError(key)

        def __contains__(self, key):
            return dict.__contains__(self, key) or key.startswith(('CMD=', 'CMDIN='))
    for G in (False, True):
        for N in (False, True):
            for D in (False, True):
                spec = (G or N) and not (G and D)
                for cmd in (('all', 'dump') if G else ('some_callname',)):
                    val = _Val({'G': G, 'N': N, 'D': D, '@cmd': cmd})
                    got = gathered(val)
                    rows.append({'command': cmd, 'all_or_dump': G, 'named': N, 'disabled': D, 'gathered': got})
                    if got != spec:
                        ok_all = False
    rep.ob('C10.R5', ctx.loc(f, a.ast), 'gathered <=> (all|dump or named) and not (all|dump and disabled)', ok_all,
           'truth table over the 12 rows (command x named x disabled) equals the specification' if ok_all else 'gathering differs from the specification: %s' % [r for r in rows if r['gathered'] != ((r['all_or_dump'] or r['named']) and not (r['all_or_dump'] and r['disabled']))],
           anchor=DM)
    rep.note('gathering_truth_table', rows)
    # gather_all is true exactly for 'all' and 'dump'
    defs = rd.defs_of('gather_all')
    need(len(defs) == 1 and isinstance(defs[0].value, ast.AST), 'C10.R5: gather_all has no single definition')
    gv = defs[0].value

    def ev_cmd(e, cmd):
        if isinstance(e, ast.BoolOp):
            vs = [ev_cmd(v, cmd) for v in e.values]
            return any(vs) if isinstance(e.op, ast.Or) else all(vs)
        if isinstance(e, ast.Compare) and len(e.ops) == 1 and is_name(e.left, 'command'):
            c = e.comparators[0]
            if isinstance(e.ops[0], (ast.Eq, ast.NotEq)) and isinstance(c, ast.Constant):
                return (cmd == c.value) == isinstance(e.ops[0], ast.Eq)
            if isinstance(e.ops[0], (ast.In, ast.NotIn)) and isinstance(c, (ast.Tuple, ast.List, ast.Set)):
                return (cmd in [x.value for x in c.elts if isinstance(x, ast.Constant)]) == isinstance(e.ops[0], ast.In)
        raise AnalysisError('C10.R5: unrecognised gather_all expression: %s' % ast.unparse(e))
    table = {cmd: ev_cmd(gv, cmd) for cmd in ('all', 'dump', 'list', 'some_callname')}
    ok = table == {'all': True, 'dump': True, 'list': False, 'some_callname': False}
    rep.ob('C10.R5', ctx.loc(f, defs[0].node.ast), ctx.src(defs[0].node.ast), ok,
           'true exactly for the commands all and dump' if ok else 'gather_all over {all, dump, list, <name>} = %s' % table, anchor=DM)
    # the gathered examples are what is run
    calls = [c for c in walk_scope(f.node) if isinstance(c, ast.Call) and ctx.res.resolve_call(f, c)[0] == 'repo' and ctx.res.resolve_call(f, c)[1][0].qualname == RUNEX]
    ok = bool(calls) and all(c.args and is_name(c.args[0], 'enabled_examples') for c in calls)
    rep.ob('C10.R5', ctx.loc(f, calls[0] if calls else f.node), '_run_examples(enabled_examples, ...)', ok, 'the gathered list is the list that is run' if ok else 'the list handed to the run loop is not the gathered list', nontrivial=False, anchor=DM)


def r10_rerun_command_names_one_doctest(ctx):
    """what `list` prints and what the failure summary offers for re-running is DocTest.cmdline: in native mode it must name ONE doctest, i.e.
    end with the unique call name (`func:0`), not with the name of the callable, which all doctests of one docstring share"""
    rep = ctx.rep
    q = 'xdoctest.doctest_example.DocTest.cmdline'
    f = ctx.func(q)
    g = ctx.cfg(f)
    recv = f.node.args.args[0].arg
    rets = [n for n in g.nodes if n.kind == 'stmt' and not n.dup and isinstance(n.ast, ast.Return) and n.ast.value is not None and
            any(isinstance(x, ast.Constant) and isinstance(x.value, str) and 'xdoctest' in x.value for x in ast.walk(n.ast.value))]
    rep.floor('C10.R10', 'native re-run commands built by DocTest.cmdline', len(rets), 1)
    for n in rets:
        attrs = [x.attr for x in ast.walk(n.ast.value) if isinstance(x, ast.Attribute) and is_name(x.value, recv)]
        ok = 'unique_callname' in attrs and 'callname' not in attrs
        rep.ob('C10.R10', ctx.loc(f, n.ast), ctx.src(n.ast, 100), ok,
               'the command names the doctest by its unique call name' if ok else
               'the command names the doctest by %s: every doctest of one callable gets the same name, `list` shows duplicates, and feeding a listed name back runs all of them '
               '(a force-disabled sibling included) instead of one' % ([a for a in attrs if a != 'modpath' and a != 'modname'] or 'nothing'), anchor=q)


# ---------------------------------------------------------------------------
FLAG_NAMES = {'I': 'IGNORECASE', 'M': 'MULTILINE', 'S': 'DOTALL', 'X': 'VERBOSE', 'A': 'ASCII', 'U': 'UNICODE', 'L': 'LOCALE'}


class _Re:
    """abstract value: a compiled pattern"""
    def __init__(self, pattern, flags):
        self.pattern = pattern
        self.flags = flags

    def __eq__(self, o):
        return isinstance(o, _Re) and (self.pattern, self.flags) == (o.pattern, o.flags)

    def __hash__(self):
        return hash((self.pattern, self.flags))

    def __repr__(self):
        return '_Re(%r, %r)' % (self.pattern, sorted(self.flags))


def _flag_value(e, env, mod):
    """frozenset of flag names denoted by a flags expression, or None"""
    if e is None:
        return frozenset()
    if isinstance(e, ast.Constant) and e.value == 0:
        return frozenset()
    if isinstance(e, ast.Attribute) and is_name(e.value, 're'):
        return frozenset([FLAG_NAMES.get(e.attr, e.attr)])
    if isinstance(e, ast.BinOp) and isinstance(e.op, ast.BitOr):
        a, b = _flag_value(e.left, env, mod), _flag_value(e.right, env, mod)
        return None if a is None or b is None else a | b
    if isinstance(e, ast.Attribute) and e.attr == 'flags':
        v = _value(e.value, env, mod)
        return v.flags if isinstance(v, _Re) else None
    return None


def _value(e, env, mod, depth=0):
    """abstract value of an expression: str, tuple of str (a list / tuple of constants), _Re, or None when not known"""
    if depth > 24:
        return None
    if isinstance(e, ast.Constant) and isinstance(e.value, str):
        return e.value
    if isinstance(e, (ast.List, ast.Tuple)):
        vs = [_value(x, env, mod, depth + 1) for x in e.elts]
        return tuple(vs) if all(isinstance(v, str) for v in vs) else None
    if isinstance(e, ast.Name):
        if e.id in env:
            return env[e.id] if not isinstance(env[e.id], bool) else None
        tops = [st for st in mod.tree.body if isinstance(st, ast.Assign) and len(st.targets) == 1 and is_name(st.targets[0], e.id)]
        aug = [st for st in mod.tree.body if isinstance(st, ast.AugAssign) and is_name(st.target, e.id)]
        if len(tops) == 1 and not aug:
            return _value(tops[0].value, {}, mod, depth + 1)
        return None
    if isinstance(e, ast.BinOp) and isinstance(e.op, ast.Add):
        a, b = _value(e.left, env, mod, depth + 1), _value(e.right, env, mod, depth + 1)
        if isinstance(a, str) and isinstance(b, str):
            return a + b
        if isinstance(a, tuple) and isinstance(b, tuple):
            return a + b
        return None
    if isinstance(e, ast.Attribute) and e.attr == 'pattern':
        v = _value(e.value, env, mod, depth + 1)
        return v.pattern if isinstance(v, _Re) else None
    if isinstance(e, ast.Attribute) and isinstance(e.value, ast.Name):
        # a constant of a class of this module, read through the instance, the class object or the class name
        hits = []
        for cls in mod.tree.body:
            if isinstance(cls, ast.ClassDef) and (e.value.id in ('self', 'cls') or e.value.id == cls.name):
                tops = [st for st in cls.body if isinstance(st, ast.Assign) and len(st.targets) == 1 and is_name(st.targets[0], e.attr)]
                stores = [x for x in ast.walk(cls) if isinstance(x, ast.Attribute) and x.attr == e.attr and isinstance(x.ctx, (ast.Store, ast.Del))]
                if len(tops) == 1 and not stores:
                    hits.append(tops[0].value)
        if len(hits) == 1:
            return _value(hits[0], {}, mod, depth + 1)
        return None
    if isinstance(e, ast.Call):
        fn = e.func
        if isinstance(fn, ast.Name) and fn.id in ('list', 'tuple') and len(e.args) == 1 and not e.keywords:
            v = _value(e.args[0], env, mod, depth + 1)
            return v if isinstance(v, tuple) else None
        if isinstance(fn, ast.Attribute) and fn.attr == 'join' and len(e.args) == 1:
            sep, seq = _value(fn.value, env, mod, depth + 1), _value(e.args[0], env, mod, depth + 1)
            if isinstance(sep, str) and isinstance(seq, tuple):
                return sep.join(seq)
            return None
        if isinstance(fn, ast.Attribute) and fn.attr == 'compile' and is_name(fn.value, 're') and e.args:
            pat = _value(e.args[0], env, mod, depth + 1)
            fl = _flag_value(next((k.value for k in e.keywords if k.arg == 'flags'), e.args[1] if len(e.args) > 1 else None), env, mod)
            if isinstance(pat, str) and fl is not None:
                return _Re(pat, fl)
            return None
    return None


def split_alternatives(pattern):
    """top-level alternatives of a regular expression source"""
    out, depth, cur, i, in_class = [], 0, '', 0, False
    while i < len(pattern):
        ch = pattern[i]
        if ch == '\\' and i + 1 < len(pattern):
            cur += pattern[i:i + 2]
            i += 2
            continue
        if in_class:
            in_class = ch != ']'
        elif ch == '[':
            in_class = True
        elif ch == '(':
            depth += 1
        elif ch == ')':
            depth -= 1
        elif ch == '|' and depth == 0:
            out.append(cur)
            cur = ''
            i += 1
            continue
        cur += ch
        i += 1
    out.append(cur)
    return tuple(out)


RE_METHODS = ('match', 'search', 'fullmatch', 'findall', 'finditer')


def disable_pattern_sets(ctx):
    """the marker patterns DocTest.is_disabled applies, separately for the native run (pytest flag false) and the plugin (true):
    a path-sensitive walk of its flow graph that evaluates strings, lists / tuples of string constants and compiled patterns through
    assignment, +, +=, extend, join, re.compile and module-level constants.
    -> (f, {flag: [applications]}) with application = dict(node, call, method, pattern, alts, flags, subject)"""
    from collections import deque
    f = ctx.func('xdoctest.doctest_example.DocTest.is_disabled')
    g = ctx.cfg(f)
    mod = f.module
    params = [a.arg for a in f.node.args.args][1:]
    need(len(params) == 1, 'C10.R6: is_disabled takes one flag')
    flag = params[0]
    out = {}
    for val in (False, True):
        found = []
        seen = set()
        work = deque([(g.entry, ((flag, val),))])
        while work:
            n, envt = work.popleft()
            if (id(n), envt) in seen:
                continue
            seen.add((id(n), envt))
            env = dict(envt)
            if not n.dup:
                for c in node_calls(n):
                    if not (isinstance(c.func, ast.Attribute) and c.func.attr in RE_METHODS):
                        continue
                    if is_name(c.func.value, 're') and c.args:
                        pat = _value(c.args[0], env, mod)
                        fl = _flag_value(next((k.value for k in c.keywords if k.arg == 'flags'), c.args[2] if len(c.args) > 2 else None), env, mod)
                        subj = c.args[1] if len(c.args) > 1 else None
                    else:
                        rv = _value(c.func.value, env, mod)
                        if not isinstance(rv, _Re):
                            if c.func.attr in ('match', 'search', 'fullmatch'):
                                need(False, 'C10.R6: the pattern object applied by %s is not known' % ctx.src(c, 80))
                            continue
                        pat, fl = rv.pattern, rv.flags
                        subj = c.args[0] if c.args else None
                    if isinstance(pat, tuple) and pat[:1] == ('@each',):
                        # applied to every element of a constant sequence in turn: the same language as their alternation
                        pat = '|'.join(pat[1])
                    need(isinstance(pat, str) and fl is not None, 'C10.R6: the pattern applied by %s is not built from constant marker patterns' % ctx.src(c, 80))
                    found.append({'node': n, 'call': c, 'method': c.func.attr, 'pattern': pat, 'alts': split_alternatives(pat), 'flags': fl, 'subject': subj})
            if n.kind == 'for' and isinstance(n.ast, ast.For) and isinstance(n.ast.target, ast.Name):
                seq = _value(n.ast.iter, env, mod)
                if isinstance(seq, tuple) and seq and all(isinstance(x, str) for x in seq):
                    env[n.ast.target.id] = ('@each', seq)
                else:
                    env.pop(n.ast.target.id, None)
            if n.kind == 'stmt':
                st = n.ast
                if isinstance(st, ast.Assign) and len(st.targets) == 1 and isinstance(st.targets[0], ast.Name):
                    nm = st.targets[0].id
                    v = _value(st.value, env, mod)
                    if v is None and isinstance(st.value, ast.Constant) and isinstance(st.value.value, (bool, int, type(None))):
                        v = ('@const', st.value.value)
                    if v is None:
                        env.pop(nm, None)
                    else:
                        env[nm] = v
                elif isinstance(st, ast.AugAssign) and isinstance(st.target, ast.Name):
                    nm = st.target.id
                    v = _value(st.value, env, mod)
                    cur = _value(ast.Name(id=nm, ctx=ast.Load()), env, mod)
                    if isinstance(st.op, ast.Add) and ((isinstance(cur, tuple) and isinstance(v, tuple)) or (isinstance(cur, str) and isinstance(v, str))):
                        env[nm] = cur + v
                    else:
                        env[nm] = ('@unknown',)
                elif isinstance(st, ast.Expr) and isinstance(st.value, ast.Call) and isinstance(st.value.func, ast.Attribute) and isinstance(st.value.func.value, ast.Name):
                    nm, m, c = st.value.func.value.id, st.value.func.attr, st.value
                    cur = _value(ast.Name(id=nm, ctx=ast.Load()), env, mod)
                    if isinstance(cur, tuple) and m in ('insert', 'remove', 'pop', 'clear', 'sort', 'reverse', 'extend', 'append'):
                        arg = _value(c.args[0], env, mod) if len(c.args) == 1 else None
                        if m == 'extend' and isinstance(arg, tuple):
                            env[nm] = cur + arg
                        elif m == 'append' and isinstance(arg, str):
                            env[nm] = cur + (arg,)
                        else:
                            env[nm] = ('@unknown',)
            env = {k: (None if v == ('@unknown',) else v) for k, v in env.items()}
            env = {k: v for k, v in env.items() if v is not None or k == flag}
            tenv = {}
            for k, v in env.items():
                if isinstance(v, bool):
                    tenv[k] = v
                elif isinstance(v, tuple) and v[:1] == ('@const',):
                    tenv[k] = v[1]
            nenvt = tuple(sorted(env.items(), key=repr))
            for (t, kind, tok) in n.succ:
                if not graph.normal_only(n, t, kind, tok):
                    continue
                if t.kind == 'branch' and t.attrs['test'].kind == 'test' and t.attrs['polarity'] in (True, False):
                    tr = graph._env_truth(t.attrs['test'].ast, tenv)
                    if tr is not None and tr != t.attrs['polarity']:
                        continue
                work.append((t, nenvt))
        out[val] = found
    return f, out


def disable_marker_anchored(ctx, rule):
    """force-disabling is decided by the FIRST line of the doctest only: the marker patterns are matched anchored at the
    start of the doctest source (re.match, or an explicit \\A / ^ without MULTILINE); a search anywhere would silently
    drop every doctest that merely mentions such a comment later on"""
    rep = ctx.rep
    f, sets = disable_pattern_sets(ctx)
    recv = f.node.args.args[0].arg
    apps = {}
    for v in sets.values():
        for a in v:
            apps.setdefault(id(a['call']), []).append(a)
    rep.floor(rule, 'pattern applications in is_disabled', len(apps), 1)
    for lst in apps.values():
        c = lst[0]['call']
        subj = lst[0]['subject']
        if isinstance(subj, ast.Name):
            # the source held in a local first
            ds_ = [d for d in ctx.rd(f).at(lst[0]['node'], subj.id)]
            if len(ds_) == 1 and isinstance(ds_[0].value, ast.AST):
                subj = ds_[0].value
        on_src = subj is not None and isinstance(subj, ast.Attribute) and subj.attr == 'docsrc' and is_name(subj.value, recv)
        anchored = True
        for a in lst:
            if a['method'] == 'match':
                continue
            # every alternative must start with an explicit start anchor and MULTILINE must be off
            if not (a['method'] == 'search' and all(p.startswith(('\\A', '^')) for p in a['alts']) and ('MULTILINE' not in a['flags'] or all(p.startswith('\\A') for p in a['alts']))):
                anchored = False
        rep.ob(rule, ctx.loc(f, c), ctx.src(c, 100), anchored and on_src,
               'the markers are matched at the very start of the doctest source' if anchored and on_src else
               ('the disable markers are searched anywhere in the doctest source: a doctest that only mentions `# SCRIPT`, `# FAILING`, ... in a later line is force-disabled, '
                'i.e. never run by `all` and missing from the tallies' if on_src else 'the markers are not matched against the doctest source'), anchor=f.qualname)
    # first alternatives start with the primary prompt
    pats = sorted({p for v in sets.values() for a in v for p in a['alts']})
    ok = bool(pats) and all(p.lstrip('\\A^').startswith('>>>') for p in pats)
    rep.ob(rule, ctx.loc(f, f.node), 'every marker pattern starts with the prompt', ok, '%d pattern(s)' % len(pats), nontrivial=False, anchor=f.qualname)
    fused = [p for p in pats if p.count('>>>') > 1]
    rep.ob(rule, ctx.loc(f, f.node), 'one marker per pattern', not fused,
           'each alternative holds the prompt once' if not fused else
           'the alternative(s) %s hold the prompt more than once: two adjacent string literals of the pattern list were concatenated (a comma is missing), so neither marker is '
           'recognised any more and such doctests are run by `all`' % fused, anchor=f.qualname)


def r7_no_mutation_of_iterated_lists(ctx):
    """gathering and running visit every example once: no loop in runner.py changes the length of the list it is iterating"""
    from .common import mutations_while_iterating
    rep = ctx.rep
    mod = ctx.prog.module('xdoctest.runner')
    n = 0
    for func in [f_ for f_ in ctx.prog.funcs.values() if f_.module is mod]:
        loops = [x for x in ast.walk(func.node) if isinstance(x, ast.For) and isinstance(x.iter, ast.Name)]
        n += len(loops)
        for (loop, x) in mutations_while_iterating(func.node):
            rep.ob('C10.R7', ctx.loc(func, x), '%s inside `for ... in %s`' % (ctx.src(x), loop.iter.id), False,
                   'the list being iterated is modified in the loop body: the element that follows a removed one is never examined '
                   '(e.g. the second of two adjacent force-disabled doctests is run)', anchor=func.qualname)
    rep.ob('C10.R7', 'src/%s:1' % mod.relpath, 'loops over named lists in runner.py', True, '%d loops, none modifies the list it iterates (unless reported above)' % n, nontrivial=False, anchor='xdoctest.runner')
    rep.floor('C10.R7', 'loops over named lists in runner.py', n, 5)


def r6_disable_marker_anchored(ctx):
    disable_marker_anchored(ctx, 'C10.R6')


def r8_list_names_every_example(ctx):
    """`list` names every collected doctest: in the list branch of doctest_module the names are produced by ONE unfiltered pass over the collected
    examples and are logged at the default level (the level every other result line of the runner uses), not only when verbosity is raised"""
    rep = ctx.rep
    f = ctx.func(DM)
    g = ctx.cfg(f)
    dom = ctx.dom(g, g.entry)
    sites = []
    for n in g.nodes:
        if n.dup or n.kind != 'stmt':
            continue
        facts = graph.guard_facts(dom, n)
        if not any(fa.polarity is True and isinstance(fa.expr, ast.Compare) and is_name(fa.expr.left, 'command') and len(fa.expr.comparators) == 1 and
                   isinstance(fa.expr.comparators[0], ast.Constant) and fa.expr.comparators[0].value == 'list' and isinstance(fa.expr.ops[0], ast.Eq) for fa in facts):
            continue
        for c in node_calls(n):
            comps = [x for x in ast.walk(c) if isinstance(x, (ast.ListComp, ast.GeneratorExp)) and len(x.generators) == 1 and is_name(x.generators[0].iter, 'examples')]
            if comps and any(c is cc for cc in [c]) and not any(isinstance(p_, ast.Call) and p_ is not c and any(x is comps[0] for x in ast.walk(p_)) and
                                                                 isinstance(p_.func, ast.Name) and p_.func.id == c.func.id if isinstance(c.func, ast.Name) else False for p_ in ast.walk(c)):
                if isinstance(c.func, ast.Name):
                    sites.append((n, c, comps[0]))
    need(sites, 'C10.R8: the listing of the collected examples under command == "list" was not recognised')
    for (n, c, comp) in sites:
        ok_f = not comp.generators[0].ifs
        rep.ob('C10.R8', ctx.loc(f, comp), ctx.src(comp, 80), ok_f, 'every collected example is named' if ok_f else 'the listing filters the collected examples', anchor=DM)
        lv = next((k.value for k in c.keywords if k.arg == 'level'), None)
        ok_l = lv is None or (isinstance(lv, ast.Constant) and isinstance(lv.value, int) and lv.value <= 1)
        rep.ob('C10.R8', ctx.loc(f, c), '%s(<names>%s)' % (ctx.src(c.func), '' if lv is None else ', level=%s' % ctx.src(lv)), ok_l,
               'logged at the default level' if ok_l else
               'the names are logged at level %s only: at the default / lower verbosity `list` prints nothing and still exits 0' % ctx.src(lv), anchor=DM)


def r9_native_mode_is_set(ctx):
    """a DocTest is created in mode 'pytest' (in that mode run() raises pytest's Skipped for an all-skipped doctest).  The native runner therefore
    switches every collected example to 'native' before anything runs: without it an all-skipped doctest ends the native run with a foreign
    exception instead of being tallied as skipped"""
    rep = ctx.rep
    fi = ctx.func('xdoctest.doctest_example.DocTest.__init__')
    a = fi.node.args
    dflt = dict(zip([x.arg for x in a.args[len(a.args) - len(a.defaults):]], a.defaults))
    d = dflt.get('mode')
    default_native = isinstance(d, ast.Constant) and d.value == 'native'
    n = 0
    for q in (DM, 'xdoctest.runner.doctest_callable'):
        f = ctx.func(q)
        g = ctx.cfg(f)
        dom = ctx.dom(g, g.entry)
        runs = [nd for nd in g.nodes if not nd.dup for c in node_calls(nd) if ctx.res.resolve_call(f, c)[0] == 'repo' and ctx.res.resolve_call(f, c)[1][0].qualname == RUNEX]
        if not runs:
            continue
        sets = [nd for nd in g.nodes if nd.kind == 'stmt' and not nd.dup and isinstance(nd.ast, ast.Assign) and any(isinstance(t, ast.Attribute) and t.attr == 'mode' for t in nd.ast.targets)
                and isinstance(nd.ast.value, ast.Constant) and nd.ast.value.value == 'native']
        for rn in runs:
            n += 1
            heads = [fr.head for s_ in sets for fr in s_.frames if fr.kind == 'loop']
            ok = default_native or any(dom.dominates(h, rn) for h in heads) or any(dom.dominates(s_, rn) for s_ in sets)
            rep.ob('C10.R9', ctx.loc(f, rn.ast), '%s: examples are switched to native mode before _run_examples' % f.name, ok,
                   'every example handed to the run loop was set to mode "native"' if ok else
                   'the examples keep the constructor default mode "pytest": an all-skipped doctest raises pytest.skip() inside the native runner', anchor=q)
    rep.floor('C10.R9', 'native run entry points', n, 1)


# ---------------------------------------------------------------------------
from ..selftest import fire, silent      # noqa: E402

RN = 'xdoctest/runner.py'
MA = 'xdoctest/__main__.py'
DE = 'xdoctest/doctest_example.py'
VARIANTS = [
    fire('rerun-command-names-the-callable', 'C10.R10', ('xdoctest/doctest_example.py', "                # Probably safer to always use the path\n                return 'python -m xdoctest ' + self.modpath + ' ' + self.unique_callname\n", "                # Probably safer to always use the path\n                return 'python -m xdoctest ' + self.modpath + ' ' + self.callname\n")),
    fire('native-runner-keeps-pytest-mode', 'C10.R9', (RN, "        for example in examples:\n            example.mode = 'native'\n", "        for example in examples:\n            pass\n")),
    fire('dump-converts-disabled-doctests', 'C10.R5', (RN, "                if gather_all and example.is_disabled():\n", "                if command == 'all' and example.is_disabled():\n")),
    fire('two-disable-markers-fused', 'C10.R6', (DE, "            r'>>>\\s*#\\s*SCRIPT',\n", "            r'>>>\\s*#\\s*SCRIPT'\n")),
    fire('named-by-substring-of-callname', 'C10.R5', (RN, "            if gather_all or command in example.valid_testnames:\n", "            if gather_all or command in example.unique_callname:\n")),
    fire('list-only-when-verbose', 'C10.R8', (RN, "                                          for example in examples]))\n", "                                          for example in examples]), level=2)\n")),
    fire('disable-marker-searched-anywhere', 'C10.R6', ('xdoctest/doctest_example.py', "        m = re.match(pattern, self.docsrc, flags=re.IGNORECASE)\n", "        m = re.search(pattern, self.docsrc, flags=re.IGNORECASE)\n")),
    fire('exit-status-is-the-count', 'C10.R4', ('xdoctest/__main__.py', "    if n_failed > 0:\n        return 1\n    else:\n        return 0\n", "    return n_failed\n")),
    silent('exit-status-capped', ('xdoctest/__main__.py', "    if n_failed > 0:\n        return 1\n    else:\n        return 0\n", "    return min(n_failed, 1)\n")),
    fire('failed-list-includes-skipped', 'C10.R2', (RN, "            if summary['skipped']:\n                pass\n", "            if False:\n                pass\n")),
    fire('failed-list-only-when-verbose', 'C10.R2', (RN, "                failed.append(example)\n", "                if verbose:\n                    failed.append(example)\n")),
    fire('summary-not-recorded-for-skipped', 'C10.R2',
         (RN, "            summaries.append(summary)\n            if example.warn_list:\n", "            if not summary['skipped']:\n                summaries.append(summary)\n            if example.warn_list:\n")),
    fire('n-failed-counts-passed-key', 'C10.R3', (RN, "    n_failed = sum(s['failed'] for s in summaries)\n", "    n_failed = sum(s['passed'] for s in summaries)\n")),
    fire('n-failed-is-len-failed-of-last', 'C10.R3', (RN, "    n_failed = sum(s['failed'] for s in summaries)\n", "    n_failed = int(summaries[-1]['failed']) if summaries else 0\n")),
    fire('main-reads-misspelt-key', 'C10.R3', (MA, "    n_failed = run_summary.get('n_failed', 0)\n", "    n_failed = run_summary.get('n_fail', 0)\n")),
    fire('exit-status-needs-two-failures', 'C10.R4', (MA, "    if n_failed > 0:\n        return 1\n", "    if n_failed > 1:\n        return 1\n")),
    fire('exit-status-always-zero', 'C10.R4', (MA, "    if n_failed > 0:\n        return 1\n    else:\n        return 0\n", "    return 0\n")),
    fire('exit-status-inverted', 'C10.R4', (MA, "    if n_failed > 0:\n        return 1\n    else:\n        return 0\n", "    if n_failed > 0:\n        return 0\n    else:\n        return 1\n")),
    fire('retcode-dropped', 'C10.R4', (MA, "    retcode = main()\n    sys.exit(retcode)\n", "    retcode = main()\n    sys.exit()\n")),
    fire('named-disabled-doctest-dropped', 'C10.R5', (RN, "                if gather_all and example.is_disabled():\n", "                if example.is_disabled():\n")),
    fire('disabled-run-under-all', 'C10.R5', (RN, "                if gather_all and example.is_disabled():\n                    continue\n", "")),
    fire('list-gathers-all', 'C10.R5', (RN, "    gather_all = (command == 'all' or command == 'dump')\n", "    gather_all = (command == 'all' or command == 'dump' or command == 'list')\n")),
    fire('passed-flag-wrong', 'C10.R1', (DE, "        passed = not failed and not skipped\n", "        passed = not failed\n")),
    silent('gathering-as-comprehension', (RN, "        enabled_examples = []\n        for example in examples:\n            if gather_all or command in example.valid_testnames:\n                if gather_all and example.is_disabled():\n                    continue\n                enabled_examples.append(example)\n", "        enabled_examples = [example for example in examples if (gather_all or command in example.valid_testnames) and not (gather_all and example.is_disabled())]\n")),
    fire('gathering-comprehension-drops-named-disabled', 'C10.R5', (RN, "        enabled_examples = []\n        for example in examples:\n            if gather_all or command in example.valid_testnames:\n                if gather_all and example.is_disabled():\n                    continue\n                enabled_examples.append(example)\n", "        enabled_examples = [example for example in examples if (gather_all or command in example.valid_testnames) and not example.is_disabled()]\n")),
    silent('gathering-by-mode', (RN, "        enabled_examples = []\n        for example in examples:\n            if gather_all or command in example.valid_testnames:\n                if gather_all and example.is_disabled():\n                    continue\n                enabled_examples.append(example)\n", "        if gather_all:\n            enabled_examples = [example for example in examples if not example.is_disabled()]\n        else:\n            enabled_examples = [example for example in examples if command in example.valid_testnames]\n")),
    fire('gathering-by-mode-swapped', 'C10.R5', (RN, "        enabled_examples = []\n        for example in examples:\n            if gather_all or command in example.valid_testnames:\n                if gather_all and example.is_disabled():\n                    continue\n                enabled_examples.append(example)\n", "        if not gather_all:\n            enabled_examples = [example for example in examples if not example.is_disabled()]\n        else:\n            enabled_examples = [example for example in examples if command in example.valid_testnames]\n")),
    silent('gathering-with-selection-flag', (RN, "            if gather_all or command in example.valid_testnames:\n                if gather_all and example.is_disabled():\n                    continue\n                enabled_examples.append(example)\n", "            if gather_all:\n                is_selected = not example.is_disabled()\n            else:\n                is_selected = command in example.valid_testnames\n            if is_selected:\n                enabled_examples.append(example)\n")),
    silent('exit-status-tested-in-place', (MA, "    n_failed = run_summary.get('n_failed', 0)\n    if n_failed > 0:\n        return 1\n    else:\n        return 0\n", "    return 1 if run_summary.get('n_failed', 0) > 0 else 0\n")),
    fire('exit-status-tested-in-place-off-by-one', 'C10.R4', (MA, "    n_failed = run_summary.get('n_failed', 0)\n    if n_failed > 0:\n        return 1\n    else:\n        return 0\n", "    return 1 if run_summary.get('n_failed', 0) > 1 else 0\n")),
    silent('exit-status-int-of-comparison', (MA, "    if n_failed > 0:\n        return 1\n    else:\n        return 0\n", "    return int(n_failed > 0)\n")),
    silent('exit-status-min', (MA, "    if n_failed > 0:\n        return 1\n    else:\n        return 0\n", "    return min(n_failed, 1)\n")),
    silent('gather-all-membership', (RN, "    gather_all = (command == 'all' or command == 'dump')\n", "    gather_all = command in ('all', 'dump')\n")),
    silent('failed-branch-as-single-test',
           (RN, "            else:\n                failed.append(example)\n", "            if not summary['skipped'] and not summary['passed']:\n                failed.append(example)\n"),
           (RN, "            elif summary['passed']:\n                pass\n", "            pass\n"),
           (RN, "            if summary['skipped']:\n                pass\n", "            pass\n")),
]
