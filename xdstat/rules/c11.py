"""
C11 -- runs are isolated: a doctest behaves the same whatever ran before it.
"""
import ast

from ..context import need
from ..loader import AnalysisError
from .. import graph
from ..roles import run_roles, RUN, node_calls, is_self_attr
from ..dataflow import field_name
from ..resolve import walk_scope
from .common import fmt_facts, is_name, is_attr_of, field_ops, is_empty_container

EXPLANATION = (
    'Static rule conformance: R1 the module-level default directive state (which contains a mutable set) is only deep-copied or read, '
    'never aliased, shallow-copied or mutated anywhere in the package; R2 DocTest.run stores a freshly constructed RuntimeState before the '
    'part loop and the loop uses that object; RuntimeState.__init__ builds the persistent state from the deep copy and the overlay from a '
    'fresh dict; R3 every per-run accumulator that grows inside the part loop (and exc_info) is reset on every path from the entry of run '
    'to the loop; R4 on the CFG x once-flag product no normal exit of run is reachable with the namespace populated and not cleared; '
    'R5 the module __dict__ is only copied into the namespace, never used as or written through; R6 RuntimeState.__init__ copies the entries '
    'of the shared default dict and keeps no reference to it. What doctest code does to third-party global state is not decided.'
    ' R2/R3 see through one helper method of DocTest called before the part loop (what it resets / stores on every normal return). R8 WHO-MAY: only DocTest.__init__ binds the global_namespace attribute, to a fresh dict.')
DECIDES = ['WHO-MAY default template', 'MUST-PASS fresh run state', 'reset PAIRING of accumulators', 'namespace cleared PAIRING (product with once-flags)', 'alias FLOW module dict', 'shared config copied']
NOT_DECIDED = ['effects of doctest code on shared third-party state', 'sys.modules caching of the module under test']

RS = 'xdoctest.directive.RuntimeState'
TEMPLATE = 'DEFAULT_RUNTIME_STATE'


def run(ctx):
    for fn in (r1_template, r2_fresh_state, r3_accumulators_reset, r4_namespace_cleared, r5_module_dict, r6_shared_config, r7_warning_filters_scoped, r8_namespace_object_is_private):
        ctx.rep.rule(fn, ctx)


def all_scopes(ctx):
    """(module, func-or-None, ast node) for every node of every module except the vendored tokenizer"""
    for mod in ctx.prog.modules.values():
        if mod.name == 'xdoctest._tokenize':
            continue
        yield mod


def owner_func(ctx, mod, node):
    cur = node
    chain = []
    while cur is not None:
        if isinstance(cur, (ast.FunctionDef, ast.AsyncFunctionDef)):
            chain.append(cur)
        cur = getattr(cur, '_parent', None)
    if not chain:
        return None
    for f in ctx.prog.funcs.values():
        if f.node is chain[0]:
            return f
    return None


# ---------------------------------------------------------------------------
def r1_template(ctx):
    rep = ctx.rep
    dmod = ctx.prog.module('xdoctest.directive')
    need(TEMPLATE in dmod.assigns, 'C11.R1: %s vanished' % TEMPLATE)
    tv = dmod.assigns[TEMPLATE]
    mutable = [ctx.src(v) for v in ast.walk(tv) if isinstance(v, (ast.Set, ast.List, ast.Dict, ast.SetComp, ast.ListComp)) and v is not tv] + \
              [ctx.src(v) for v in ast.walk(tv) if isinstance(v, ast.Call) and isinstance(v.func, ast.Name) and v.func.id in ('set', 'list', 'dict')]
    rep.note('template_mutable_members', mutable)
    uses = []
    for mod in all_scopes(ctx):
        for n in ast.walk(mod.tree):
            hit = False
            if isinstance(n, ast.Name) and n.id == TEMPLATE:
                if mod is dmod or (mod.imports.get(TEMPLATE, (None, None, None))[0] == 'sym' and mod.imports[TEMPLATE][2] == TEMPLATE):
                    hit = True
            elif isinstance(n, ast.Attribute) and n.attr == TEMPLATE:
                hit = True
            if hit:
                uses.append((mod, n))
    rep.floor('C11.R1', 'uses of the default state template', len(uses), 3)
    for (mod, n) in uses:
        p = getattr(n, '_parent', None)
        f = owner_func(ctx, mod, n)
        kind = None
        if isinstance(n.ctx, ast.Store) if hasattr(n, 'ctx') else False:
            if isinstance(p, ast.Assign) and mod is dmod and f is None and p.value is tv:
                kind = 'definition'
            else:
                kind = None
        elif isinstance(p, ast.Call) and any(a is n for a in p.args):
            callee = ast.unparse(p.func)
            if callee in ('copy.deepcopy', 'deepcopy'):
                kind = 'deepcopy argument'
            elif callee in ('list', 'len', 'sorted', 'set', 'frozenset', 'tuple', 'iter'):
                kind = 'read-only %s()' % callee
        elif isinstance(p, ast.Attribute) and p.attr in ('keys',) and isinstance(getattr(p, '_parent', None), ast.Call):
            kind = 'read-only .keys()'
        elif isinstance(p, ast.Compare) and any(c is n for c in p.comparators) and all(isinstance(o, (ast.In, ast.NotIn)) for o in p.ops):
            kind = 'membership test'
        elif isinstance(p, (ast.For, ast.comprehension)) and p.iter is n:
            kind = 'iteration'
        elif isinstance(p, ast.alias):
            kind = 'import'
        ok = kind is not None
        rep.ob('C11.R1', ctx.mloc(mod, n), ctx.src(p if p is not None and not isinstance(p, (ast.Module,)) else n), ok,
               'template used as %s' % kind if ok else
               'the default directive state escapes without a deep copy (%s): its REQUIRES set would be shared by every doctest of the process' % type(p).__name__,
               anchor=(f.qualname if f else mod.name))


# ---------------------------------------------------------------------------
def self_helpers(ctx, rr):
    """calls `self.<m>(...)` of RUN outside the part loop that resolve to one method of the same class (inlining bound 1):
    [(node, call, helper)]"""
    out = []
    for (n, c, r) in rr.calls:
        if r[0] == 'repo' and len(r[1]) == 1 and r[1][0].cls is not None and r[1][0].cls is rr.f.cls \
                and isinstance(c.func, ast.Attribute) and is_name(c.func.value, 'self') and not rr.in_loop(n):
            out.append((n, c, r[1][0]))
    return out


def helper_summary(ctx, h):
    """what a helper method of DocTest guarantees on every normal return: the fields it resets, whether it stores a freshly
    constructed RuntimeState in <recv>._runstate, and whether what it returns is that object"""
    hg = ctx.cfg(h)
    hrd = ctx.rd(h)
    recv = h.node.args.args[0].arg
    resets = set()
    names = set()
    for n in ast.walk(h.node):
        fn = field_name(n, recv) if isinstance(n, ast.Attribute) else None
        if fn and fn.count('.') == 1:
            names.add(fn.split('.')[1])
    for fld in names:
        rs = []
        for (kind, node, val) in field_ops(h.node, recv, fld):
            if kind == 'reset':
                rs += hg.nodes_containing(node)
        if rs and graph.must_pass([hg.entry], lambda x: x is hg.exit, through=rs, efilter=graph.normal_only) is None:
            resets.add(fld)
    ctor_calls = [c for c in walk_scope(h.node) if isinstance(c, ast.Call) and ctx.res.resolve_call(h, c)[0] == 'class' and ctx.res.resolve_call(h, c)[1].qualname == RS]
    stores = [d for d in hrd.defs_of(recv + '._runstate') if isinstance(d.value, ast.Call) and any(d.value is c for c in ctor_calls)]
    stores_fresh = bool(stores) and graph.must_pass([hg.entry], lambda x: x is hg.exit, through=[d.node for d in stores], efilter=graph.normal_only) is None
    returns_fresh = False
    rets = [n for n in hg.nodes if n.kind == 'stmt' and isinstance(n.ast, ast.Return)]
    if rets and stores_fresh:
        returns_fresh = True
        for rn in rets:
            v = rn.ast.value
            if isinstance(v, ast.Name):
                defs = hrd.at(rn, v.id)
                if not (defs and all(isinstance(d.value, ast.Call) and any(d.value is c for c in ctor_calls) for d in defs)):
                    returns_fresh = False
            elif not (v is not None and field_name(v, recv) == recv + '._runstate'):
                returns_fresh = False
    return {'resets': resets, 'stores_fresh': stores_fresh, 'returns_fresh': returns_fresh, 'ctor': ctor_calls}


def r2_fresh_state(ctx):
    rr = run_roles(ctx)
    rep = ctx.rep
    f = rr.f
    ctor = [(n, c) for (n, c, r) in rr.calls if r[0] == 'class' and r[1].qualname == RS]
    dom = ctx.dom(rr.g, rr.g.entry)
    stores = [d for d in rr.rd.defs_of('self._runstate') if isinstance(d.value, ast.Call) and any(d.value is c for (_, c) in ctor)]
    ok = any(dom.dominates(d.node, rr.loop) for d in stores)
    if not ctor:
        # the preparation of a run may be a method of its own
        for (hn, hc, h) in self_helpers(ctx, rr):
            sm = helper_summary(ctx, h)
            if sm['stores_fresh'] and dom.dominates(hn, rr.loop):
                ok = True
                if sm['returns_fresh']:
                    ctor.append((hn, hc))
    rep.ob('C11.R2', ctx.loc(f, rr.loop.ast), 'self._runstate = RuntimeState(...) before the part loop', ok,
           'a freshly constructed RuntimeState is stored on every path to the part loop' if ok else
           'the part loop can start with the run state of an earlier run (SKIP / REQUIRES / report style carry over)', anchor=RUN)
    # the object the loop updates / reads is that fresh one
    for (n, c) in rr.update_sites:
        recv = c.func.value if isinstance(c.func, ast.Attribute) else None
        good = False
        if isinstance(recv, ast.Name):
            def fresh(d, depth=0):
                if rr.in_loop(d.node):
                    return False
                if isinstance(d.value, ast.Call) and any(d.value is cc for (_, cc) in ctor):
                    return True
                if isinstance(d.value, ast.Name) and depth < 3:       # a plain copy (the result variable of an expanded helper)
                    ds = rr.rd.at(d.node, d.value.id)
                    return bool(ds) and all(fresh(dd, depth + 1) for dd in ds)
                return False
            defs = rr.rd.at(n, recv.id)
            good = bool(defs) and all(fresh(d) for d in defs)
        elif recv is not None and field_name(recv, 'self') == 'self._runstate':
            good = ok
        rep.ob('C11.R2', ctx.loc(f, c), ctx.src(c), good,
               'the updated state object is the one constructed in this run' if good else 'the loop updates a state object that is not constructed in this run', anchor=RUN)
    # RuntimeState.__init__
    fi = ctx.func(RS + '.__init__')
    recv = fi.node.args.args[0].arg
    g_ok = i_ok = False
    for sub in ast.walk(fi.node):
        if isinstance(sub, ast.Assign):
            for t in sub.targets:
                fn = field_name(t, recv)
                if fn == recv + '._global_state':
                    v = sub.value
                    g_ok = isinstance(v, ast.Call) and ast.unparse(v.func) in ('copy.deepcopy', 'deepcopy') and v.args and \
                        (is_name(v.args[0], TEMPLATE) or (isinstance(v.args[0], ast.Attribute) and v.args[0].attr == TEMPLATE))
                if fn == recv + '._inline_state':
                    i_ok = is_empty_container(sub.value)
    rep.ob('C11.R2', ctx.loc(fi, fi.node), '_global_state = deepcopy(template)', g_ok,
           'persistent state is a deep copy of the template' if g_ok else 'persistent state is not a deep copy of the default template', anchor=fi.qualname)
    rep.ob('C11.R2', ctx.loc(fi, fi.node), '_inline_state = {}', i_ok,
           'overlay starts as a fresh empty dict' if i_ok else 'overlay is not initialised with a fresh empty dict', nontrivial=False, anchor=fi.qualname)


# ---------------------------------------------------------------------------
def grown_fields(rr):
    """self.<attr> that are grown inside the part loop"""
    out = {}
    for n in rr.g.nodes:
        if not rr.in_loop(n) or n.kind != 'stmt':
            continue
        s = n.ast
        if isinstance(s, ast.Assign):
            for t in s.targets:
                if isinstance(t, ast.Subscript):
                    fn = field_name(t.value, 'self')
                    if fn and fn.count('.') == 1:
                        out.setdefault(fn.split('.')[1], []).append(n)
        if isinstance(s, ast.AugAssign):
            fn = field_name(s.target, 'self')
            if fn and fn.count('.') == 1:
                out.setdefault(fn.split('.')[1], []).append(n)
        for c in node_calls(n):
            if isinstance(c.func, ast.Attribute) and c.func.attr in ('append', 'add', 'extend', 'update', 'insert', 'setdefault'):
                fn = field_name(c.func.value, 'self')
                if fn and fn.count('.') == 1:
                    out.setdefault(fn.split('.')[1], []).append(n)
    return out


def r3_accumulators_reset(ctx):
    rr = run_roles(ctx)
    rep = ctx.rep
    f = rr.f
    grown = grown_fields(rr)
    grown.pop('global_namespace', None)     # handled by R4 (cleared at the end of the run)
    fields = sorted(set(grown) | {'exc_info'})
    rep.note('accumulators', fields)
    rep.floor('C11.R3', 'per-run accumulators', len(fields), 5)
    helpers = self_helpers(ctx, rr)
    for fld in fields:
        resets = []
        for (kind, node, val) in field_ops(f.node, 'self', fld):
            if kind == 'reset':
                for n in rr.g.nodes_containing(node):
                    if not rr.in_loop(n):
                        resets.append(n)
        for (hn, hc, h) in helpers:
            if fld in helper_summary(ctx, h)['resets']:
                resets.append(hn)
        wit = graph.must_pass([rr.g.entry], lambda x: x is rr.loop, through=resets, efilter=graph.normal_only)
        rep.ob('C11.R3', ctx.loc(f, rr.loop.ast), 'self.%s reset before the part loop' % fld, wit is None,
               'reset on every path from the entry of run() to the loop (%d reset site(s))' % len(resets) if wit is None else
               'self.%s is not reset at the start of a run: what an earlier run of the same doctest left there is carried into this run' % fld,
               witness=None if wit is None else graph.fmt_path(wit, f.module.relpath), anchor=RUN)


# ---------------------------------------------------------------------------
def once_flags(rr):
    """locals assigned only True/False constants and read only as (negated) tests"""
    flags = {}
    f = rr.f
    for name, defs in rr.rd.by_name.items():
        if '.' in name:
            continue
        if all(d.kind == 'assign' and isinstance(d.value, ast.Constant) and isinstance(d.value.value, bool) for d in defs):
            loads = [n for n in walk_scope(f.node) if isinstance(n, ast.Name) and n.id == name and isinstance(n.ctx, ast.Load)]
            ok = True
            for l in loads:
                p = l._parent
                if isinstance(p, ast.UnaryOp) and isinstance(p.op, ast.Not):
                    p = p._parent
                if not isinstance(p, (ast.If, ast.While)):
                    ok = False
            if ok and loads:
                flags[name] = True
    return flags


def r4_namespace_cleared(ctx):
    rr = run_roles(ctx)
    rep = ctx.rep
    f = rr.f
    g = rr.g
    flags = sorted(once_flags(rr))
    rep.note('once_flags', flags)
    populate = set(id(n) for (n, _) in rr.globals_sites)
    need(populate, 'C11.R4: no call of _test_globals in RUN')
    clears = set()
    for n in g.nodes:
        for c in node_calls(n):
            if isinstance(c.func, ast.Attribute) and c.func.attr == 'clear' and field_name(c.func.value, 'self') == 'self.global_namespace':
                clears.add(id(n))
    # product search: state = (flag valuation tuple, populated, cleared-after-populate)
    init = (tuple(None for _ in flags), False)
    from collections import deque
    seen = {}
    work = deque([(g.entry, init, None)])
    bad = None
    n_states = 0
    while work:
        node, st, prev = work.popleft()
        key = (id(node), st)
        if key in seen:
            continue
        seen[key] = prev
        n_states += 1
        vals, dirty = st
        vals = list(vals)
        # transfer
        if node.kind == 'stmt' and isinstance(node.ast, ast.Assign):
            for t in node.ast.targets:
                if isinstance(t, ast.Name) and t.id in flags and isinstance(node.ast.value, ast.Constant):
                    vals[flags.index(t.id)] = bool(node.ast.value.value)
        if id(node) in populate:
            dirty = True
        if id(node) in clears:
            dirty = False
        if node is g.exit:
            if dirty:
                bad = key
                break
            continue
        nst = (tuple(vals), dirty)
        for (t, kind, tok) in node.succ:
            if t is g.raise_exit:
                continue
            if t.kind == 'branch' and t.attrs['test'].kind == 'test':
                e = t.attrs['test'].ast
                pol = t.attrs['polarity']
                neg = False
                while isinstance(e, ast.UnaryOp) and isinstance(e.op, ast.Not):
                    e = e.operand
                    neg = not neg
                if isinstance(e, ast.Name) and e.id in flags:
                    v = vals[flags.index(e.id)]
                    if v is not None and (v != neg) != pol:
                        continue
            work.append((t, nst, key))
    wit = None
    if bad is not None:
        path = []
        k = bad
        byid = {id(n): n for n in g.nodes}
        while k is not None:
            path.append(byid[k[0]])
            k = seen[k]
        wit = graph.fmt_path(path[::-1], f.module.relpath)
    rep.ob('C11.R4', ctx.loc(f, f.node), 'populated namespace is cleared on every normal return', bad is None,
           'no normal exit of run() is reachable with the namespace populated and not cleared (%d product states over once-flags %s)' % (n_states, flags) if bad is None else
           'run() can return normally with the names of this doctest still in global_namespace: a later run of the same doctest sees them', witness=wit, anchor=RUN)
    rep.ob('C11.R4', ctx.loc(f, f.node), 'global_namespace.clear() present', bool(clears), '%d clear site(s)' % len(clears), nontrivial=False, anchor=RUN)


# ---------------------------------------------------------------------------
def r5_module_dict(ctx):
    rep = ctx.rep
    n_uses = 0
    for mod in all_scopes(ctx):
        for n in ast.walk(mod.tree):
            # <x>.module.__dict__
            if isinstance(n, ast.Attribute) and n.attr == '__dict__' and isinstance(n.value, ast.Attribute) and n.value.attr == 'module':
                n_uses += 1
                p = n._parent
                f = owner_func(ctx, mod, n)
                ok = isinstance(p, ast.Call) and isinstance(p.func, ast.Attribute) and p.func.attr == 'update' and any(a is n for a in p.args) and p.func.value is not n
                if ok:
                    # the receiver is the namespace, not another module dict
                    ok = not (isinstance(p.func.value, ast.Attribute) and p.func.value.attr == '__dict__')
                rep.ob('C11.R5', ctx.mloc(mod, n), ctx.src(p), ok,
                       'module __dict__ is copied into the namespace (argument of dict.update)' if ok else
                       'the module __dict__ is used directly (not copied): assignments of a doctest would rebind the globals of the module under test',
                       anchor=(f.qualname if f else mod.name))
            # setattr(<x>.module, ...) / <x>.module.__dict__[k] = v
            if isinstance(n, ast.Call) and is_name(n.func, 'setattr') and n.args and isinstance(n.args[0], ast.Attribute) and n.args[0].attr == 'module':
                f = owner_func(ctx, mod, n)
                rep.ob('C11.R5', ctx.mloc(mod, n), ctx.src(n), False, 'attributes of the module under test are set by the runner', anchor=(f.qualname if f else mod.name))
    rep.floor('C11.R5', 'uses of <x>.module.__dict__', n_uses, 1)


# ---------------------------------------------------------------------------
def r6_shared_config(ctx):
    rep = ctx.rep
    fi = ctx.func(RS + '.__init__')
    recv = fi.node.args.args[0].arg
    params = [a.arg for a in fi.node.args.args][1:]
    need(params, 'C11.R6: RuntimeState.__init__ takes no default state')
    p0 = params[0]
    for n in ast.walk(fi.node):
        if isinstance(n, ast.Name) and n.id == p0 and isinstance(n.ctx, ast.Load):
            par = n._parent
            kind = None
            if isinstance(par, (ast.If, ast.IfExp)) and par.test is n:
                kind = 'truth test'
            elif isinstance(par, ast.Compare):
                kind = 'comparison'
            elif isinstance(par, ast.Call) and isinstance(par.func, ast.Attribute) and par.func.attr == 'update' and any(a is n for a in par.args):
                kind = 'entries copied with dict.update'
            elif isinstance(par, ast.Call) and ast.unparse(par.func) in ('dict', 'copy.deepcopy', 'copy.copy', 'deepcopy'):
                kind = 'copied'
            rep.ob('C11.R6', ctx.loc(fi, n), ctx.src(par), kind is not None,
                   'shared default dict: %s' % kind if kind else 'RuntimeState keeps a reference to the shared default dict: a block directive of one doctest would change the defaults of all others',
                   anchor=fi.qualname)
    # the runner copies config entries into each example (update), never shares the config object
    for q in ('xdoctest.runner.doctest_module', 'xdoctest.plugin.XDoctestModule.collect', 'xdoctest.plugin.XDoctestTextfile.collect'):
        f = ctx.func(q)
        for n in walk_scope(f.node):
            if isinstance(n, ast.Assign):
                for t in n.targets:
                    if isinstance(t, ast.Attribute) and t.attr == 'config' and not (isinstance(t.value, ast.Name) and t.value.id == 'self'):
                        rep.ob('C11.R6', ctx.loc(f, n), ctx.src(n), False, 'the front end shares one config object between examples instead of copying its entries', anchor=q)
            if isinstance(n, ast.Call) and isinstance(n.func, ast.Attribute) and n.func.attr == 'update' and isinstance(n.func.value, ast.Attribute) and n.func.value.attr == 'config':
                rep.ob('C11.R6', ctx.loc(f, n), ctx.src(n), True, 'config entries are copied into the example', nontrivial=False, anchor=q)


# ---------------------------------------------------------------------------
def r7_warning_filters_scoped(ctx):
    """warning filters changed by one doctest must not reach the next: every exec site runs inside warnings.catch_warnings (same clause as C12.R4)"""
    from . import c12
    from .common import run_as
    run_as(ctx, c12.r4_warnings, 'C12.R4', 'C11.R7')


def r8_namespace_object_is_private(ctx):
    """WHO-MAY: the dict a doctest executes in is created by DocTest.__init__ and belongs to that doctest.  Nothing else in the package binds the
    `global_namespace` attribute of a doctest to another object (seeding it goes through .update / item assignment): a dict handed to several
    doctests would carry names from one into the next and be wiped by the first one that finishes"""
    rep = ctx.rep
    owner = 'xdoctest.doctest_example.DocTest.__init__'
    stores = []
    for mod in all_scopes(ctx):
        for n in ast.walk(mod.tree):
            if isinstance(n, (ast.Assign, ast.AugAssign, ast.AnnAssign)):
                tg = n.targets if isinstance(n, ast.Assign) else [n.target]
                for t in tg:
                    for tt in ([t] if not isinstance(t, (ast.Tuple, ast.List)) else t.elts):
                        if isinstance(tt, ast.Attribute) and tt.attr == 'global_namespace':
                            stores.append((mod, owner_func(ctx, mod, n), n))
    rep.floor('C11.R8', 'bindings of the global_namespace attribute', len(stores), 1)
    for (mod, f, n) in stores:
        q = f.qualname if f is not None else mod.name
        v = getattr(n, 'value', None)
        ok = q == owner and is_empty_container(v)
        rep.ob('C11.R8', ctx.mloc(mod, n), ctx.src(n, 80), ok,
               'a fresh dict per DocTest object' if ok else
               'the namespace of a doctest is rebound to another object outside its constructor: doctests that are given the same dict share every name one of them defines, '
               'and the end-of-run clear() of one empties it for the others', anchor=q)


# ---------------------------------------------------------------------------
from ..selftest import fire, silent      # noqa: E402

DE = 'xdoctest/doctest_example.py'
DI = 'xdoctest/directive.py'
VARIANTS = [
    fire('textfile-doctests-share-one-namespace', 'C11.R8', ('xdoctest/plugin.py', "            dtest.global_namespace.update(global_namespace)\n", "            dtest.global_namespace = global_namespace\n")),
    fire('template-shallow-copy', 'C11.R1', (DI, "        self._global_state = copy.deepcopy(DEFAULT_RUNTIME_STATE)\n", "        self._global_state = DEFAULT_RUNTIME_STATE.copy()\n")),
    fire('template-dict-copy', 'C11.R1', (DI, "        self._global_state = copy.deepcopy(DEFAULT_RUNTIME_STATE)\n", "        self._global_state = dict(DEFAULT_RUNTIME_STATE)\n")),
    fire('template-aliased', 'C11.R1', (DI, "        self._global_state = copy.deepcopy(DEFAULT_RUNTIME_STATE)\n", "        self._global_state = DEFAULT_RUNTIME_STATE\n")),
    fire('runstate-reused', 'C11.R2',
         (DE, "        runstate = self._runstate = directive.RuntimeState(default_state)\n",
              "        if self._runstate is None:\n            self._runstate = directive.RuntimeState(default_state)\n        runstate = self._runstate\n")),
    fire('E14-unmatched-not-reset', 'C11.R3', (DE, "        self.logged_stdout.clear()\n        self._unmatched_stdout = []\n", "        self.logged_stdout.clear()\n")),
    fire('skipped-parts-not-reset', 'C11.R3', (DE, "        self._skipped_parts = []\n        self.exc_info = None\n", "        self.exc_info = None\n")),
    fire('exc-info-not-reset', 'C11.R3', (DE, "        self._skipped_parts = []\n        self.exc_info = None\n", "        self._skipped_parts = []\n")),
    fire('logs-reset-only-when-verbose', 'C11.R3',
         (DE, "        self.logged_evals.clear()\n        self.logged_stdout.clear()\n", "        if verbose:\n            self.logged_evals.clear()\n            self.logged_stdout.clear()\n")),
    fire('E7-namespace-not-cleared', 'C11.R4', (DE, "        self.global_namespace.clear()\n\n        return summary\n", "        return summary\n")),
    fire('early-return-after-populate', 'C11.R4',
         (DE, "        if self.exc_info is None:\n            self.failed_part = None\n", "        if self.exc_info is None:\n            self.failed_part = None\n        else:\n            return self._post_run(verbose)\n")),
    fire('module-dict-used-as-namespace', 'C11.R5',
         (DE, "            test_globals.update(self.module.__dict__)\n", "            test_globals = self.module.__dict__\n")),
    fire('state-keeps-default-reference', 'C11.R6',
         (DI, "        if default_state:\n            self._global_state.update(default_state)\n", "        if default_state:\n            self._global_state.update(default_state)\n            self._defaults = default_state\n")),
    silent('resets-reordered',
           (DE, "        self.logged_evals.clear()\n        self.logged_stdout.clear()\n        self._unmatched_stdout = []\n\n        self._skipped_parts = []\n        self.exc_info = None\n",
                "        self.exc_info = None\n        self._skipped_parts = []\n        self._unmatched_stdout = []\n        self.logged_stdout.clear()\n        self.logged_evals.clear()\n")),
    silent('clear-via-finally',
           (DE, "        summary = self._post_run(verbose)\n\n        # Clear the global namespace so doctests don't leak memory\n        self.global_namespace.clear()\n\n        return summary\n",
                "        try:\n            summary = self._post_run(verbose)\n        finally:\n            self.global_namespace.clear()\n\n        return summary\n")),
]
