"""
C15 -- pytest plugin and native runner give the same verdict for every doctest.
"""
import ast

from ..context import need
from ..loader import AnalysisError
from .. import graph, consts
from ..roles import run_roles, RUN, node_calls, is_self_attr
from ..resolve import walk_scope
from .common import fmt_facts, is_name, subscript_key

EXPLANATION = (
    'TABLE-AGREE and PAIRING between the two front ends: R1 both obtain their examples from core.parse_doctestables, forwarding style and '
    'analysis from their own user option; the only further argument is the runner\'s exclude list whose default is empty; pytest items are '
    'named by DocTest.unique_callname. R2 both register options through DoctestConfig._update_argparse_cli, build the per-example config with '
    '_populate_from_cli (whose ns[...] reads are dests of that table) and apply it with config.update on every example. R3 every fail store of '
    'DocTest.run is followed by a test of on_error == "raise" whose true edge leaves run by raise and whose false edge leaves the loop normally, '
    'so native "failed" <=> pytest item raises. R4 on non-failing paths through one iteration of the part loop a path with a skip record stores '
    'no captured stdout and a path without one stores it, hence the plugin\'s "nothing ran" <=> the native all-parts-skipped; run()\'s own '
    'pytest.skip is edge-dominated by mode == "pytest". R5 the plugin skips disabled doctests before running them and the two disable-pattern '
    'lists differ exactly by the entries added on the pytest branch. pytest\'s own reporting is not decided.'
    " R2b environment defaults are keyed by the option name before the front-end prefix is applied. R4 also over iterations that absorbed an expected exception. R5 both modes apply the disable patterns with the same flags and method (abstract evaluation of strings, lists and compiled patterns). R7 the graceful-exit handler names pytest's Skipped. R9 the default verbosities of the front ends select the same kind of sys.stdout replacement (FINITE-EVAL of the suppression switch).")
DECIDES = ['TABLE-AGREE one collector', 'TABLE-AGREE one option table', 'PAIRING record <=> raise', 'skip predicate coincidence', 'disabled doctests']
NOT_DECIDED = ['pytest\'s and the native runner\'s output formats', 'exit-code plumbing inside pytest']

PD = 'xdoctest.core.parse_doctestables'
COLLECT = 'xdoctest.plugin.XDoctestModule.collect'
DM = 'xdoctest.runner.doctest_module'
MAIN = 'xdoctest.__main__.main'
CFGCLS = 'xdoctest.doctest_example.DoctestConfig'


def run(ctx):
    for fn in (r1_one_collector, r2_one_option_table, r3_record_iff_raise, r4_skip_predicates, r5_disabled, r5b_disable_marker_anchored, r3b_raise_only_after_record, r6_exit_status, r2b_environment_defaults_are_front_end_independent, r7_pytest_skip_is_a_graceful_exit, r8_definite_assignment, r9_default_stream_kind):
        ctx.rep.rule(fn, ctx)


def _calls_to(ctx, f, qual):
    g = ctx.cfg(f)
    out = []
    for n in g.nodes:
        for c in node_calls(n):
            r = ctx.res.resolve_call(f, c)
            if r[0] == 'repo' and any(x.qualname == qual for x in r[1]):
                out.append((n, c))
    return out


def _option_source(ctx, f, node, expr, depth=3):
    """where a value comes from: ('option', name) for config.getvalue('x') / ns['x'], ('param', name), ('const', v)"""
    rd = ctx.rd(f)
    if isinstance(expr, ast.Constant):
        return ('const', expr.value)
    if isinstance(expr, ast.Call) and isinstance(expr.func, ast.Attribute) and expr.func.attr in ('getvalue', 'getoption', 'getini') and expr.args and isinstance(expr.args[0], ast.Constant):
        return ('option', expr.args[0].value)
    k = subscript_key(expr)
    if k:
        return ('option', k[1])
    if isinstance(expr, ast.Name) and depth > 0:
        defs = rd.at(node, expr.id)
        srcs = set()
        for d in defs:
            if d.kind == 'param':
                srcs.add(('param', d.name))
            elif isinstance(d.value, ast.AST):
                srcs.add(_option_source(ctx, f, d.node, d.value, depth - 1))
            elif isinstance(d.value, tuple):
                srcs.add(('unpack', ast.unparse(d.value[1])))
        if len(srcs) == 1:
            return srcs.pop()
        return ('mixed', tuple(sorted(map(str, srcs))))
    return ('expr', ast.unparse(expr))


def r1_one_collector(ctx):
    rep = ctx.rep
    rows = {}
    for q in (COLLECT, DM):
        f = ctx.func(q)
        calls = _calls_to(ctx, f, PD)
        ok = len(calls) == 1
        rep.ob('C15.R1', ctx.loc(f, calls[0][1] if calls else f.node), '%s -> parse_doctestables' % q.split('.')[-2 if 'collect' in q else -1], ok,
               'examples come from core.parse_doctestables' if ok else 'this front end does not collect through core.parse_doctestables (%d calls)' % len(calls), anchor=q)
        if not calls:
            continue
        n, c = calls[0]
        args = {}
        for kw in c.keywords:
            args[kw.arg] = _option_source(ctx, f, n, kw.value)
        rows[q] = args
        for kw in ('style', 'analysis'):
            src = args.get(kw)
            ok = src is not None and (src[0] == 'option' and kw in src[1] or src == ('param', kw) or (src[0] == 'unpack' and kw == 'style'))
            rep.ob('C15.R1', ctx.loc(f, c), '%s=%s' % (kw, src), ok,
                   'the %s option of this front end is forwarded to the collector' % kw if ok else
                   'the %s chosen by the user is not forwarded by this front end: the two front ends can collect different doctests' % kw, anchor=q)
        extra = set(args) - {'style', 'analysis'}
        for e in sorted(extra):
            ok = False
            if e == 'exclude' and args[e] == ('param', 'exclude'):
                # default of the parameter is an empty list
                fa = f.node.args
                pos = fa.args
                dflt = dict(zip([a.arg for a in pos[len(pos) - len(fa.defaults):]], fa.defaults))
                d = dflt.get('exclude')
                ok = isinstance(d, (ast.List, ast.Tuple)) and not d.elts
            rep.ob('C15.R1', ctx.loc(f, c), 'extra collector argument %s=%s' % (e, args[e]), ok,
                   'exclude defaults to the empty list: both front ends collect the same set by default' if ok else
                   'this front end passes %s to the collector, the other does not' % e, anchor=q)
    # the runner's style comes from the CLI: main passes style= ns['style']
    fm = ctx.func(MAIN)
    mcalls = [(n, c) for n in ctx.cfg(fm).nodes for c in node_calls(n) if ast.unparse(c.func).endswith('doctest_module')]
    for (n, c) in mcalls:
        for kw in c.keywords:
            if kw.arg in ('style', 'analysis'):
                src = _option_source(ctx, fm, n, kw.value)
                ok = src == ('option', kw.arg)
                rep.ob('C15.R1', ctx.loc(fm, c), 'main: %s=%s' % (kw.arg, src), ok, 'CLI option forwarded' if ok else 'the --%s option is not forwarded to doctest_module' % kw.arg, anchor=MAIN)
    # item name
    f = ctx.func(COLLECT)
    g = ctx.cfg(f)
    rd = ctx.rd(f)
    n_items = 0
    for n in g.nodes:
        for c in node_calls(n):
            txt = ast.unparse(c.func)
            if txt.endswith('XDoctestItem.from_parent') or txt.endswith('XDoctestItem'):
                name = None
                for kw in c.keywords:
                    if kw.arg == 'name':
                        name = kw.value
                if name is None and c.args:
                    name = c.args[0]
                n_items += 1
                ok = False
                if isinstance(name, ast.Name):
                    defs = rd.at(n, name.id)
                    ok = bool(defs) and all(isinstance(d.value, ast.Attribute) and d.value.attr == 'unique_callname' for d in defs)
                elif isinstance(name, ast.Attribute):
                    ok = name.attr == 'unique_callname'
                rep.ob('C15.R1', ctx.loc(f, c), 'pytest item name', ok, 'item name is DocTest.unique_callname (the native identifier)' if ok else 'pytest items are not named by unique_callname', anchor=COLLECT)
    if n_items == 0:
        # the construction may be a helper method of the plugin (inlining bound 1): the name handed to it must be the unique callname
        for n in g.nodes:
            for c in node_calls(n):
                r = ctx.res.resolve_call(f, c)
                hs = r[1] if r[0] == 'repo' else (r[2] if r[0] == 'method' and len(r) > 2 else [])
                for h in hs:
                    if h.module is not f.module:
                        continue
                    cons = [x for x in walk_scope(h.node) if isinstance(x, ast.Call) and (ast.unparse(x.func).endswith('XDoctestItem.from_parent') or ast.unparse(x.func).endswith('XDoctestItem'))]
                    if not cons:
                        continue
                    hp = [a.arg for a in h.node.args.args]
                    off = 1 if h.cls is not None else 0
                    for x in cons:
                        nm = next((kw.value for kw in x.keywords if kw.arg == 'name'), x.args[0] if x.args else None)
                        if not (isinstance(nm, ast.Name) and nm.id in hp):
                            continue
                        i = hp.index(nm.id) - off
                        arg = c.args[i] if 0 <= i < len(c.args) else next((kw.value for kw in c.keywords if kw.arg == nm.id), None)
                        n_items += 1
                        ok = False
                        if isinstance(arg, ast.Name):
                            defs = rd.at(n, arg.id)
                            ok = bool(defs) and all(isinstance(d.value, ast.Attribute) and d.value.attr == 'unique_callname' for d in defs)
                        elif isinstance(arg, ast.Attribute):
                            ok = arg.attr == 'unique_callname'
                        rep.ob('C15.R1', ctx.loc(f, c), 'pytest item name (through %s)' % h.name, ok,
                               'item name is DocTest.unique_callname (the native identifier)' if ok else 'pytest items are not named by unique_callname', anchor=COLLECT)
    rep.floor('C15.R1', 'pytest item constructions', n_items, 1)
    # every collected example becomes exactly one pytest item: one yield per iteration of the loop over the examples, on every path
    for q in (COLLECT, 'xdoctest.plugin.XDoctestTextfile.collect'):
        fq = ctx.func(q)
        gq = ctx.cfg(fq)
        ys = [x for x in gq.nodes if x.kind == 'stmt' and not x.dup and any(isinstance(y, (ast.Yield, ast.YieldFrom)) for y in ast.walk(x.ast))]
        loops = [x for x in gq.nodes if x.kind == 'for' and not x.dup and any(graph.in_loop_body(y, x.ast) for y in ys)]
        need(loops or not ys, 'C15.R1: yields outside a loop in %s' % q)
        for lp in loops:
            entry_, cut_ = graph.region_of_loop(gq, lp)
            res = graph.count_events(entry_, lambda x: any(x is y for y in ys), lambda x: x is lp, efilter=graph.normal_only)
            if not res:
                continue
            (_, lo, hi, _w1, _w2) = next(iter(res.values()))
            rep.ob('C15.R1', ctx.loc(fq, lp.ast), '%s: items yielded per collected example' % q.split('.')[-2], (lo, hi) == (1, 1),
                   'exactly one item per example on every path' if (lo, hi) == (1, 1) else
                   'between %d and %d items are yielded for one collected example: under pytest a doctest the native runner runs is %s' % (lo, hi, 'missing' if lo == 0 else 'duplicated'),
                   anchor=q)


def r2_one_option_table(ctx):
    rep = ctx.rep
    UAC = CFGCLS + '._update_argparse_cli'
    PFC = CFGCLS + '._populate_from_cli'
    for q in ('xdoctest.plugin.pytest_addoption', MAIN):
        f = ctx.func(q)
        ok = bool(_calls_to(ctx, f, UAC))
        rep.ob('C15.R2', ctx.loc(f, f.node), '%s registers DoctestConfig options' % q.split('.')[-1], ok,
               'options come from the shared table' if ok else 'this front end does not register the shared option table', anchor=q)
    for q in ('xdoctest.plugin._XDoctestBase._prepare_internal_config', MAIN):
        f = ctx.func(q)
        ok = bool(_calls_to(ctx, f, PFC))
        rep.ob('C15.R2', ctx.loc(f, f.node), '%s builds the example config with _populate_from_cli' % q.split('.')[-1], ok,
               'same config construction' if ok else 'this front end builds the per-example config differently', anchor=q)
    # keys read from ns[...] are dests of the table
    fold = consts.Folder(ctx.prog)
    fu = ctx.func(UAC)
    dests = set()
    for c in ast.walk(fu.node):
        if isinstance(c, ast.Call) and is_name(c.func, 'dict'):
            for kw in c.keywords:
                if kw.arg == 'dest' and isinstance(kw.value, ast.Constant):
                    dests.add(kw.value.value)
    fp = ctx.func(PFC)
    reads = {}
    for n in walk_scope(fp.node):
        k = subscript_key(n)
        if k and k[0] == 'ns':
            reads.setdefault(k[1], n)
    rep.floor('C15.R2', 'option dests', len(dests), 6)
    for key, n in sorted(reads.items()):
        rep.ob('C15.R2', ctx.loc(fp, n), "ns['%s']" % key, key in dests, 'dest of the shared option table' if key in dests else 'the config reads option %r which the table does not define' % key,
               nontrivial=False, anchor=PFC)
    # both apply it to every example before run
    for q in (COLLECT, 'xdoctest.plugin.XDoctestTextfile.collect', DM):
        f = ctx.func(q)
        g = ctx.cfg(f)
        ups = [n for n in g.nodes for c in node_calls(n) if isinstance(c.func, ast.Attribute) and c.func.attr == 'update' and isinstance(c.func.value, ast.Attribute) and c.func.value.attr == 'config']
        in_loop = [n for n in ups if any(fr.kind == 'loop' for fr in n.frames)]
        rep.ob('C15.R2', ctx.loc(f, in_loop[0].ast if in_loop else f.node), '%s: example.config.update(...) per example' % q.split('.')[-2 if 'collect' in q else -1], bool(in_loop),
               'every example receives the configured options' if in_loop else 'examples do not receive the configured options in this front end', anchor=q)


def r3_record_iff_raise(ctx):
    rr = run_roles(ctx)
    rep = ctx.rep
    f = rr.f
    for fs in rr.fail_stores:
        # first on_error test reachable by normal flow
        p = graph.path(fs.nsucc(), lambda x: x.kind == 'test' and rr.is_on_error_raise_test(x.ast)[0], efilter=graph.normal_only, stop=[rr.loop])
        if p is None:
            rep.ob('C15.R3', ctx.loc(f, fs.ast), ctx.src(fs.ast), False,
                   'a recorded failure is not followed by a test of on_error: in raise mode (pytest) this failure is recorded but not raised, so pytest reports a pass', anchor=RUN)
            continue
        t = p[-1]
        _, raise_when = rr.is_on_error_raise_test(t.ast)
        tb = [b for b in t.nsucc() if b.kind == 'branch' and b.attrs['polarity'] == raise_when]
        fb = [b for b in t.nsucc() if b.kind == 'branch' and b.attrs['polarity'] != raise_when]
        # raise branch: cannot complete normally (loop head / exit unreachable by normal flow)
        esc = graph.path(tb, lambda x: x is rr.loop or x is rr.g.exit or (not rr.in_loop(x) and x.kind == 'stmt' and not x.dup and not isinstance(x.ast, ast.Raise)), efilter=graph.normal_only)
        has_raise = any(x.kind == 'stmt' and isinstance(x.ast, ast.Raise) for x in graph.reachable(tb, efilter=graph.normal_only))
        ok1 = esc is None and has_raise
        # return branch: leaves the loop normally (no raise reachable before leaving)
        reach = graph.reachable(fb, efilter=graph.normal_only, stop=[rr.loop])
        raises = [x for x in reach if x.kind == 'stmt' and isinstance(x.ast, ast.Raise) and rr.in_loop(x)]
        leaves = any(not rr.in_loop(x) for x in reach) and not any(x is rr.loop for x in reach)
        ok2 = not raises and leaves
        rep.ob('C15.R3', ctx.loc(f, fs.ast), ctx.src(fs.ast) + ' -> on_error test', ok1 and ok2,
               'raise mode leaves run() by raise, return mode leaves the loop normally: "failed" natively <=> the pytest item raises' if ok1 and ok2 else
               ('in raise mode the recorded failure does not leave run() by raise' if not ok1 else 'in return mode the recorded failure raises or keeps looping'), anchor=RUN)


def r3b_raise_only_after_record(ctx):
    """the converse of R3: a raise that is taken only in raise mode (pytest) must belong to a recorded failure.  A mode-dependent raise
    without a fail store makes pytest see an exception (skip / error) where the native runner, which never uses raise mode, sees nothing."""
    rr = run_roles(ctx)
    rep = ctx.rep
    f = rr.f
    g = rr.g
    dom = ctx.dom(g, rr.iter_entry, rr.cut)
    n = 0
    for rn in g.nodes:
        if rn.kind != 'stmt' or rn.dup or not isinstance(rn.ast, ast.Raise) or not rr.in_loop(rn) or not dom.has(rn):
            continue
        guards = [b for b in dom.guards(rn) if b.kind == 'branch' and b.attrs['test'].kind == 'test' and rr.is_on_error_raise_test(b.attrs['test'].ast)[0]
                  and b.attrs['polarity'] == rr.is_on_error_raise_test(b.attrs['test'].ast)[1]]
        if not guards:
            continue
        n += 1
        # every path from the iteration entry to this raise passes a fail store
        wit = graph.must_pass([rr.iter_entry], lambda x: x is rn, through=rr.fail_stores, stop=[rr.loop])
        rep.ob('C15.R3b', ctx.loc(f, rn.ast), 'raise under on_error == raise', wit is None,
               'the mode-dependent raise belongs to a recorded failure' if wit is None else
               'in raise mode (pytest) this handler re-raises although no failure was recorded: the pytest item ends with that exception (skipped / error) while the native runner, '
               'which runs in return mode, reports the same doctest as passed', witness=None if wit is None else graph.fmt_path(wit, f.module.relpath), anchor=RUN)
    rep.floor('C15.R3b', 'mode-dependent raises in the part loop', n, 4)


def r6_exit_status(ctx):
    """both front ends exit non-zero exactly when some doctest failed: native side (same clause as C10.R4)"""
    from . import c10
    from .common import run_as
    run_as(ctx, c10.r4_exit_status, 'C10.R4', 'C15.R6')


def r4_skip_predicates(ctx):
    rr = run_roles(ctx)
    rep = ctx.rep
    f = rr.f
    g = rr.g
    stores = []
    for n in g.nodes:
        if n.kind == 'stmt' and isinstance(n.ast, ast.Assign):
            for t in n.ast.targets:
                if isinstance(t, ast.Subscript) and is_self_attr(t.value, 'logged_stdout'):
                    stores.append(n)
    rep.floor('C15.R4', 'stores to logged_stdout', len(stores), 1)
    # non-failing iteration paths: normal edges from the iteration entry to the loop head
    skip = rr.skip_records
    # (a) a path through a skip record meets no stdout store
    for s in skip:
        before = graph.path([rr.iter_entry], lambda x: x is s, efilter=graph.normal_only, avoid=stores)
        after = graph.path(s.nsucc(), lambda x: any(x is st for st in stores), efilter=graph.normal_only, stop=[rr.loop])
        ok = before is not None and after is None
        rep.ob('C15.R4', ctx.loc(f, s.ast), ctx.src(s.ast), ok,
               'an iteration that records a skip stores no captured stdout' if ok else 'a skipped part also stores stdout: "anything ran" and "all skipped" can both hold', anchor=RUN)
    # (b) a completed iteration without skip record stores stdout
    wit = graph.must_pass([rr.iter_entry], lambda x: x is rr.loop, through=skip + stores, efilter=graph.normal_only)
    if wit is None:
        # ... also when the part ended in an exception that a handler of the loop body absorbed (an expected exception)
        wit = graph.must_pass([rr.iter_entry], lambda x: x is rr.loop, through=skip + stores)
    rep.ob('C15.R4', ctx.loc(f, rr.loop.ast), 'no skip record -> stdout stored', wit is None,
           'every completed iteration either records a skip or stores the captured stdout' if wit is None else 'an executed part may leave no trace in logged_stdout: pytest would report it as skipped',
           witness=None if wit is None else graph.fmt_path(wit, f.module.relpath), anchor=RUN)
    # anything_ran reads logged_stdout
    fa_ = ctx.func('xdoctest.doctest_example.DocTest.anything_ran')
    ok = any(isinstance(x, ast.Attribute) and x.attr == 'logged_stdout' for x in ast.walk(fa_.node)) and any(isinstance(x, ast.Call) and is_name(x.func, 'len') for x in ast.walk(fa_.node))
    rep.ob('C15.R4', ctx.loc(fa_, fa_.node), 'anything_ran() <=> len(logged_stdout) > 0', ok, 'plugin predicate reads the stdout log' if ok else 'anything_ran no longer tests the stdout log', nontrivial=False, anchor=fa_.qualname)
    for x in ast.walk(fa_.node):
        if isinstance(x, ast.Compare) and len(x.ops) == 1 and isinstance(x.left, ast.Call) and is_name(x.left.func, 'len') and isinstance(x.comparators[0], ast.Constant) and isinstance(x.comparators[0].value, int):
            c0, op = x.comparators[0].value, type(x.ops[0])
            tv = lambda v: {ast.Gt: v > c0, ast.GtE: v >= c0, ast.Lt: v < c0, ast.LtE: v <= c0, ast.Eq: v == c0, ast.NotEq: v != c0}[op]
            good = tv(0) is False and tv(1) is True and tv(2) is True
            rep.ob('C15.R4', ctx.loc(fa_, x), ctx.src(x), good,
                   'false for an empty log, true as soon as one part stored its output' if good else
                   'the "anything ran" test is %s for an empty log and %s for one entry: the plugin\'s "nothing ran -> skipped" no longer coincides with the native all-parts-skipped' % (tv(0), tv(1)),
                   anchor=fa_.qualname)
    # plugin: skip when nothing ran, after run
    fr = ctx.func('xdoctest.plugin.XDoctestItem.runtest')
    gr = ctx.cfg(fr)
    domr = ctx.dom(gr, gr.entry)
    skips = [(n, c) for n in gr.nodes for c in node_calls(n) if ast.unparse(c.func) == 'pytest.skip']
    runs = [(n, c) for n in gr.nodes for c in node_calls(n) if isinstance(c.func, ast.Attribute) and c.func.attr == 'run']
    need(runs, 'C15.R4: plugin runtest does not call run')
    found = False
    for (n, c) in skips:
        facts = graph.guard_facts(domr, n)
        if any(isinstance(x.expr, ast.Call) and isinstance(x.expr.func, ast.Attribute) and x.expr.func.attr == 'anything_ran' and x.polarity is False for x in facts):
            found = True
            ok = any(domr.dominates(rn, n) for (rn, _) in runs)
            rep.ob('C15.R4', ctx.loc(fr, c), ctx.src(c), ok, 'pytest skip for "nothing ran" is decided after the run' if ok else 'the nothing-ran skip is not dominated by the run', anchor=fr.qualname)
    rep.ob('C15.R4', ctx.loc(fr, fr.node), 'plugin skips when nothing ran', found, 'present' if found else 'the plugin reports an all-skipped doctest as passed', nontrivial=False, anchor=fr.qualname)
    # run()'s own pytest.skip is guarded by mode == 'pytest'
    dom = ctx.dom(g, g.entry)
    for n in g.nodes:
        for c in node_calls(n):
            if ast.unparse(c.func) == 'pytest.skip':
                facts = graph.guard_facts(dom, n)
                ok = any(isinstance(x.expr, ast.Compare) and 'mode' in x.text and "'pytest'" in x.text and x.polarity is True for x in facts) and \
                    any(isinstance(x.expr, ast.Compare) and '_skipped_parts' in x.text and x.polarity is True for x in facts)
                rep.ob('C15.R4', ctx.loc(f, c), ctx.src(c) + ' in run()', ok,
                       'only in pytest mode and only when every part was skipped' if ok else 'run() raises a pytest skip outside pytest mode / for partly skipped doctests', anchor=RUN)
    # run mode of the plugin
    for (n, c) in runs:
        oe = [kw.value for kw in c.keywords if kw.arg == 'on_error']
        ok = bool(oe) and isinstance(oe[0], ast.Constant) and oe[0].value == 'raise'
        rep.ob('C15.R4', ctx.loc(fr, c), ctx.src(c), ok, 'the pytest item runs in raise mode' if ok else 'the pytest item does not run with on_error="raise": failures would not fail the item', anchor=fr.qualname)


def r5_disabled(ctx):
    rep = ctx.rep
    fr = ctx.func('xdoctest.plugin.XDoctestItem.runtest')
    gr = ctx.cfg(fr)
    domr = ctx.dom(gr, gr.entry)
    runs = [n for n in gr.nodes for c in node_calls(n) if isinstance(c.func, ast.Attribute) and c.func.attr == 'run']
    skips = [(n, c) for n in gr.nodes for c in node_calls(n) if ast.unparse(c.func) == 'pytest.skip']
    found = False
    for (n, c) in skips:
        facts = graph.guard_facts(domr, n)
        for x in facts:
            e = x.expr
            if isinstance(e, ast.Call) and isinstance(e.func, ast.Attribute) and e.func.attr == 'is_disabled' and x.polarity is True:
                found = True
                kw_ok = any(kw.arg == 'pytest' and isinstance(kw.value, ast.Constant) and kw.value.value is True for kw in e.keywords)
                before = all(graph.path(n.nsucc(), lambda y, r=r: y is r, efilter=graph.normal_only) is None for r in runs) and \
                    all(graph.path([gr.entry], lambda y, r=r: y is r, efilter=graph.normal_only, avoid=[x.origin.attrs['test']]) is None for r in runs)
                rep.ob('C15.R5', ctx.loc(fr, c), ctx.src(c), kw_ok and before,
                       'disabled doctests are skipped before they run, with the pytest pattern set' if kw_ok and before else
                       ('is_disabled is not asked with pytest=True' if not kw_ok else 'a disabled doctest can still run under pytest'), anchor=fr.qualname)
    rep.ob('C15.R5', ctx.loc(fr, fr.node), 'plugin skips disabled doctests', found, 'present' if found else 'force-disabled doctests run under pytest', nontrivial=False, anchor=fr.qualname)
    # the two pattern lists
    from .c10 import disable_pattern_sets
    fd, sets = disable_pattern_sets(ctx)
    native = {(a['alts'], a['flags'], a['method']) for a in sets[False]}
    plugin = {(a['alts'], a['flags'], a['method']) for a in sets[True]}
    need(len(native) == 1 and len(plugin) == 1, 'C15.R5: is_disabled does not apply one pattern list per mode')
    (native, nflags, nmeth), (plugin, pflags, pmeth) = native.pop(), plugin.pop()
    # everything the native run treats as a disable marker is one for the plugin as well: the lists differ only in pytest-only entries
    ok = set(native) <= set(plugin) and bool(native)
    rep.note('disable_patterns', {'native': list(native), 'pytest_only': [p for p in plugin if p not in native], 'flags': sorted(nflags)})
    same_mode = (nflags, nmeth) == (pflags, pmeth)
    rep.ob('C15.R5', ctx.loc(fd, fd.node), 'both modes apply their patterns the same way', same_mode,
           're.%s with flags %s in both modes' % (nmeth, sorted(nflags)) if same_mode else
           'the native run applies the markers with re.%s flags=%s, the plugin with re.%s flags=%s: a marker the native runner honours (e.g. written in lower case) '
           'is not one for pytest, so the doctest is omitted natively but run -- not skipped -- under pytest' % (nmeth, sorted(nflags), pmeth, sorted(pflags)), anchor=fd.qualname)
    rep.ob('C15.R5', ctx.loc(fd, fd.node), 'pattern lists differ only on the pytest branch', ok,
           'one base list, extended only under `pytest`' if ok else 'the native and pytest disable patterns differ in more than the pytest-only entries', anchor=fd.qualname)
    # native side: the same is_disabled without the flag
    fdm = ctx.func(DM)
    calls = [c for c in walk_scope(fdm.node) if isinstance(c, ast.Call) and isinstance(c.func, ast.Attribute) and c.func.attr == 'is_disabled']
    if not calls:
        # the selection may have been extracted into a helper of runner.py (inlining bound 1)
        for c0 in walk_scope(fdm.node):
            if isinstance(c0, ast.Call):
                r0 = ctx.res.resolve_call(fdm, c0)
                if r0[0] == 'repo':
                    for h in r0[1]:
                        if h.module is fdm.module:
                            calls += [c for c in walk_scope(h.node) if isinstance(c, ast.Call) and isinstance(c.func, ast.Attribute) and c.func.attr == 'is_disabled']
    ok = bool(calls) and all(not c.args and not c.keywords for c in calls)
    rep.ob('C15.R5', ctx.loc(fdm, calls[0] if calls else fdm.node), 'native: example.is_disabled()', ok, 'native runner uses the base pattern set' if ok else 'native runner does not consult is_disabled()', nontrivial=False, anchor=DM)


# ---------------------------------------------------------------------------
def r5b_disable_marker_anchored(ctx):
    """the set of force-disabled doctests (skipped by pytest, omitted natively) is decided by the first line only"""
    from .c10 import disable_marker_anchored
    disable_marker_anchored(ctx, 'C15.R5b')


def r2b_environment_defaults_are_front_end_independent(ctx):
    """both front ends register the SAME table, the plugin with a prefix on the option strings.  A default taken from the environment
    (XDOCTEST_OPTIONS, ...) must be keyed by the option name of the table entry, i.e. be computed from the alias BEFORE the prefix is applied --
    computed from the prefixed alias the name is no longer environment-aware and pytest ignores a variable the native runner honours"""
    rep = ctx.rep
    UAC = CFGCLS + '._update_argparse_cli'
    f = ctx.func(UAC)
    g = ctx.cfg(f)
    rd = ctx.rd(f)
    envs = [n for n in g.nodes if n.kind == 'stmt' and not n.dup and any(isinstance(x, ast.Attribute) and x.attr == 'environ' for x in ast.walk(n.ast))
            and any(isinstance(c, ast.Call) for c in ast.walk(n.ast))]
    rep.floor('C15.R2b', 'environment lookups in the option table', len(envs), 1)
    loops = [n for n in g.nodes if n.kind == 'for' and not n.dup]
    for en in envs:
        lf = [fr for fr in en.frames if fr.kind == 'loop']
        need(lf, 'C15.R2b: the environment default is not computed per table entry')
        tgt = lf[-1].stmt.target
        entry_names = {x.id for x in ast.walk(tgt) if isinstance(x, ast.Name)}
        # names the environment key is computed from, transitively
        bad = []
        seen = set()
        work = [(en, x.id) for x in ast.walk(en.ast) if isinstance(x, ast.Name) and isinstance(x.ctx, ast.Load)]
        while work:
            node, nm = work.pop()
            for d in rd.at(node, nm):
                if id(d) in seen:
                    continue
                seen.add(id(d))
                if nm in entry_names and d.kind not in ('iter',):
                    if isinstance(d.value, ast.AST) and any(isinstance(y, ast.Name) and y.id == 'prefix' for y in ast.walk(d.value)):
                        bad.append((nm, d))
                if isinstance(d.value, ast.AST) and d.kind == 'assign':
                    work += [(d.node, y.id) for y in ast.walk(d.value) if isinstance(y, ast.Name) and isinstance(y.ctx, ast.Load)]
        rep.ob('C15.R2b', ctx.loc(f, en.ast), ctx.src(en.ast, 80), not bad,
               'the environment key derives from the table entry as written' if not bad else
               'the environment key is computed from `%s` after the front-end prefix was applied to it (%s): under pytest the name becomes e.g. xdoctest-options, which is not in the '
               'environment-aware set, so XDOCTEST_OPTIONS changes the verdicts of the native runner only' % (bad[0][0], ctx.src(bad[0][1].node.ast, 60)), anchor=UAC)


def r7_pytest_skip_is_a_graceful_exit(ctx):
    """a doctest body that calls pytest.skip() raises _pytest.outcomes.Skipped, a BaseException.  The part loop treats it like ExitTestException
    (stop quietly, nothing recorded): the handler that catches ExitTestException must name Skipped too, otherwise the native runner dies with a
    traceback where pytest reports the item skipped"""
    rr = run_roles(ctx)
    rep = ctx.rep
    g = rr.g
    hs = []
    for n in g.nodes:
        if n.kind == 'handler' and not n.dup and isinstance(n.ast, ast.ExceptHandler) and n.ast.type is not None:
            names = {x.attr if isinstance(x, ast.Attribute) else getattr(x, 'id', None) for x in ast.walk(n.ast.type)}
            if 'ExitTestException' in names:
                hs.append((n, names))
    rep.floor('C15.R7', 'handlers for the graceful exit of a doctest', len(hs), 1)
    for (n, names) in hs:
        ok = 'Skipped' in names
        rep.ob('C15.R7', ctx.loc(rr.f, n.ast), 'except %s' % ctx.src(n.ast.type, 80), ok,
               'pytest.skip() inside a doctest ends it quietly under both front ends' if ok else
               'pytest\'s Skipped is not caught with ExitTestException: it is a BaseException, escapes DocTest.run and aborts the native run (no verdict for this or any later doctest, exit 1 '
               'with nothing failed) while pytest reports the doctest as skipped', anchor=RUN)


def r8_definite_assignment(ctx):
    """an UnboundLocalError in one front end only makes its verdicts differ from the other's (DEFINITE-ASSIGNMENT, see common.definite_assignment)"""
    from .common import definite_assignment
    definite_assignment(ctx, 'C15.R8', {'xdoctest.plugin', 'xdoctest.__main__'}, 8)


def r9_default_stream_kind(ctx):
    """what a doctest sees as sys.stdout while it runs depends on the verbosity: DocTest.run installs a capturing stream WITHOUT the real stream
    behind it when `_suppressed_stdout` is true (no fileno(), encoding, buffer).  The default verbosities of the front ends -- the fallback of the
    shared option table (native CLI), the default the plugin hands to that table, and the default of the doctest_module API -- are folded and put
    through that expression (FINITE-EVAL): they must select the same kind of stream, otherwise a doctest that touches the stream passes under
    one front end and fails under the other with no option given"""
    rep = ctx.rep
    rr = run_roles(ctx)
    exprs = []
    for n in rr.g.nodes:
        if n.kind == 'stmt' and not n.dup and isinstance(n.ast, ast.Assign) and any(is_self_attr(t, '_suppressed_stdout') for t in n.ast.targets):
            exprs.append(n.ast.value)
    rep.floor('C15.R9', 'stores of the stream-suppression switch in DocTest.run', len(exprs), 1)

    def ev(e, v):
        if isinstance(e, ast.Constant):
            return e.value
        if isinstance(e, ast.Name) and e.id == 'verbose':
            return v
        if isinstance(e, ast.UnaryOp) and isinstance(e.op, ast.Not):
            return not ev(e.operand, v)
        if isinstance(e, ast.UnaryOp) and isinstance(e.op, ast.USub):
            return -ev(e.operand, v)
        if isinstance(e, ast.BoolOp):
            vs = [bool(ev(x, v)) for x in e.values]
            return all(vs) if isinstance(e.op, ast.And) else any(vs)
        if isinstance(e, ast.Compare) and len(e.ops) == 1:
            l, r = ev(e.left, v), ev(e.comparators[0], v)
            table = {ast.Gt: lambda: l > r, ast.GtE: lambda: l >= r, ast.Lt: lambda: l < r, ast.LtE: lambda: l <= r, ast.Eq: lambda: l == r, ast.NotEq: lambda: l != r}
            if type(e.ops[0]) in table:
                return table[type(e.ops[0])]()
        raise AnalysisError('C15.R9: the stream-suppression switch is not a comparison of the verbosity: %s' % ast.unparse(e))
    defaults = []
    # (a) fallback of the shared table
    UAC = CFGCLS + '._update_argparse_cli'
    f = ctx.func(UAC)
    for x in ast.walk(f.node):
        if isinstance(x, ast.Call) and isinstance(x.func, ast.Attribute) and x.func.attr == 'get' and len(x.args) == 2 and isinstance(x.args[0], ast.Constant) \
                and x.args[0].value == 'verbose' and isinstance(x.args[1], ast.Constant) and isinstance(x.args[1].value, int):
            defaults.append(('native command line (fallback of the option table)', x.args[1].value, ctx.loc(f, x)))
    table_fallback = defaults[0][1] if defaults else None
    # (b) what the plugin hands to the table
    pf = ctx.func('xdoctest.plugin.pytest_addoption')
    for (n, c) in _calls_to(ctx, pf, UAC):
        kw = {k.arg: k.value for k in c.keywords}
        d = kw.get('defaults')
        val = None
        if d is None:
            val = table_fallback
        elif isinstance(d, ast.Call) and isinstance(d.func, ast.Name) and d.func.id == 'dict' and not d.args:
            kv = {k.arg: k.value for k in d.keywords}
            val = kv['verbose'].value if 'verbose' in kv and isinstance(kv['verbose'], ast.Constant) else (table_fallback if 'verbose' not in kv else None)
        elif isinstance(d, ast.Dict):
            kv = {k.value: v for (k, v) in zip(d.keys, d.values) if isinstance(k, ast.Constant)}
            val = kv['verbose'].value if 'verbose' in kv and isinstance(kv['verbose'], ast.Constant) else (table_fallback if 'verbose' not in kv else None)
        need(isinstance(val, int), 'C15.R9: the default verbosity of the plugin is not a literal')
        defaults.append(('pytest plugin', val, ctx.loc(pf, c)))
    # (c) the doctest_module API without a verbose argument and without flags
    cf = ctx.func('xdoctest.runner._parse_commandline')
    cg = ctx.cfg(cf)
    cdom = ctx.dom(cg, cg.entry)
    for n in cg.nodes:
        if n.kind == 'stmt' and not n.dup and isinstance(n.ast, ast.Assign) and any(is_name(t, 'verbose') for t in n.ast.targets) and isinstance(n.ast.value, (ast.Constant, ast.UnaryOp)):
            facts = [fa for fa in graph.guard_facts(cdom, n) if isinstance(fa.expr, ast.Compare) and isinstance(fa.expr.ops[0], (ast.In, ast.NotIn))]
            flagged = any((fa.polarity is True) == isinstance(fa.expr.ops[0], ast.In) for fa in facts)
            if facts and not flagged:
                try:
                    defaults.append(('doctest_module() without flags', ast.literal_eval(n.ast.value), ctx.loc(cf, n.ast)))
                except ValueError:
                    pass
    rep.floor('C15.R9', 'default verbosities of the front ends', len(defaults), 3)
    for e in exprs:
        kinds = [(who, v, bool(ev(e, v)), loc) for (who, v, loc) in defaults]
        ok = len({k for (_w, _v, k, _l) in kinds}) == 1
        odd = [x for x in kinds if x[2] != kinds[0][2]]
        rep.ob('C15.R9', odd[0][3] if odd else kinds[0][3], '%s over default verbosities %s' % (ast.unparse(e), [(w, v) for (w, v, _k, _l) in kinds]), ok,
               'every front end installs the same kind of stream by default' if ok else
               'with no verbosity option the %s runs doctests at verbosity %d where `%s` is %s, the %s at %d where it is %s: one front end installs a capturing stream with the real '
               'stream behind it, the other a bare buffer (no fileno(), encoding or buffer), so a doctest that touches sys.stdout beyond print() passes under one and fails under the other' %
               (odd[0][0], odd[0][1], ast.unparse(e), odd[0][2], kinds[0][0], kinds[0][1], kinds[0][2]) if odd else '', anchor=RUN)


# ---------------------------------------------------------------------------
from ..selftest import fire, silent      # noqa: E402

PL = 'xdoctest/plugin.py'
RN = 'xdoctest/runner.py'
DE = 'xdoctest/doctest_example.py'
MA = 'xdoctest/__main__.py'
VARIANTS = [
    silent('item-construction-extracted-into-a-method', (PL, "        for dtest in examples:\n            dtest.config.update(self._examp_conf)\n            name = dtest.unique_callname\n            if hasattr(XDoctestItem, 'from_parent'):\n                yield XDoctestItem.from_parent(\n                    self, name=name, dtest=dtest)\n            else:\n                # direct construction is deprecated\n                yield XDoctestItem(name, self, dtest=dtest)\n", "        for dtest in examples:\n            yield self._new_item(dtest.unique_callname, dtest)\n\n    def _new_item(self, name, dtest):\n        dtest.config.update(self._examp_conf)\n        if hasattr(XDoctestItem, 'from_parent'):\n            return XDoctestItem.from_parent(self, name=name, dtest=dtest)\n        return XDoctestItem(name, self, dtest=dtest)\n")),
    fire('item-construction-extracted-without-the-config', 'C15.R2', (PL, "        for dtest in examples:\n            dtest.config.update(self._examp_conf)\n            name = dtest.unique_callname\n            if hasattr(XDoctestItem, 'from_parent'):\n                yield XDoctestItem.from_parent(\n                    self, name=name, dtest=dtest)\n            else:\n                # direct construction is deprecated\n                yield XDoctestItem(name, self, dtest=dtest)\n", "        for dtest in examples:\n            yield self._new_item(dtest.unique_callname, dtest)\n\n    def _new_item(self, name, dtest):\n        if hasattr(XDoctestItem, 'from_parent'):\n            return XDoctestItem.from_parent(self, name=name, dtest=dtest)\n        return XDoctestItem(name, self, dtest=dtest)\n")),
    fire('plugin-default-verbosity-suppresses-the-stream', 'C15.R9', (PL, "        defaults=dict(verbose=2)\n", "        defaults=dict(verbose=1)\n")),
    silent('plugin-default-verbosity-three', (PL, "        defaults=dict(verbose=2)\n", "        defaults=dict(verbose=3)\n")),
    fire('suppression-threshold-moved', 'C15.R9', (DE, "        self._suppressed_stdout = verbose <= 1\n", "        self._suppressed_stdout = verbose <= 2\n")),
    fire('items-only-through-the-old-pytest-api', 'C15.R1', ('xdoctest/plugin.py', "                yield XDoctestItem.from_parent(\n                    self, name=name, dtest=dtest)\n            else:\n                # direct construction is deprecated\n                yield XDoctestItem(name, self, dtest=dtest)\n", "                XDoctestItem.from_parent(\n                    self, name=name, dtest=dtest)\n            else:\n                # direct construction is deprecated\n                yield XDoctestItem(name, self, dtest=dtest)\n", 2)),
    fire('anything-ran-always-true', 'C15.R4', (DE, "        return len(self.logged_stdout) > 0\n", "        return len(self.logged_stdout) >= 0\n")),
    fire('pytest-skip-escapes-the-native-run', 'C15.R7', (DE, "                except (exceptions.ExitTestException,\n                        exceptions._pytest.outcomes.Skipped) as ex:\n", "                except exceptions.ExitTestException as ex:\n")),
    fire('skipped-reraised-in-raise-mode', 'C15.R3b', (DE, "                except (exceptions.ExitTestException,\n                        exceptions._pytest.outcomes.Skipped) as ex:\n", "                except (exceptions.ExitTestException,\n                        exceptions._pytest.outcomes.Skipped) as ex:\n                    if on_error == 'raise':\n                        raise\n")),
    fire('native-exit-status-is-the-count', 'C15.R6', ('xdoctest/__main__.py', "    if n_failed > 0:\n        return 1\n    else:\n        return 0\n", "    return n_failed\n")),
    fire('plugin-style-not-forwarded', 'C15.R1',
         (PL, "            examples = list(core.parse_doctestables(modpath, style=style,\n                                                    analysis=analysis))\n", "            examples = list(core.parse_doctestables(modpath, analysis=analysis))\n")),
    fire('plugin-analysis-hardcoded', 'C15.R1',
         (PL, "            examples = list(core.parse_doctestables(modpath, style=style,\n                                                    analysis=analysis))\n", "            examples = list(core.parse_doctestables(modpath, style=style,\n                                                    analysis='static'))\n")),
    fire('runner-excludes-by-default', 'C15.R1', (RN, "def doctest_module(module_identifier=None, command=None, argv=None, exclude=[],", "def doctest_module(module_identifier=None, command=None, argv=None, exclude=['*.tests.*'],")),
    fire('item-named-by-callname', 'C15.R1', (PL, "            name = dtest.unique_callname\n", "            name = dtest.callname\n")),
    fire('plugin-config-not-applied', 'C15.R2', (PL, "        for dtest in examples:\n            dtest.config.update(self._examp_conf)\n", "        for dtest in examples:\n")),
    fire('native-config-not-applied', 'C15.R2', (RN, "            for example in enabled_examples:\n                example.config.update(config)\n", "            pass\n")),
    fire('gotwant-recorded-not-raised', 'C15.R3',
         (DE, "                    # When the \"got\", doesn't match the \"want\"\n                    self.exc_info = sys.exc_info()\n                    if on_error == 'raise':\n                        raise\n                    break\n",
              "                    # When the \"got\", doesn't match the \"want\"\n                    self.exc_info = sys.exc_info()\n                    break\n")),
    fire('skipped-part-logs-stdout', 'C15.R4',
         (DE, "                        print(f'part[{partx}] runstate requests skipping')\n                    self._skipped_parts.append(part)\n", "                        print(f'part[{partx}] runstate requests skipping')\n                    self._skipped_parts.append(part)\n                    self.logged_stdout[partx] = ''\n")),
    fire('plugin-ignores-nothing-ran', 'C15.R4', (PL, "        if not self.dtest.anything_ran():\n            pytest.skip('doctest is empty or all parts were skipped')\n", "")),
    fire('plugin-runs-in-return-mode', 'C15.R4', (PL, "        self.dtest.run(on_error='raise')\n", "        self.dtest.run(on_error='return')\n")),
    fire('run-skips-in-native-mode', 'C15.R4', (DE, "            if self.mode == 'pytest':\n                import pytest\n                pytest.skip()\n", "            if True:\n                import pytest\n                pytest.skip()\n")),
    fire('plugin-runs-disabled', 'C15.R5', (PL, "        if self.dtest.is_disabled(pytest=True):\n            pytest.skip('doctest encountered global skip directive')\n", "")),
    fire('pytest-mode-matches-case-sensitively', 'C15.R5', (DE, "        m = re.match(pattern, self.docsrc, flags=re.IGNORECASE)\n", "        if pytest:\n            m = re.match(pattern, self.docsrc)\n        else:\n            m = re.match(pattern, self.docsrc, flags=re.IGNORECASE)\n")),
    silent('disable-patterns-joined-once', (DE, "        m = re.match(pattern, self.docsrc, flags=re.IGNORECASE)\n", "        regex = re.compile(pattern, re.I)\n        m = regex.match(self.docsrc)\n")),
    fire('native-patterns-differ', 'C15.R5', (DE, "        if pytest:\n            disable_patterns += [\n", "        if not pytest:\n            disable_patterns += [r'>>>\\s*#\\s*NATIVE_ONLY']\n        if pytest:\n            disable_patterns += [\n")),
    silent('collector-kwargs-reordered',
           (PL, "            examples = list(core.parse_doctestables(modpath, style=style,\n                                                    analysis=analysis))\n", "            examples = list(core.parse_doctestables(modpath, analysis=analysis,\n                                                    style=style))\n")),
]
