"""
C09 -- every failure is recorded and rendered; one bad doctest never aborts the run.
"""
import ast

from ..context import need
from ..loader import AnalysisError
from .. import graph
from ..cfg import CFG
from ..policy import SitePolicy, UserCodePolicy, Summaries, E, NONEXC
from ..roles import run_roles, RUN, node_calls, mentions_self_attr, is_self_attr
from ..dataflow import ReachingDefs, field_name
from ..resolve import walk_scope
from .common import fmt_facts, is_name, is_attr_of

EXPLANATION = (
    'Static rule conformance for the failure kinds the property enumerates: '
    'R1 for every fallible site of the part loop (directive update, module pre-import, part compile, exec sites, capture exit, '
    'check site, exception checker, explicit raises) the handler chain is followed on the on_error != "raise" branches: no path may '
    'reach the function\'s exceptional exit, and every path that leaves the loop has recorded the failure; the compile filename and '
    'the frame filter of the generic handler must flow from the same field. R2 every call in DoctestPart.check / check_got_vs_want '
    'that runs code of user objects is wrapped so that only the two exception classes RUN has dedicated handlers for can leave. '
    'R3 every recorded failure leaves the loop. R4 in report rendering an index parsed from traceback text is bounds-guarded before '
    'indexing the failing part. R5 the native runner passes the constant "return" and keeps looping. R6 the pytest item renders '
    'through the same repr_failure. The content of the rendered report is not decided.')
DECIDES = ['ESCAPE per site under on_error=return', 'user-code call wrapping consistency', 'NEVER-AFTER/loop exit', 'index taint in repr_failure', 'CONST-PROP runner policy', 'plugin report path']
NOT_DECIDED = ['content of the rendered report', 'errors of --global-exec code, invalid on_error values and lazy parse errors (outside the enumerated failure kinds)',
               'exceptions raised by property getters (part.directives) and by incidental library calls inside handlers']

CHECK = 'xdoctest.doctest_part.DoctestPart.check'
CGW = 'xdoctest.checker.check_got_vs_want'
CE = 'xdoctest.checker.check_exception'
DEDICATED = ('xdoctest.checker.GotWantException', 'xdoctest.checker.ExtractGotReprException')


def run(ctx):
    for fn in (r1_escape_return_mode, r2_user_code_calls, r3_fail_store_leaves_loop, r4_render_index, r5_runner_policy, r6_plugin_render, r7_render_raises,
               r8_failed_part_set_before_failure, r9_failing_line_source, r10_failed_summary_is_only_failed, r11_definite_assignment, r12_summary_renders_every_failure):
        ctx.rep.rule(fn, ctx)


def usercode_summaries(ctx):
    if not hasattr(ctx, '_uc_summaries'):
        ctx._uc_summaries = Summaries(ctx.prog, ctx.res, UserCodePolicy, trusted=('xdoctest._tokenize',))
    return ctx._uc_summaries


def _tok_is_exception_class(exc, tok):
    """token denotes (possibly) an Exception subclass instance"""
    if tok[0] in ('sub', 'exact'):
        return exc.issub(tok[1], 'Exception') or tok[1] == 'Exception'
    if tok[0] == 'live':
        return True
    return False


def _dedicated(exc, tok):
    return tok[0] in ('exact', 'sub') and any(exc.issub(tok[1], d) for d in DEDICATED)


# ---------------------------------------------------------------------------
def r1_escape_return_mode(ctx):
    rr = run_roles(ctx)
    rep = ctx.rep
    f = rr.f
    summ = usercode_summaries(ctx)
    sites = []      # (role, call ast, tokens, framed)
    for (n, c) in rr.update_sites:
        sites.append(('directive update', c, {E}, False))
    for (n, c) in rr.import_sites:
        sites.append(('module pre-import', c, {E}, False))
    for (n, c) in rr.part_compiles:
        sites.append(('part compile', c, {E}, False))
    for (n, c) in rr.exec_sites:
        sites.append(('exec site', c, {E, NONEXC}, True))
    for (n, c) in rr.check_sites:
        toks = set(summ.escapes(ctx.func(CHECK)))
        sites.append(('check site', c, toks, False))
    for (n, c) in rr.check_exc_sites:
        toks = set(summ.escapes(ctx.func(CE)))      # contains ('live',): resolved by the CFG to what the enclosing handler caught
        sites.append(('exception checker', c, toks, True))
    rep.floor('C09.R1', 'fallible call sites in the part loop', len(sites), 9)
    site_tokens = {id(c): toks for (_, c, toks, _) in sites}
    # capture exit
    cap_exit = {}
    for w in rr.cap_withs:
        ci = ctx.res.receiver_class(f, w.ast.context_expr)
        m = ctx.prog.find_method(ci, '__exit__') if ci else None
        need(m is not None, 'C09.R1: capture class has no __exit__')
        cap_exit[id(w.ast)] = set(summ.escapes(m))
    pol = SitePolicy(ctx.prog, f, ctx.res, site_tokens, cap_exit)
    g = ctx.cfg(f, policy=lambda fn: pol, key='c09-sites')
    rd = ReachingDefs(g, receiver='self')
    loops = [n for n in g.nodes if n.kind == 'for' and not n.dup and mentions_self_attr(n.ast.iter, '_parts')]
    if len(loops) > 1:
        loops = [n for n in loops if n.ast is rr.loop.ast]      # the loop that executes the parts (a helper expanded into run may bring another)
    need(len(loops) == 1, 'C09.R1: part loop not found')
    loop = loops[0]
    iter_entry, cut = graph.region_of_loop(g, loop)
    loop_ids = set(id(n) for n in g.nodes if graph.in_loop_body(n, loop.ast))
    loop_ids.add(id(loop))
    loop_ids.add(id(iter_entry))
    fail_stores = [d.node for d in rd.defs_of('self.exc_info') if not (isinstance(d.value, ast.Constant) and d.value.value is None)]
    graceful = [n for n in g.nodes if n.kind == 'handler' and n.attrs['classes'] and any(c.endswith('ExitTestException') for c in n.attrs['classes'])]

    # (i) TABLE-AGREE: compile filename and the frame filter flow from one field
    frame_branches, agree, agree_detail = _frame_filter(ctx, rr, g, rd, loop_ids)
    rep.ob('C09.R1i', ctx.loc(f, rr.part_compiles[0][1]), 'compile(filename=F) vs frame filter `co_filename == F`', agree, agree_detail, anchor=RUN)

    rmf = rr.return_mode_filter()

    def make_filter(framed):
        def ef(a, b, kind, tok):
            if not rmf(a, b, kind, tok):
                return False
            if framed and agree and any(b is fb for fb in frame_branches):
                return False
            return True
        return ef

    # explicit raises in try bodies are failure sources of their own; raises inside handlers are
    # part of the handler chains followed from the sites
    explicit = [n for n in g.nodes if id(n) in loop_ids and n.kind == 'stmt' and isinstance(n.ast, ast.Raise) and n.ast.exc is not None
                and not any(fr.kind == 'try' and fr.phase == 'handler' for fr in n.frames)]
    start_sets = []
    for (role, c, toks, framed) in sites:
        for n in g.nodes_containing(c):
            start_sets.append((role, c, n, framed))
    for w in rr.cap_withs:
        for n in g.nodes_of(w.ast):
            if n.kind == 'with_exit':
                start_sets.append(('capture exit', w.ast.context_expr, n, False))
    for n in explicit:
        # explicit raises on the raise-mode branches are not return-mode failure kinds
        dom = ctx.dom(g, g.entry, tag='c09')
        guards = dom.guards(n)
        skip = False
        for b in guards:
            if b.kind == 'branch' and b.attrs['test'].kind == 'test':
                ok, raise_when = rr.is_on_error_raise_test(b.attrs['test'].ast)
                if ok and b.attrs['polarity'] == raise_when:
                    skip = True
        if not skip:
            start_sets.append(('explicit raise', n.ast, n, False))

    seen_keys = set()
    for (role, c, n, framed) in start_sets:
        ef = make_filter(framed)
        etoks = sorted({tok for (t, tok) in n.esucc() if _tok_is_exception_class(g.exc, tok)}, key=repr)
        key = (role, id(c), n.dup)
        if key in seen_keys:
            continue
        seen_keys.add(key)
        if not etoks:
            rep.ob('C09.R1', ctx.loc(f, c), '%s: %s' % (role, ctx.src(c)), True,
                   'no Exception-class token leaves this site under the stated policy', nontrivial=False, anchor=RUN)
            continue
        for tok in etoks:
            starts = [(t, tk) for (t, tk) in n.esucc() if tk == tok]
            # (a) no path to the exceptional exit of RUN
            # an escape is an exception in flight that leaves the loop; leaving it by normal flow (break) is fine
            def ef_a(a, b, kind, tk, ef=ef):
                if kind == 'n' and id(a) in loop_ids and id(b) not in loop_ids:
                    return False
                return ef(a, b, kind, tk)
            p = graph.exc_path(starts, lambda x: x is g.raise_exit, efilter=ef_a, stop=[loop])
            # (b) leaving the loop requires a recorded failure
            q = graph.exc_path(starts, lambda x: id(x) not in loop_ids and x is not g.raise_exit, efilter=ef, avoid=fail_stores + graceful, stop=[loop])
            tokname = tok[1].split('.')[-1] if len(tok) > 1 else tok[0]
            if p is not None:
                last_raise = [x for x in p if x.kind == 'stmt' and isinstance(x.ast, ast.Raise)]
                via = (' via `%s` at line %d' % (ctx.src(last_raise[-1].ast, 60), last_raise[-1].lineno)) if last_raise else ' (no handler records it)'
                rep.ob('C09.R1', ctx.loc(f, c), '%s: %s' % (role, ctx.src(c)), False,
                       'with on_error="return" an exception (%s) from the %s escapes DocTest.run%s' % (tokname, role, via),
                       witness=graph.fmt_path([n] + p, f.module.relpath), anchor=RUN)
            elif q is not None:
                rep.ob('C09.R1', ctx.loc(f, c), '%s: %s' % (role, ctx.src(c)), False,
                       'an exception (%s) from the %s ends the part loop without being recorded as a failure' % (tokname, role),
                       witness=graph.fmt_path([n] + q, f.module.relpath), anchor=RUN)
            else:
                rep.ob('C09.R1', ctx.loc(f, c), '%s: %s [%s]' % (role, ctx.src(c), tokname), True,
                       'every return-mode path records the failure and leaves the loop without raising', anchor=RUN)
    rep.note('escape_policy', {
        'sites': [{'role': r, 'construct': ctx.src(c), 'tokens': sorted(map(str, t)), 'framed': fr} for (r, c, t, fr) in sites],
        'excluded': ['invalid on_error value (KeyError)', 'lazy _parse() errors', 'errors of --global-exec code', 'assert statements (internal invariants)'],
    })


def _frame_filter(ctx, rr, g, rd, loop_ids):
    """branches `found is None -> True` whose variable is only set under a
    comparison of a frame's co_filename with the field the part compile uses
    as filename."""
    f = rr.f
    # field used as compile filename
    fields = set()
    for (n, c) in rr.part_compiles:
        for kw in c.keywords:
            if kw.arg == 'filename':
                fn = field_name(kw.value, 'self')
                if fn:
                    fields.add(fn)
                elif isinstance(kw.value, ast.Name):
                    for cn in g.nodes_containing(c):
                        for d in rd.at(cn, kw.value.id):
                            if isinstance(d.value, ast.AST) and field_name(d.value, 'self'):
                                fields.add(field_name(d.value, 'self'))
    if len(fields) != 1:
        return [], False, 'the filename given to compile() is not a single field of self (%s): frames of part code cannot be recognised reliably' % sorted(fields)
    field = next(iter(fields))
    # a store to that field dominates the compile inside the iteration
    branches = []
    detail = ''
    dom = ctx.dom(g, g.entry, tag='c09')
    for n in g.nodes:
        if id(n) not in loop_ids or n.kind != 'stmt' or not isinstance(n.ast, ast.Assign):
            continue
        tg = n.ast.targets[0]
        if not isinstance(tg, ast.Name):
            continue
        # guarded by  X == self.<field>  with X an attribute chain ending in co_filename (possibly via a local)
        ok = False
        for b in dom.guards(n):
            if b.kind != 'branch' or b.attrs['test'].kind != 'test' or b.attrs['polarity'] is not True:
                continue
            e = b.attrs['test'].ast
            if isinstance(e, ast.Compare) and len(e.ops) == 1 and isinstance(e.ops[0], ast.Eq):
                sides = [e.left, e.comparators[0]]
                if any(field_name(s, 'self') == field for s in sides):
                    other = [s for s in sides if field_name(s, 'self') != field][0]
                    if _is_co_filename(other, rd, b.attrs['test']):
                        ok = True
        if ok:
            var = tg.id
            # all other defs of var in the function are None initialisers
            others = [d for d in rd.defs_of(var) if d.node is not n]
            if all(isinstance(d.value, ast.Constant) and d.value.value is None for d in others):
                for t in g.nodes:
                    if t.kind == 'test' and isinstance(t.ast, ast.Compare) and len(t.ast.ops) == 1 and is_name(t.ast.left, var) \
                            and isinstance(t.ast.comparators[0], ast.Constant) and t.ast.comparators[0].value is None:
                        isop = isinstance(t.ast.ops[0], ast.Is)
                        isnot = isinstance(t.ast.ops[0], ast.IsNot)
                        for b in t.nsucc():
                            if b.kind == 'branch' and ((isop and b.attrs['polarity'] is True) or (isnot and b.attrs['polarity'] is False)):
                                branches.append(b)
                detail = 'compile filename and the frame filter both read %s; `%s` is set only for a frame of the part file' % (field, var)
    # the same search extracted into a helper (inlining bound 1): v [, ...] = helper(..., self.<field>, ...)
    for n in g.nodes:
        if id(n) not in loop_ids or n.kind != 'stmt' or not isinstance(n.ast, ast.Assign) or not isinstance(n.ast.value, ast.Call):
            continue
        r = ctx.res.resolve_call(f, n.ast.value)
        if r[0] != 'repo' or len(r[1]) != 1:
            continue
        h = r[1][0]
        pos = _helper_frame_search(ctx, h, n.ast.value, field)
        if pos is None:
            continue
        tg = n.ast.targets[0]
        var = None
        if pos == 'value' and isinstance(tg, ast.Name):
            var = tg.id
        elif isinstance(pos, int) and isinstance(tg, ast.Tuple) and pos < len(tg.elts) and isinstance(tg.elts[pos], ast.Name):
            var = tg.elts[pos].id
        if var is None:
            continue
        others = [d for d in rd.defs_of(var) if d.node is not n]
        if all(isinstance(d.value, ast.Constant) and d.value.value is None for d in others):
            for t in g.nodes:
                if t.kind == 'test' and isinstance(t.ast, ast.Compare) and len(t.ast.ops) == 1 and is_name(t.ast.left, var) \
                        and isinstance(t.ast.comparators[0], ast.Constant) and t.ast.comparators[0].value is None:
                    isop = isinstance(t.ast.ops[0], ast.Is)
                    isnot = isinstance(t.ast.ops[0], ast.IsNot)
                    for b in t.nsucc():
                        if b.kind == 'branch' and ((isop and b.attrs['polarity'] is True) or (isnot and b.attrs['polarity'] is False)):
                            branches.append(b)
            detail = 'compile filename and the frame filter (in %s) both read %s; `%s` is set only for a frame of the part file' % (h.name, field, var)
    if not branches:
        # a "nothing found" test that guards an explicit raise in a handler, but whose variable we could not tie to the frame search
        for t in g.nodes:
            if id(t) in loop_ids and t.kind == 'test' and isinstance(t.ast, ast.Compare) and len(t.ast.ops) == 1 and isinstance(t.ast.ops[0], (ast.Is, ast.IsNot)) and \
                    isinstance(t.ast.comparators[0], ast.Constant) and t.ast.comparators[0].value is None and any(fr.kind == 'try' and fr.phase == 'handler' for fr in t.frames):
                reach = graph.reachable(t.nsucc(), efilter=graph.normal_only, stop=[x for x in g.nodes if x.kind == 'for' and id(x) in loop_ids])
                if any(x.kind == 'stmt' and isinstance(x.ast, ast.Raise) and x.ast.exc is not None for x in reach):
                    raise AnalysisError('C09.R1: the handler raises when `%s`, but the search that sets the variable was not recognised (frame search idiom changed)' % ctx.src(t.ast))
        return [], True, 'compile filename is %s; no "frame not found" branch exists in the handlers' % field
    return branches, True, detail


def _helper_frame_search(ctx, h, call, field):
    """if helper h searches a traceback for the first entry whose co_filename equals one of its parameters, and the call passes
    self.<field> for that parameter: the position of the found line in the returned value ('value' or a tuple index), else None"""
    g = ctx.cfg(h)
    rd = ctx.rd(h)
    dom = ctx.dom(g, g.entry)
    params = [a.arg for a in h.node.args.args]
    for n in g.nodes:
        if n.kind != 'stmt' or n.dup or not isinstance(n.ast, ast.Assign) or not isinstance(n.ast.targets[0], ast.Name):
            continue
        pname = None
        for b in dom.guards(n):
            if b.kind != 'branch' or b.attrs['test'].kind != 'test' or b.attrs['polarity'] is not True:
                continue
            e = b.attrs['test'].ast
            if isinstance(e, ast.Compare) and len(e.ops) == 1 and isinstance(e.ops[0], ast.Eq):
                sides = [e.left, e.comparators[0]]
                for s_, o in ((sides[0], sides[1]), (sides[1], sides[0])):
                    if isinstance(s_, ast.Name) and s_.id in params and all(d.kind == 'param' for d in rd.at(b.attrs['test'], s_.id)) and _is_co_filename(o, rd, b.attrs['test']):
                        pname = s_.id
        if pname is None:
            continue
        var = n.ast.targets[0].id
        others = [d for d in rd.defs_of(var) if d.node is not n]
        if not all(isinstance(d.value, ast.Constant) and d.value.value is None for d in others):
            continue
        # the argument bound to pname
        i = params.index(pname)
        if h.cls is not None:
            i -= 1
        arg = call.args[i] if 0 <= i < len(call.args) else next((k.value for k in call.keywords if k.arg == pname), None)
        if arg is None or field_name(arg, 'self') != field:
            continue
        rets = [x for x in g.nodes if x.kind == 'stmt' and isinstance(x.ast, ast.Return) and not x.dup]
        poss = set()
        for rn in rets:
            v = rn.ast.value
            if is_name(v, var):
                poss.add('value')
            elif isinstance(v, ast.Tuple):
                idx = [k for k, e_ in enumerate(v.elts) if is_name(e_, var)]
                poss.add(idx[0] if len(idx) == 1 else None)
            else:
                poss.add(None)
        if len(poss) == 1 and None not in poss:
            return poss.pop()
    return None


def _is_co_filename(e, rd, node):
    if isinstance(e, ast.Attribute) and e.attr == 'co_filename':
        return True
    if isinstance(e, ast.Name):
        defs = rd.at(node, e.id)
        return bool(defs) and all(isinstance(d.value, ast.Attribute) and d.value.attr == 'co_filename' for d in defs)
    return False


# ---------------------------------------------------------------------------
def r2_user_code_calls(ctx):
    rep = ctx.rep
    summ = usercode_summaries(ctx)
    fcheck = ctx.func(CHECK)
    toks = summ.escapes(fcheck)
    exc = UserCodePolicy(ctx.prog, fcheck, ctx.res)
    leaked = sorted([t for t in toks if _tok_is_exception_class(exc, t) and not _dedicated(exc, t)], key=repr)
    rep.note('escape_sets', {CHECK: sorted(map(str, toks)), CGW: sorted(map(str, summ.escapes(ctx.func(CGW))))})
    # per user-code call site: is it wrapped?
    n_sites = 0
    # DoctestPart.check and everything it calls inside the checker / part modules (a wrapper extracted around repr() is followed)
    closure = [CHECK]
    i = 0
    while i < len(closure) and len(closure) < 40:
        fq = ctx.func(closure[i])
        i += 1
        for c in walk_scope(fq.node):
            if isinstance(c, ast.Call):
                r = ctx.res.resolve_call(fq, c)
                for x in (r[1] if r[0] == 'repo' else []):
                    if x.module.name in ('xdoctest.checker', 'xdoctest.doctest_part') and x.qualname not in closure:
                        closure.append(x.qualname)
    for q in closure:
        f = ctx.func(q)
        pol = UserCodePolicy(ctx.prog, f, ctx.res, summ)
        g = CFG(f.node, pol, label=q)
        for n in g.nodes:
            for c in node_calls(n):
                r = ctx.res.resolve_call(f, c)
                is_fmt = isinstance(c.func, ast.Attribute) and c.func.attr == 'format' and isinstance(c.func.value, ast.Constant) and pol._formats_parameter(list(c.args) + [k.value for k in c.keywords])
                if (r[0] == 'builtin' and r[1] in ('repr', 'str', 'format', 'ascii') and any(not isinstance(a, ast.Constant) for a in c.args)) or is_fmt:
                    n_sites += 1
                    # where does an Exception from this call go?
                    p = graph.path([t for (t, tok) in n.esucc() if tok == E], lambda x: x is g.raise_exit,
                                   efilter=lambda a, b, k, tok: True)
                    # acceptable only if it leaves as one of the dedicated classes
                    bad = False
                    if p is not None:
                        # find the token on the final edge
                        last = p[-2] if len(p) >= 2 else n
                        final = [tok for (x, k, tok) in last.succ if x is g.raise_exit] if len(p) >= 2 else [tok for (x, tok) in n.esucc() if x is g.raise_exit]
                        bad = any(not _dedicated(pol, t) and _tok_is_exception_class(pol, t) for t in final)
                    direct = any(x is g.raise_exit and tok == E for (x, tok) in n.esucc())
                    bad = bad or direct
                    rep.ob('C09.R2', ctx.loc(f, c), ctx.src(c), not bad,
                           'an exception raised by the user object is converted to a class RUN has a dedicated handler for' if not bad else
                           'this call runs code of the evaluated object unguarded: its exception leaves DoctestPart.check as a plain Exception without a doctest '
                           'frame (its sibling call is wrapped into ExtractGotReprException)', anchor=q)
    rep.floor('C09.R2', 'user-code calls in the checker', n_sites, 1)
    rep.ob('C09.R2', ctx.loc(fcheck, fcheck.node), 'escape set of DoctestPart.check', not leaked,
           'only %s (and non-Exception BaseExceptions) can leave the check' % [d.split('.')[-1] for d in DEDICATED] if not leaked else
           'classes other than the two RUN handles can leave the check: %s' % leaked, anchor=CHECK)


# ---------------------------------------------------------------------------
def r3_fail_store_leaves_loop(ctx):
    rr = run_roles(ctx)
    rep = ctx.rep
    rmf = rr.return_mode_filter()
    for fs in rr.fail_stores:
        if not rr.in_loop(fs):
            continue
        p = graph.path(fs.nsucc(), lambda x: x is rr.loop, efilter=lambda a, b, k, tok: k == 'n' and rmf(a, b, k, tok))
        rep.ob('C09.R3', ctx.loc(rr.f, fs.ast), ctx.src(fs.ast), p is None,
               'after the failure is recorded the iteration is left by break/return' if p is None else
               'after recording a failure the loop continues with the next part', witness=None if p is None else graph.fmt_path([fs] + p, rr.f.module.relpath), anchor=RUN)
        # and _post_run is reached (normal exit of RUN reachable)
        q = graph.path(fs.nsucc(), lambda x: any(x is pn for (pn, _) in rr.post_run_sites), efilter=lambda a, b, k, tok: k == 'n' and rmf(a, b, k, tok))
        rep.ob('C09.R3', ctx.loc(rr.f, fs.ast), ctx.src(fs.ast) + ' -> _post_run', q is not None,
               'the summary is built after the recorded failure' if q is not None else 'no return-mode path from the recorded failure reaches _post_run', anchor=RUN)


# ---------------------------------------------------------------------------
def r8_failed_part_set_before_failure(ctx):
    """the report is rendered from failed_part: whenever a failure is recorded inside the loop, failed_part has been
    set to the part of THIS iteration on every path from the iteration entry (a stale or missing failed_part makes
    failed_line_offset()/repr_failure() raise or name another part)"""
    rr = run_roles(ctx)
    rep = ctx.rep
    sets = []
    for d in rr.rd.defs_of('self.failed_part'):
        if rr.in_loop(d.node) and isinstance(d.value, ast.AST) and isinstance(d.value, ast.Name) and d.value.id == rr.part_var:
            sets.append(d.node)
    n = 0
    for fs in rr.fail_stores:
        if not rr.in_loop(fs):
            continue
        n += 1
        wit = graph.must_pass([rr.iter_entry], lambda x: x is fs, through=sets, stop=[rr.loop])
        rep.ob('C09.R8', ctx.loc(rr.f, fs.ast), ctx.src(fs.ast) + ' after failed_part = %s' % rr.part_var, wit is None and bool(sets),
               'failed_part names the part of this iteration whenever a failure is recorded' if wit is None and sets else
               'a failure can be recorded while failed_part still names an earlier part (or None): the report cannot be rendered or names the wrong line',
               witness=None if wit is None else graph.fmt_path(wit, rr.f.module.relpath), anchor=RUN)
    rep.floor('C09.R8', 'fail stores inside the part loop', n, 4)


def r10_failed_summary_is_only_failed(ctx):
    """a recorded failure yields a summary that is marked failed and nothing else (the runner looks at `skipped` first): same clause as C02.R6"""
    from . import c02
    c02.r6_summary_flags(ctx, rule='C09.R10')


def r9_failing_line_source(ctx):
    """the report names the failing source line: same structural clause as C08.R2"""
    from . import c08
    c08.r2_first_frame(ctx, rule='C09.R9')


# ---------------------------------------------------------------------------
REPR = 'xdoctest.doctest_example.DocTest.repr_failure'


def r4_render_index(ctx):
    rep = ctx.rep
    top = ctx.func(REPR)
    funcs = [top]
    work = [top]
    while work:
        x = work.pop()
        for g_ in x.nested.values():
            funcs.append(g_)
            work.append(g_)
    n_found = 0
    n_int = 0
    for f in funcs:
        g = ctx.cfg(f)
        rd = ctx.rd(f)
        dom = ctx.dom(g, g.entry)
        for n in g.nodes:
            if n.kind not in ('stmt', 'test') or n.dup:
                continue
            if isinstance(n.ast, (ast.FunctionDef, ast.AsyncFunctionDef, ast.ClassDef)):
                continue
            facts = None
            for sub in ast.walk(n.ast):
                # -- (a) text-derived index into a list of the failing part
                if isinstance(sub, ast.Subscript) and isinstance(sub.ctx, ast.Load) and not isinstance(sub.slice, (ast.Slice, ast.Constant)):
                    base_attr, base_text = _failed_part_list(rd, n, sub.value)
                    if base_attr is None:
                        continue
                    idx_names = [x.id for x in ast.walk(sub.slice) if isinstance(x, ast.Name)]
                    tainted = [nm for nm in idx_names if _parsed_from_text(f, nm)]
                    if not tainted:
                        continue
                    n_found += 1
                    if facts is None:
                        facts = _expanded_facts(rd, dom, n)
                    aliases = {base_text, ast.unparse(sub.value)}
                    guarded = any(isinstance(fa.expr, ast.AST) and _is_bounds_test(fa.expr, fa.polarity, tainted, aliases) for fa in facts)
                    guarded = guarded or _in_handler_for(g, n, ('IndexError', 'LookupError', 'Exception', 'BaseException'))
                    rep.ob('C09.R4', ctx.loc(f, sub), ctx.src(sub), guarded,
                           'index parsed from traceback text is bounds-checked against the indexed list' if guarded else
                           'a line number parsed from traceback text indexes %s unguarded: a frame of the doctest file that belongs to an earlier, longer part '
                           '(helper or __repr__ defined earlier) raises IndexError while the report is rendered' % base_text, anchor=REPR)
                # -- (b) int() of traceback text
                if isinstance(sub, ast.Call) and is_name(sub.func, 'int') and len(sub.args) == 1 and not isinstance(sub.args[0], ast.Constant):
                    if ctx.res.resolve_call(f, sub) != ('builtin', 'int'):
                        continue
                    n_int += 1
                    if facts is None:
                        facts = _expanded_facts(rd, dom, n)
                    arg_text = ast.unparse(sub.args[0])
                    guarded = any(isinstance(fa.expr, ast.Call) and isinstance(fa.expr.func, ast.Attribute) and fa.expr.func.attr in ('isdigit', 'isdecimal', 'isnumeric')
                                  and fa.polarity is True and ast.unparse(fa.expr.func.value) == arg_text for fa in facts)
                    guarded = guarded or _in_handler_for(g, n, ('ValueError', 'Exception', 'BaseException'))
                    rep.ob('C09.R4', ctx.loc(f, sub), ctx.src(sub), guarded,
                           'the text parsed as a line number is tested with isdigit() first' if guarded else
                           'traceback text is parsed with int() unguarded: a line of another shape (the location line of a SyntaxError has no ", in ..." part) '
                           'raises ValueError while the report is rendered', anchor=REPR)
    rep.floor('C09.R4', 'text-derived indexes into failed_part lists', n_found, 1)
    rep.floor('C09.R4', 'int() parses of traceback text', n_int, 1)
    # -- (c) fields that are None until the first part is compiled / a failure is recorded
    init = ctx.prog.find_method(top.cls, '__init__')
    nullable = set()
    for sub in ast.walk(init.node):
        if isinstance(sub, ast.Assign) and isinstance(sub.value, ast.Constant) and sub.value.value is None:
            for t in sub.targets:
                fn = field_name(t, 'self')
                if fn:
                    nullable.add(fn.split('.', 1)[1])
    n_null = 0
    for f in funcs:
        g = ctx.cfg(f)
        dom = ctx.dom(g, g.entry)
        recv = 'self'
        for n in g.nodes:
            if n.kind not in ('stmt', 'test') or n.dup or isinstance(n.ast, (ast.FunctionDef, ast.AsyncFunctionDef, ast.ClassDef)):
                continue
            for sub in ast.walk(n.ast):
                if isinstance(sub, ast.Compare) and len(sub.ops) == 1 and isinstance(sub.ops[0], (ast.In, ast.NotIn)):
                    fn = field_name(sub.left, recv)
                    if fn and fn.split('.', 1)[1] in nullable and fn.count('.') == 1:
                        n_null += 1
                        fld = fn.split('.', 1)[1]
                        # guarded by `<field> is not None` on the path, or by the left conjunct of the same `and`
                        guarded = any(isinstance(fa.expr, ast.Compare) and field_name(fa.expr.left, recv) == fn and isinstance(fa.expr.ops[0], ast.Is) and fa.polarity is False for fa in graph.guard_facts(dom, n))
                        par = getattr(sub, '_parent', None)
                        if isinstance(par, ast.BoolOp) and isinstance(par.op, ast.And):
                            idx = [i for i, v in enumerate(par.values) if v is sub][0]
                            for v in par.values[:idx]:
                                for fa in graph.facts_of(v, True):
                                    if isinstance(fa.expr, ast.Compare) and field_name(fa.expr.left, recv) == fn and isinstance(fa.expr.ops[0], ast.Is) and fa.polarity is False:
                                        guarded = True
                                    if field_name(fa.expr, recv) == fn and fa.polarity is True:
                                        guarded = True
                        rep.ob('C09.R4', ctx.loc(f, sub), ctx.src(sub), guarded,
                               'membership test on a field that may still be None is preceded by a None test' if guarded else
                               'self.%s is None until the first part is compiled (a directive or import failure is recorded before that): `None in <str>` raises TypeError while the report is rendered' % fld,
                               anchor=REPR)
    rep.note('nullable_fields_tested_in_render', n_null)


def _failed_part_list(rd, n, base, depth=2):
    """('orig_lines', 'self.failed_part.orig_lines') when `base` denotes a list attribute of the failing part,
    directly or through a single-definition local alias"""
    if isinstance(base, ast.Attribute) and isinstance(base.value, ast.Attribute) and base.value.attr == 'failed_part':
        return base.attr, ast.unparse(base)
    if isinstance(base, ast.Name) and depth > 0:
        defs = rd.at(n, base.id)
        if len(defs) == 1 and isinstance(defs[0].value, ast.AST) and defs[0].kind == 'assign':
            return _failed_part_list(rd, defs[0].node, defs[0].value, depth - 1)
    return None, None


def _expanded_facts(rd, dom, n, depth=2):
    """guard facts of n, with boolean locals expanded through their single definition"""
    out = []
    work = [(fa, depth) for fa in graph.guard_facts(dom, n)]
    while work:
        fa, d = work.pop()
        out.append(fa)
        if d > 0 and isinstance(fa.expr, ast.Name) and fa.polarity is True and fa.origin is not None and fa.origin.kind == 'branch':
            defs = rd.at(fa.origin.attrs['test'], fa.expr.id)
            if len(defs) == 1 and isinstance(defs[0].value, ast.AST) and defs[0].kind == 'assign':
                for f2 in graph.facts_of(defs[0].value, True, fa.origin):
                    work.append((f2, d - 1))
    return out


def _in_handler_for(g, n, classes):
    for fr in n.frames:
        if fr.kind == 'try' and fr.phase == 'body':
            for h in fr.stmt.handlers:
                cl = g._handler_classes(h)
                if cl is None or any(c in classes for c in cl):
                    return True
    return False


def _parsed_from_text(f, name):
    """name is assigned from int(<expr>) somewhere in f or an enclosing function"""
    cur = f
    while cur is not None:
        for sub in walk_scope(cur.node):
            if isinstance(sub, ast.Assign) and any(isinstance(t, ast.Name) and t.id == name for t in sub.targets):
                v = sub.value
                if isinstance(v, ast.Call) and is_name(v.func, 'int'):
                    return True
        cur = cur.parent
    return False


def _is_bounds_test(e, polarity, names, aliases):
    """e bounds one of `names` by len(<one of aliases>)"""
    if isinstance(e, ast.Compare):
        parts = [e.left] + list(e.comparators)
        has_len = any(isinstance(x, ast.Call) and is_name(x.func, 'len') and x.args and ast.unparse(x.args[0]) in aliases
                      for p in parts for x in ast.walk(p))
        has_name = any(isinstance(x, ast.Name) and x.id in names for p in parts for x in ast.walk(p))
        ordered = all(isinstance(o, (ast.Lt, ast.LtE, ast.Gt, ast.GtE)) for o in e.ops)
        return has_len and has_name and ordered and polarity is True
    return False


# ---------------------------------------------------------------------------
RUNEX = 'xdoctest.runner._run_examples'


def r5_runner_policy(ctx):
    rep = ctx.rep
    f = ctx.func(RUNEX)
    g = ctx.cfg(f)
    rd = ctx.rd(f)
    runs = []
    for n in g.nodes:
        for c in node_calls(n):
            r = ctx.res.resolve_call(f, c)
            if (r[0] in ('repo', 'method')) and any(x.qualname == RUN for x in (r[1] if r[0] == 'repo' else r[2])):
                runs.append((n, c))
    rep.floor('C09.R5', 'example.run call sites', len(runs), 1)
    const_vals = set()
    var = None
    for (n, c) in runs:
        val = None
        for kw in c.keywords:
            if kw.arg == 'on_error':
                val = kw.value
        if val is None and len(c.args) >= 2:
            val = c.args[1]
        if val is None:
            rep.ob('C09.R5', ctx.loc(f, c), ctx.src(c), False, 'the runner does not pass on_error: the default is "raise", so the first failing doctest aborts the run', anchor=RUNEX)
            continue
        vals = set()
        if isinstance(val, ast.Constant):
            vals.add(val.value)
        elif isinstance(val, ast.Name):
            var = val.id
            for d in rd.at(n, val.id):
                vals.add(d.value.value if isinstance(d.value, ast.Constant) else '<%s>' % (ctx.src(d.value) if isinstance(d.value, ast.AST) else d.kind))
        ok = vals == {'return'}
        const_vals |= vals
        rep.ob('C09.R5', ctx.loc(f, c), ctx.src(c), ok,
               'on_error has the single reaching constant "return"' if ok else 'on_error may be %s: a failing doctest raises out of the runner loop' % sorted(map(str, vals)), anchor=RUNEX)
    # under that constant the loop continues after a failure
    loops = [n for n in g.nodes if n.kind == 'for' and not n.dup]
    need(loops, 'C09.R5: runner loop not found')
    loop = [l for l in loops if any(graph.path([l], lambda x, rn=rn: x is rn, stop=[]) for (rn, _) in runs)][0]

    cbf = graph.const_branch_filter(rd)

    def ef(a, b, k, tok):
        return k == 'n' and cbf(a, b, k, tok)
    appends = [n for n in g.nodes if n.kind == 'stmt' and any(isinstance(c.func, ast.Attribute) and c.func.attr == 'append' and is_name(c.func.value, 'failed') for c in node_calls(n))]
    rep.floor('C09.R5', 'failed.append sites', len(appends), 1)
    for a in appends:
        reach = graph.reachable(a.nsucc(), efilter=ef, stop=[loop])
        back = any(x is loop for x in reach)
        raises = [x for x in reach if x.kind == 'stmt' and isinstance(x.ast, ast.Raise)]
        ok = back and not raises
        rep.ob('C09.R5', ctx.loc(f, a.ast), ctx.src(a.ast) + ' -> next example', ok,
               'after a failing doctest the loop reaches its back edge without raising' if ok else
               ('a raise is reachable after a failing doctest under on_error="return" (line %d)' % raises[0].lineno if raises else 'the loop does not continue after a failing doctest'),
               anchor=RUNEX)


# ---------------------------------------------------------------------------
def r6_plugin_render(ctx):
    rep = ctx.rep
    q = 'xdoctest.plugin.XDoctestItem.repr_failure'
    f = ctx.func(q)
    g = ctx.cfg(f)
    dom = ctx.dom(g, g.entry)
    found = False
    for n in g.nodes:
        for c in node_calls(n):
            if isinstance(c.func, ast.Attribute) and c.func.attr == 'repr_failure' and not (isinstance(c.func.value, ast.Call)):
                r = ctx.res.resolve_call(f, c)
                cands = r[1] if r[0] == 'repo' else (r[2] if r[0] == 'method' else [])
                if any(x.qualname == REPR for x in cands):
                    found = True
                    facts = graph.guard_facts(dom, n)
                    ok = any(isinstance(fa.expr, ast.Compare) and isinstance(fa.expr.left, ast.Attribute) and fa.expr.left.attr == 'exc_info'
                             and isinstance(fa.expr.ops[0], ast.Is) and fa.polarity is False for fa in facts)
                    rep.ob('C09.R6', ctx.loc(f, c), ctx.src(c), ok,
                           'rendered through DocTest.repr_failure when a failure was recorded' if ok else 'guards: %s' % fmt_facts(facts), anchor=q)
    rep.ob('C09.R6', ctx.loc(f, f.node), 'plugin item renders DocTest.repr_failure', found,
           'call found' if found else 'the pytest item no longer renders the doctest report', nontrivial=False, anchor=q)


# ---------------------------------------------------------------------------
# explicit raises inside the functions the report is rendered with: each confirmed by reading, one reason per entry
ACCEPTED_RENDER_RAISES = {
    ('xdoctest.checker.GotWantException.output_difference', "raise ValueError('Invalid difflib option')"):
        'infeasible: reached only when _do_a_fancy_diff(runstate) is true, which implies one of the three REPORT_* flags tested just above, on the same run state',
    ('xdoctest.utils.util_str.ensure_unicode', "raise ValueError('unknown input type {!r}'.format(text))"):
        'the argument is the str produced by normalize()',
    ('xdoctest.doctest_example.DocTest.cmdline', 'raise KeyError(self.mode)'):
        'mode is only ever set to "pytest" (constructor default) or "native" (runner)',
}
RENDER_STOP = {'xdoctest.doctest_example.DocTest._parse'}


def render_closure(ctx):
    """functions the failure report is rendered with: precisely resolved callees of DocTest.repr_failure (property
    getters of DocTest read there included); the lazy _parse() is excluded (parts exist once a run recorded a failure)"""
    top = ctx.func(REPR)
    seen = {}
    work = [top]
    props = {m.name: m for m in top.cls.methods.values() if 'property' in [d.id for d in m.node.decorator_list if isinstance(d, ast.Name)]}
    while work:
        fn = work.pop()
        if fn.qualname in seen or fn.qualname in RENDER_STOP or fn.module.name == 'xdoctest._tokenize':
            continue
        seen[fn.qualname] = fn
        # only code that is reachable once branches on local constants are decided (e.g. `FLAG = False; if FLAG:`)
        g = ctx.cfg(fn)
        live = graph.reachable([g.entry], efilter=graph.const_branch_filter(ctx.rd(fn)))
        live_ast = []
        for n in live:
            if n.kind in ('stmt', 'test', 'for_init') and isinstance(n.ast, ast.AST) and not isinstance(n.ast, (ast.FunctionDef, ast.AsyncFunctionDef, ast.ClassDef)):
                live_ast.append(n.ast)
            elif n.kind == 'with_enter':
                live_ast.append(n.ast.context_expr)
        for c in (x for a in live_ast for x in ast.walk(a)):
            if isinstance(c, ast.Call):
                r = ctx.res.resolve_call(fn, c)
                if r[0] == 'repo':
                    work.extend(r[1])
                elif r[0] == 'class':
                    m = ctx.prog.find_method(r[1], '__init__')
                    if m:
                        work.append(m)
            elif isinstance(c, ast.Attribute) and isinstance(c.ctx, ast.Load) and is_name(c.value, 'self') and c.attr in props and fn.cls is top.cls:
                work.append(props[c.attr])
            elif isinstance(c, ast.Attribute) and c.attr in ('output_difference', 'output_repr_difference'):
                for m in ctx.res._methods_by_name.get(c.attr, []):
                    work.append(m)
    return seen


def r7_render_raises(ctx):
    rep = ctx.rep
    clo = render_closure(ctx)
    rep.floor('C09.R7', 'functions in the rendering closure', len(clo), 8)
    rep.note('render_closure', sorted(clo))
    n = 0
    for q, fn in sorted(clo.items()):
        g = ctx.cfg(fn)
        live = graph.reachable([g.entry], efilter=graph.const_branch_filter(ctx.rd(fn)))
        for r in [x.ast for x in live if x.kind == 'stmt' and isinstance(x.ast, ast.Raise) and not x.dup]:
            if isinstance(r, ast.Raise) and r.exc is not None:
                n += 1
                txt = ' '.join(ast.unparse(r).split())
                reason = ACCEPTED_RENDER_RAISES.get((q, txt))
                rep.ob('C09.R7', ctx.loc(fn, r), txt, reason is not None,
                       'accepted: %s' % reason if reason else
                       'an explicit raise lies on the path that renders a recorded failure: when it is reached the report cannot be rendered (the native summary aborts, INTERNALERROR under pytest)',
                       nontrivial=False, anchor=q)
    rep.note('explicit_raises_in_render_closure', n)


def r11_definite_assignment(ctx):
    """an UnboundLocalError raised inside the run / check / report code is not one of the failure kinds the part loop records: it escapes as a crash of the runner (DEFINITE-ASSIGNMENT, see common.definite_assignment)"""
    from .common import definite_assignment
    definite_assignment(ctx, 'C09.R11', {'xdoctest.doctest_example', 'xdoctest.checker', 'xdoctest.doctest_part', 'xdoctest.runner', 'xdoctest.directive', 'xdoctest.utils.util_stream'}, 60)


def r12_summary_renders_every_failure(ctx):
    """the final report renders EVERY recorded failure when more than one doctest ran (with a single doctest the failure was rendered by the run
    itself): the guard of the rendering loop in _print_summary_report is evaluated over the numbers of failed / run doctests (FINITE-EVAL)"""
    rep = ctx.rep
    q = 'xdoctest.runner._print_summary_report'
    f = ctx.func(q)
    g = ctx.cfg(f)
    dom = ctx.dom(g, g.entry)
    loops = [n for n in g.nodes if n.kind == 'for' and not n.dup and any(isinstance(x, ast.Name) and x.id == 'failed' for x in ast.walk(n.ast.iter))
             and any(isinstance(c, ast.Call) and isinstance(c.func, ast.Attribute) and c.func.attr == 'repr_failure' for st in n.ast.body for c in ast.walk(st))]
    rep.floor('C09.R12', 'loops that render the failed doctests in the summary', len(loops), 1)

    class _Unknown(Exception):
        pass

    def ev(e, env):
        if isinstance(e, ast.Constant):
            return e.value
        if isinstance(e, ast.Name) and e.id in env:
            return env[e.id]
        if isinstance(e, ast.Call) and isinstance(e.func, ast.Name) and e.func.id == 'len' and len(e.args) == 1:
            return len(ev(e.args[0], env))
        if isinstance(e, ast.UnaryOp) and isinstance(e.op, ast.Not):
            return not ev(e.operand, env)
        if isinstance(e, ast.BoolOp):
            vs = [bool(ev(v, env)) for v in e.values]
            return all(vs) if isinstance(e.op, ast.And) else any(vs)
        if isinstance(e, ast.Compare) and len(e.ops) == 1:
            l, r = ev(e.left, env), ev(e.comparators[0], env)
            op = type(e.ops[0])
            table = {ast.Gt: l > r, ast.GtE: l >= r, ast.Lt: l < r, ast.LtE: l <= r, ast.Eq: l == r, ast.NotEq: l != r}
            if op in table:
                return table[op]
        raise _Unknown(ast.unparse(e))
    for lp in loops:
        facts = [fa for fa in graph.guard_facts(dom, lp) if fa.polarity in (True, False) and isinstance(fa.expr, ast.AST)]
        rows = []
        for nf in (0, 1, 2):
            for ne in (1, 2, 3):
                if nf > ne:
                    continue
                env = {'failed': [0] * nf, 'enabled_examples': [0] * ne}
                try:
                    entered = all(bool(ev(fa.expr, env)) == fa.polarity for fa in facts)
                except _Unknown as ex:
                    raise AnalysisError('C09.R12: a condition of the rendering loop was not recognised: %s' % ex)
                spec = nf >= 1 and ne > 1
                if entered != spec and not (nf == 0):
                    rows.append((nf, ne, entered))
        rep.ob('C09.R12', ctx.loc(f, lp.ast), 'failures rendered under %s' % fmt_facts(facts), not rows,
               'rendered whenever at least one of several doctests failed' if not rows else
               'with (failed, run) = %s the failures are %s: a failing doctest is reported only as a count and a command line, never with its exception and failing line' %
               ([(a, b) for (a, b, _e) in rows], 'not rendered' if not rows[0][2] else 'rendered twice'), anchor=q)


# ---------------------------------------------------------------------------
from ..selftest import fire, silent      # noqa: E402

DE = 'xdoctest/doctest_example.py'
CK = 'xdoctest/checker.py'
RN = 'xdoctest/runner.py'
VARIANTS = [
    fire('single-failure-among-many-not-rendered', 'C09.R12', ('xdoctest/runner.py', "    if failed and len(enabled_examples) > 1:\n", "    if len(failed) > 1:\n")),
    fire('met-requirement-leaves-action-unassigned', 'C09.R11', ('xdoctest/directive.py', "                    # If the requirement is met, then do nothing,\n                    action = 'noop'\n", "                    # If the requirement is met, then do nothing,\n                    pass\n")),
    fire('value-read-before-any-eval', 'C09.R11', ('xdoctest/doctest_example.py', "            got_eval = constants.NOT_EVALED\n", "            pass\n")),
    fire('fallback-repr-through-format', 'C09.R2', ('xdoctest/checker.py', "                try:\n                    got = repr(got_eval)\n                except Exception as ex:\n                    raise ExtractGotReprException('Error calling repr for {}. Caused by: {!r}'.format(type(got_eval), ex), ex)\n                flag = check_output(got, want, runstate)\n                if not flag:\n                    got = got_stdout\n", "                got = '{!r}'.format(got_eval)\n                flag = check_output(got, want, runstate)\n                if not flag:\n                    got = got_stdout\n")),
    fire('failed-part-set-after-directive-update', 'C09.R8', ('xdoctest/doctest_example.py', "                self.failed_part = part  # Assume part will fail (it may not)\n", ""), ('xdoctest/doctest_example.py', "                if not did_pre_import:\n", "                self.failed_part = part\n                if not did_pre_import:\n")),
    fire('report-line-from-f_lineno', 'C09.R9', ('xdoctest/doctest_example.py', "                            found_lineno = sub_tb.tb_lineno\n", "                            found_lineno = sub_tb.tb_frame.f_lineno\n")),
    fire('gotwant-not-recorded', 'C09.R1',
         (DE, "                except checker.GotWantException:\n                    # When the \"got\", doesn't match the \"want\"\n                    self.exc_info = sys.exc_info()\n",
              "                except checker.GotWantException:\n                    # When the \"got\", doesn't match the \"want\"\n                    pass\n")),
    fire('generic-handler-always-reraises', 'C09.R1',
         (DE, "                    if on_error == 'raise':\n                        raise\n                    break\n                finally:", "                    raise\n                finally:")),
    fire('directive-error-reraised', 'C09.R1',
         (DE, "                    self.failed_tb_lineno = 1  # is this the directive line?\n                    if on_error == 'raise':\n                        raise\n                    break\n",
              "                    self.failed_tb_lineno = 1  # is this the directive line?\n                    raise\n")),
    fire('import-error-escapes', 'C09.R1',
         (DE, "                        if on_error == 'raise':\n                            raise\n                        else:\n                            summary = self._post_run(verbose)\n                            return summary\n",
              "                        raise\n")),
    fire('frame-filter-uses-other-name', 'C09.R1',
         (DE, "                        filename=self._partfilename,\n", "                        filename='<doctest:' + self.node + ':part>',\n")),
    fire('runner-raise-mode', 'C09.R5',
         (RN, "    on_error = 'return' if n_total > 1 else 'raise'\n    on_error = 'return'\n", "    on_error = 'return' if n_total > 1 else 'raise'\n")),
    fire('runner-default-on-error', 'C09.R5',
         (RN, "summary = example.run(verbose=verbose, on_error=on_error)", "summary = example.run(verbose=verbose)")),
    fire('plugin-no-report', 'C09.R6',
         (('xdoctest/plugin.py'), "            lines = dtest.repr_failure()\n", "            lines = [message]\n")),
    fire('failure-continues-loop', 'C09.R3',
         (DE, "                    self.exc_info = sys.exc_info()\n                    if on_error == 'raise':\n                        raise ex.orig_ex\n                    break\n",
              "                    self.exc_info = sys.exc_info()\n                    if on_error == 'raise':\n                        raise ex.orig_ex\n                    continue\n")),
    fire('revert-fix-F4-compile-escapes', 'C09.R1',
         (DE, "                    self.exc_info = sys.exc_info()\n                    ex_value = self.exc_info[1]\n                    # SyntaxErrors know which line of the part is offending\n                    self.failed_tb_lineno = getattr(ex_value, 'lineno', None) or 1\n                    if on_error == 'raise':\n                        raise\n                    break\n",
              "                    raise\n")),
    fire('compile-error-recorded-but-loop-continues', 'C0',
         (DE, "                    self.failed_tb_lineno = getattr(ex_value, 'lineno', None) or 1\n                    if on_error == 'raise':\n                        raise\n                    break\n",
              "                    self.failed_tb_lineno = getattr(ex_value, 'lineno', None) or 1\n                    if on_error == 'raise':\n                        raise\n")),
    fire('revert-fix-F7-unguarded-repr', 'C09.R2',
         (CK, "                try:\n                    got = repr(got_eval)\n                except Exception as ex:\n                    raise ExtractGotReprException('Error calling repr for {}. Caused by: {!r}'.format(type(got_eval), ex), ex)\n                flag = check_output(got, want, runstate)\n                if not flag:",
              "                got = repr(got_eval)\n                flag = check_output(got, want, runstate)\n                if not flag:")),
    fire('repr-wrapped-into-wrong-class', 'C09.R2',
         (CK, "                except Exception as ex:\n                    raise ExtractGotReprException('Error calling repr for {}. Caused by: {!r}'.format(type(got_eval), ex), ex)\n                flag = check_output(got, want, runstate)\n                if not flag:",
              "                except Exception as ex:\n                    raise RuntimeError('Error calling repr for {}'.format(type(got_eval)))\n                flag = check_output(got, want, runstate)\n                if not flag:")),
    fire('revert-fix-F1-unbounded-index', 'C09.R4',
         (DE, "                            if 0 < tb_lineno <= len(orig_lines):\n", "                            if True:\n")),
    fire('bounds-test-off-by-one-upper', 'C09.R4',
         (DE, "                            if 0 < tb_lineno <= len(orig_lines):\n", "                            if 0 < tb_lineno:\n")),
    fire('revert-fix-F4-int-parse', 'C09.R4',
         (DE, " and is_frame_line:\n", ":\n")),
    fire('partfilename-none-guard-dropped', 'C09.R4', (DE, "if self._partfilename is not None and self._partfilename in line and is_frame_line:", "if is_frame_line and self._partfilename in line:")),
    fire('revert-fix-F12-impossible-state', 'C09.R7',
         (CK, "                # a <BLANKLINE> marker) while the got does not.\n", "                # a <BLANKLINE> marker) while the got does not.\n                raise AssertionError('impossible state')\n")),
    fire('new-raise-in-render-path', 'C09.R7',
         (DE, "        fail_offset = self.failed_line_offset()\n", "        fail_offset = self.failed_line_offset()\n        if fail_offset is None:\n            raise RuntimeError('no failure offset')\n")),
    silent('bounds-test-other-form',
           (DE, "                            if 0 < tb_lineno <= len(orig_lines):\n", "                            if tb_lineno >= 1 and tb_lineno - 1 < len(orig_lines):\n")),
    silent('index-in-try-except',
           (DE, "                            if 0 < tb_lineno <= len(orig_lines):\n                                failed_ctx = orig_lines[tb_lineno - 1]\n                                extra = '    ' + failed_ctx\n                                line = (new_line + extra + '\\n')\n                            else:\n",
                "                            try:\n                                failed_ctx = orig_lines[tb_lineno - 1]\n                                extra = '    ' + failed_ctx\n                                line = (new_line + extra + '\\n')\n                            except IndexError:\n")),
    silent('raise-mode-test-inverted',
           (DE, "                    self.failed_tb_lineno = 1  # is this the directive line?\n                    if on_error == 'raise':\n                        raise\n                    break\n",
                "                    self.failed_tb_lineno = 1  # is this the directive line?\n                    if on_error != 'raise':\n                        break\n                    raise\n")),
    silent('runner-literal-return',
           (RN, "summary = example.run(verbose=verbose, on_error=on_error)", "summary = example.run(verbose=verbose, on_error='return')")),
]
