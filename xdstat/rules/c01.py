"""
C01 -- doctest code runs exactly as written (structural clauses).
"""
import ast

from ..context import need
from ..loader import AnalysisError
from .. import graph
from ..roles import run_roles, RUN, node_calls, is_self_attr
from ..dataflow import field_name
from ..resolve import walk_scope
from .common import fmt_facts, is_name, is_attr_of, field_ops

EXPLANATION = (
    'Static rule conformance on DocTest.run / DocTest._test_globals / DoctestParser.parse: '
    'R1 every exec site receives as globals (and only as globals) the one dict that _test_globals returns, which aliases the '
    'field global_namespace that nothing re-creates during a run; R2 on every acyclic path through one iteration of the part loop at most '
    'one exec site executes and an iteration that executes none records the part as skipped; R3 every exec site is lexically inside '
    '`with <CaptureStdout built in this run>` and the captured text is stored under the part index on every path that leaves the '
    'iteration after the site (normal, Exception, BaseException); R4 a part whose code object is a coroutine is always driven by '
    'asyncio.run; R5 the docstring text reaches every indentation measurement only after str.expandtabs (taint analysis with the '
    'callees of parse inlined). That the parts\' union equals the program for every program (slice arithmetic over AST line numbers) '
    'is not decided.'
    " R9 the producer of the compile-mode hint and its consumer agree: for every hint other than exec the last statement of the chunk is cut into a part of its own before the hint becomes that part's compile mode.")
DECIDES = ['FLOW one namespace', 'PATH-COUNT exec sites per iteration', 'lexical capture + MUST-PASS stdout log', 'FLOW coroutine -> asyncio.run', 'taint: expandtabs before indentation']
NOT_DECIDED = ['that slicing at PS1 lines / directive breaks partitions every program (value-level index arithmetic)', 'semantics of the executed code itself']

TG = 'xdoctest.doctest_example.DocTest._test_globals'
PARSE = 'xdoctest.parser.DoctestParser.parse'


def run(ctx):
    for fn in (r1_one_namespace, r1b_populated_once, r2_one_exec_per_part, r3_capture, r3b_capture_logs_on_every_exit, r4_coroutine_driven, r5_tab_expansion,
               r6_contiguous_slices, r7_decorated_statement_starts, r8_prompt_lines_are_source, r9_single_statement_modes_are_cut):
        ctx.rep.rule(fn, ctx)


# ---------------------------------------------------------------------------
def r1_one_namespace(ctx):
    rr = run_roles(ctx)
    rep = ctx.rep
    rep.floor('C01.R1', 'exec sites', len(rr.exec_sites), 3)
    # what _test_globals returns as globals
    ftg = ctx.func(TG)
    gtg = ctx.cfg(ftg)
    rdtg = ctx.rd(ftg)
    rets = [n for n in gtg.nodes if n.kind == 'stmt' and isinstance(n.ast, ast.Return)]
    need(rets, 'C01.R1: _test_globals has no return')
    idx = None
    ok_alias = True
    detail = ''
    for rn in rets:
        v = rn.ast.value
        first = v.elts[0] if isinstance(v, ast.Tuple) and v.elts else v
        # a result wrapped in something this rule does not know (a record type, a helper) is not judged
        need(not isinstance(first, ast.Call), 'C01.R1: _test_globals returns the value of a call (`%s`): what travels to the exec sites is not visible structurally' % ctx.src(first))
        if not _aliases_field(rdtg, rn, first, 'self.global_namespace'):
            ok_alias = False
            detail = 'returns `%s`, which is not the field self.global_namespace itself' % ctx.src(first)
        idx = 0 if isinstance(v, ast.Tuple) else None
    rep.ob('C01.R1', ctx.loc(ftg, rets[0].ast), '_test_globals() -> globals', ok_alias,
           'the returned globals alias self.global_namespace (same dict for every call)' if ok_alias else detail, anchor=TG)
    # the field is not re-created during a run
    cls = rr.f.cls
    for key, m in cls.methods.items():
        recv = m.node.args.args[0].arg if m.node.args.args else 'self'
        for (kind, node, val) in field_ops(m.node, recv, 'global_namespace'):
            if kind in ('store', 'reset', 'del') and isinstance(node, (ast.Assign, ast.Delete)):
                ok = m.name == '__init__'
                rep.ob('C01.R1', ctx.loc(m, node), ctx.src(node), ok,
                       'initialised in __init__ only' if ok else 'the namespace dict is replaced outside __init__: parts of one doctest may run in different dicts',
                       nontrivial=False, anchor=m.qualname)
    for (n, c) in rr.exec_sites:
        gl = c.args[1] if len(c.args) >= 2 else None
        loc_ = c.args[2] if len(c.args) >= 3 else None
        for kw in c.keywords:
            if kw.arg == 'globals':
                gl = kw.value
            if kw.arg == 'locals':
                loc_ = kw.value
        ok = True
        why = []
        if loc_ is not None:
            ok = False
            why.append('a separate locals mapping is passed: names bound by one part are not visible as globals to the next')
        if gl is None:
            ok = False
            why.append('no globals argument: the part runs in the namespace of DocTest.run')
        elif not isinstance(gl, ast.Name):
            ok = False
            why.append('globals argument `%s` is not the shared namespace object (a fresh or copied mapping per part)' % ctx.src(gl))
        else:
            defs = rr.rd.at(n, gl.id)
            if not defs:
                ok = False
                why.append('globals variable has no reaching definition')
            for d in defs:
                v = d.value
                src_call = None
                if isinstance(v, tuple) and v[0] == 'unpack' and (idx is None or v[2] == idx):
                    src_call = v[1]
                elif isinstance(v, ast.AST) and idx is None:
                    src_call = v
                good = isinstance(src_call, ast.Call) and any(src_call is gc for (_, gc) in rr.globals_sites)
                if not good and isinstance(v, ast.AST) and field_name(v, 'self') == 'self.global_namespace':
                    good = True
                if not good:
                    ok = False
                    why.append('globals may come from `%s` (line %d), not from _test_globals()' % (ctx.src(v if isinstance(v, ast.AST) else v[1]), d.lineno))
        rep.ob('C01.R1', ctx.loc(rr.f, c), ctx.src(c), ok,
               'globals flow only from _test_globals(); no locals mapping' if ok else '; '.join(why), anchor=RUN)


def _aliases_field(rd, node, expr, field, depth=3):
    if field_name(expr, 'self') == field:
        return True
    if isinstance(expr, ast.Name) and depth > 0:
        defs = rd.at(node, expr.id)
        return bool(defs) and all(isinstance(d.value, ast.AST) and d.kind == 'assign' and _aliases_field(rd, d.node, d.value, field, depth - 1) for d in defs)
    return False


# ---------------------------------------------------------------------------
def r2_one_exec_per_part(ctx):
    rr = run_roles(ctx)
    rep = ctx.rep
    exec_nodes = [n for (n, _) in rr.exec_sites]
    is_exec = lambda x: any(x is e for e in exec_nodes)
    allf = lambda a, b, k, tok: True
    res = graph.count_events(rr.iter_entry, is_exec, lambda x: x is rr.loop, efilter=allf)
    need(res, 'C01.R2: the part loop has no back edge')
    (_, lo, hi, wlo, whi) = next(iter(res.values()))
    rep.ob('C01.R2', ctx.loc(rr.f, rr.loop.ast), 'exec sites per iteration', hi <= 1,
           'on every acyclic path through one iteration between %d and %d exec sites execute' % (lo, hi) if hi <= 1 else
           'a part can be executed %d times in one iteration' % hi,
           witness=None if hi <= 1 else graph.fmt_path(whi, rr.f.module.relpath), anchor=RUN)
    # an iteration that completes without executing records a skip
    wit = graph.must_pass([rr.iter_entry], lambda x: x is rr.loop, through=exec_nodes + rr.skip_records, efilter=graph.normal_only)
    rep.ob('C01.R2', ctx.loc(rr.f, rr.loop.ast), 'no exec -> skip record', wit is None,
           'every iteration that reaches the next part either executed the part or recorded it as skipped' if wit is None else
           'a part can be dropped silently: neither executed nor recorded as skipped',
           witness=None if wit is None else graph.fmt_path(wit, rr.f.module.relpath), anchor=RUN)
    # exec sites lie on mutually exclusive branches: none reachable from another within the iteration
    for (n, c) in rr.exec_sites:
        p = graph.path(n.nsucc() + [t for t, _ in n.esucc()], is_exec, stop=[rr.loop])
        rep.ob('C01.R2', ctx.loc(rr.f, c), ctx.src(c), p is None,
               'no second exec site reachable within the same iteration' if p is None else 'a second exec site follows this one in the same iteration (line %d)' % p[-1].lineno,
               anchor=RUN)


# ---------------------------------------------------------------------------
def r3_capture(ctx):
    rr = run_roles(ctx)
    rep = ctx.rep
    f = rr.f
    if not rr.cap_withs:
        for (n, c) in rr.exec_sites:
            rep.ob('C01.R3', ctx.loc(f, c), ctx.src(c) + ' inside capture', False,
                   'no with-block over a CaptureStdout constructed in this run encloses the exec sites: output of the part is not recorded for this doctest', anchor=RUN)
        return
    cap_items = [w.ast for w in rr.cap_withs]
    cap_names = set()
    for w in rr.cap_withs:
        ce = w.ast.context_expr
        if isinstance(ce, ast.Name):
            cap_names.add(ce.id)
            defs = rr.rd.at(w, ce.id)
            fresh = bool(defs) and all(isinstance(d.value, ast.Call) and not rr.in_loop(d.node) for d in defs)
            rep.ob('C01.R3', ctx.loc(f, ce), 'with %s' % ce.id, fresh,
                   'capture object is constructed inside this run, before the loop' if fresh else
                   'capture object is not a fresh per-run local (%s): output could be attributed to another doctest' % [repr(d) for d in defs], anchor=RUN)
        else:
            rep.ob('C01.R3', ctx.loc(f, ce), 'with %s' % ctx.src(ce), isinstance(ce, ast.Call), 'capture constructed in the with item', anchor=RUN)
    # stores logged_stdout[<partx>] = <cap>.text
    stores = []
    for n in rr.g.nodes:
        if n.kind == 'stmt' and isinstance(n.ast, ast.Assign):
            for t in n.ast.targets:
                if isinstance(t, ast.Subscript) and is_self_attr(t.value, 'logged_stdout'):
                    v = n.ast.value
                    if isinstance(v, ast.Attribute) and v.attr == 'text' and isinstance(v.value, ast.Name) and v.value.id in cap_names \
                            and rr.partx_var and is_name(t.slice, rr.partx_var):
                        stores.append(n)
    rep.floor('C01.R3', 'stores of the captured text under the part index', len(stores), 1)
    for (n, c) in rr.exec_sites:
        inside = any(fr.kind == 'with' and any(fr.item is it for it in cap_items) for fr in n.frames)
        rep.ob('C01.R3', ctx.loc(f, c), ctx.src(c) + ' inside capture', inside,
               'exec site is lexically inside the capture with-block' if inside else 'code of the part runs outside the stdout capture: its output is not recorded', anchor=RUN)
        goal = lambda x: x is rr.loop or x is rr.g.exit or x is rr.g.raise_exit or (not rr.in_loop(x) and x.kind not in ('with_exit', 'finally_enter') and not x.dup)
        wit = graph.must_pass(n.nsucc() + [t for t, _ in n.esucc()], goal, through=stores)
        rep.ob('C01.R3', ctx.loc(f, c), ctx.src(c) + ' -> logged_stdout[%s]' % rr.partx_var, wit is None,
               'on every exit of the iteration (normal, Exception, BaseException) the captured text is stored for this part' if wit is None else
               'a path leaves the iteration after executing the part without storing its captured output',
               witness=None if wit is None else graph.fmt_path([n] + wit, f.module.relpath), anchor=RUN)


# ---------------------------------------------------------------------------
def r8_prompt_lines_are_source(ctx):
    """every statement written after a prompt runs: a prompt-prefixed line is labelled source whatever its indentation
    (the same structural clause as C13.R3b; a line labelled prose is silently never executed)"""
    from . import c13
    c13.r3b_prompt_is_source(ctx, rule='C01.R8')


# ---------------------------------------------------------------------------
CAP = 'xdoctest.utils.util_stream.CaptureStdout'


def r3b_capture_logs_on_every_exit(ctx):
    """the text RUN stores per part is `cap.text`; it is (re)computed by log_part() in CaptureStdout.__exit__.
    Whatever the outcome of the with-body (the exception arguments of __exit__), an enabled capture must log
    before it returns, and log_part must read exactly the text written since the previous part."""
    rep = ctx.rep
    fx = ctx.func(CAP + '.__exit__')
    g = ctx.cfg(fx)
    recv = fx.node.args.args[0].arg
    logs = [n for n in g.nodes for c in node_calls(n) if isinstance(c.func, ast.Attribute) and c.func.attr == 'log_part' and is_name(c.func.value, recv)]
    rep.floor('C01.R3b', 'log_part calls in CaptureStdout.__exit__', len(logs), 1)

    def enabled_only(a, b, kind, tok):
        if kind != 'n':
            return False
        if b.kind == 'branch' and b.attrs['test'].kind == 'test':
            for fa in graph.facts_of(b.attrs['test'].ast, b.attrs['polarity']):
                if is_attr_of(fa.expr, recv, 'enabled') and fa.polarity is False:
                    return False
        return True
    wit = graph.must_pass([g.entry], lambda x: x is g.exit, through=logs, efilter=enabled_only)
    rep.ob('C01.R3b', ctx.loc(fx, fx.node), '__exit__ of an enabled capture logs the part on every normal exit', wit is None,
           'log_part() runs whether or not the with-body raised' if wit is None else
           'an enabled capture can leave __exit__ without log_part(): when the part raises, its output is not recorded for it and shows up under a later part',
           witness=None if wit is None else graph.fmt_path(wit, fx.module.relpath), anchor=CAP + '.__exit__')
    # log_part: seek(_pos); text = read(); _pos = tell(); text stored.  The three stream operations may live in log_part or in one
    # helper method it calls (inlining bound 1); the stream may be reached through a local alias of self.cap_stdout.
    fl = ctx.func(CAP + '.log_part')
    r2 = fl.node.args.args[0].arg
    host = fl
    via = None
    for c in walk_scope(fl.node):
        if isinstance(c, ast.Call) and isinstance(c.func, ast.Attribute) and is_name(c.func.value, r2):
            m = ctx.prog.find_method(fl.cls, c.func.attr)
            if m is not None and any(isinstance(x, ast.Call) and isinstance(x.func, ast.Attribute) and x.func.attr == 'read' for x in ast.walk(m.node)):
                host, via = m, c
    gh = ctx.cfg(host)
    rdh = ctx.rd(host)
    rh = host.node.args.args[0].arg

    def is_stream(node, e):
        if is_attr_of(e, rh, 'cap_stdout'):
            return True
        if isinstance(e, ast.Name):
            ds = rdh.at(node, e.id)
            return bool(ds) and all(d.kind == 'assign' and isinstance(d.value, ast.AST) and is_attr_of(d.value, rh, 'cap_stdout') for d in ds)
        return False
    seq = []
    for n in gh.nodes:
        if n.kind != 'stmt' or n.dup:
            continue
        for c in node_calls(n):
            if isinstance(c.func, ast.Attribute) and c.func.attr in ('seek', 'read', 'tell') and is_stream(n, c.func.value):
                seq.append((c.func.attr, n, c))
    names = [k for (k, _, _) in seq]
    ok_order = names == ['seek', 'read', 'tell']
    # the position field: whatever attribute of the object is handed to seek() (its name is free)
    posattr = seq[0][2].args[0].attr if ok_order and len(seq[0][2].args) == 1 and isinstance(seq[0][2].args[0], ast.Attribute) and is_name(seq[0][2].args[0].value, rh) else None
    ok_seek = posattr is not None
    ok_tell = ok_order and posattr is not None and isinstance(seq[2][1].ast, ast.Assign) and any(is_attr_of(t, rh, posattr) for t in seq[2][1].ast.targets) and seq[2][1].ast.value is seq[2][2]
    rep.ob('C01.R3b', ctx.loc(host, host.node), 'log_part reads from the saved position and saves the new one', ok_order and ok_seek and ok_tell,
           'seek(self._pos); read(); self._pos = tell()' if ok_order and ok_seek and ok_tell else
           'the moving read position is not maintained (%s): output of one part is lost or attributed to another part' % names, anchor=CAP + '.log_part')
    if ok_order:
        gl = ctx.cfg(fl)
        rdl = ctx.rd(fl)
        rn = seq[1][1]
        read_var = rn.ast.targets[0].id if isinstance(rn.ast, ast.Assign) and isinstance(rn.ast.targets[0], ast.Name) and rn.ast.value is seq[1][2] else None
        if host is fl:
            tv, src_node = read_var, rn
        else:
            # the helper returns what it read; log_part binds the result of the call
            rets = [x for x in gh.nodes if x.kind == 'stmt' and isinstance(x.ast, ast.Return) and not x.dup]
            helper_ok = read_var is not None and bool(rets) and all(is_name(x.ast.value, read_var) and all(d.node is rn for d in rdh.at(x, read_var)) for x in rets)
            tv, src_node = None, None
            for n in gl.nodes:
                if n.kind == 'stmt' and isinstance(n.ast, ast.Assign) and n.ast.value is via and isinstance(n.ast.targets[0], ast.Name) and helper_ok:
                    tv, src_node = n.ast.targets[0].id, n
        stores = [n for n in gl.nodes if n.kind == 'stmt' and not n.dup and isinstance(n.ast, ast.Assign) and any(is_attr_of(t, r2, 'text') for t in n.ast.targets)]
        ok_text = tv is not None and len(stores) == 1 and is_name(stores[0].ast.value, tv) and all(d.node is src_node for d in rdl.at(stores[0], tv))
        rep.ob('C01.R3b', ctx.loc(fl, stores[0].ast if stores else fl.node), 'self.text = <what was just read>', ok_text,
               'the text of the part is exactly the newly read segment' if ok_text else 'self.text is not the segment read by this call', anchor=CAP + '.log_part')


# ---------------------------------------------------------------------------
def _is_coroutine_fact(fa):
    if not isinstance(fa.expr, ast.AST):
        return False
    names = {x.id for x in ast.walk(fa.expr) if isinstance(x, ast.Name)} | {x.attr for x in ast.walk(fa.expr) if isinstance(x, ast.Attribute)}
    return 'CO_COROUTINE' in names and 'co_flags' in names


def r4_coroutine_driven(ctx):
    rr = run_roles(ctx)
    rep = ctx.rep
    dom = ctx.dom(rr.g, rr.iter_entry, rr.cut)
    n_true = 0
    for (n, c) in rr.exec_sites:
        facts = [fa for fa in graph.guard_facts(dom, n) if _is_coroutine_fact(fa)]
        if not facts:
            rep.ob('C01.R4', ctx.loc(rr.f, c), ctx.src(c), False,
                   'exec site is not dispatched on the coroutine flag of the code object: a part using top-level await would create a coroutine that is never run', anchor=RUN)
            continue
        pol = facts[0].polarity
        if pol is True:
            n_true += 1
            par = getattr(c, '_parent', None)
            ok = isinstance(par, ast.Call) and par.args and par.args[0] is c and ctx.res.resolve_call(rr.f, par) == ('ext', 'asyncio.run')
            rep.ob('C01.R4', ctx.loc(rr.f, c), ctx.src(par if isinstance(par, ast.Call) else c), ok,
                   'the coroutine produced by the exec site is the argument of asyncio.run' if ok else
                   'on the coroutine branch the result of the exec site is not driven by asyncio.run: awaiting statements never execute', anchor=RUN)
        else:
            rep.ob('C01.R4', ctx.loc(rr.f, c), ctx.src(c), True, 'non-coroutine branch (flag tested false)', nontrivial=False, anchor=RUN)
    rep.floor('C01.R4', 'exec sites on the coroutine branch', n_true, 1)


# ---------------------------------------------------------------------------
class Taint:
    """source = a parameter; sanitiser = result of <x>.expandtabs(); sinks =
    arguments of INDENT_RE.search/findall/match.  Values derived from a dirty
    value (iteration, slicing, join, comprehension) are dirty.  Calls of
    repository functions with dirty arguments are followed (bounded depth)."""

    def __init__(self, ctx, sanitiser='expandtabs', sink_regex='INDENT_RE', max_depth=4):
        self.ctx = ctx
        self.sanitiser = sanitiser
        self.sink_regex = sink_regex
        self.max_depth = max_depth
        self.findings = []      # (func, node ast, text)
        self.sinks_seen = []
        self._memo = {}

    def analyse(self, func, dirty_params, depth=0):
        key = (func.qualname, tuple(sorted(dirty_params)))
        if key in self._memo:
            return
        self._memo[key] = True
        if depth > self.max_depth:
            raise AnalysisError('taint: call depth bound exceeded at %s' % func.qualname)
        g = self.ctx.cfg(func)
        rd = self.ctx.rd(func)
        clean_memo = {}

        def dirty_name(node, name, stack):
            k = (id(node), name)
            if k in clean_memo:
                return clean_memo[k]
            if k in stack:
                return False
            stack = stack | {k}
            defs = rd.at(node, name)
            res = False
            for d in defs:
                if d.kind == 'param':
                    if d.name in dirty_params:
                        res = True
                elif isinstance(d.value, tuple):
                    if dirty_expr(d.node, d.value[1], stack):
                        res = True
                elif isinstance(d.value, ast.AST):
                    v = d.value
                    if isinstance(v, ast.AugAssign):
                        v = v.value
                    if dirty_expr(d.node, v, stack):
                        res = True
            clean_memo[k] = res
            return res

        def dirty_expr(node, e, stack=frozenset()):
            if isinstance(e, ast.Call) and isinstance(e.func, ast.Attribute) and e.func.attr == self.sanitiser:
                return False
            if isinstance(e, ast.Call):
                r = self.ctx.res.resolve_call(func, e)
                if r[0] == 'builtin' and r[1] in ('len', 'int', 'isinstance', 'bool', 'min', 'max', 'sum'):
                    return False
                if r[0] == 'repo':
                    # numeric helpers like _min_indentation return an int: result is clean,
                    # the callee body is analysed as its own sink context
                    return False
            bound = set()
            for sub in ast.walk(e):
                if isinstance(sub, ast.comprehension):
                    for t in ast.walk(sub.target):
                        if isinstance(t, ast.Name):
                            bound.add(t.id)
            for sub in ast.walk(e):
                if isinstance(sub, ast.Call) and isinstance(sub.func, ast.Attribute) and sub.func.attr == self.sanitiser:
                    # names under a sanitiser call are cleaned
                    continue
            return any(dirty_name(node, nm.id, stack) for nm in _names_outside_sanitiser(e, self.sanitiser) if nm.id not in bound)

        for n in g.nodes:
            if n.dup:
                continue
            exprs = []
            if n.kind in ('stmt', 'test', 'for_init'):
                if isinstance(n.ast, (ast.FunctionDef, ast.AsyncFunctionDef, ast.ClassDef)):
                    continue
                exprs = [n.ast]
            elif n.kind == 'with_enter':
                exprs = [n.ast.context_expr]
            for ex in exprs:
                for c in ast.walk(ex):
                    if not isinstance(c, ast.Call):
                        continue
                    fn = c.func
                    if isinstance(fn, ast.Attribute) and isinstance(fn.value, ast.Name) and fn.value.id == self.sink_regex and fn.attr in ('search', 'findall', 'match', 'finditer', 'sub'):
                        self.sinks_seen.append((func, c))
                        for a in c.args:
                            if dirty_expr(n, a):
                                self.findings.append((func, c, 'indentation of `%s` is measured before tab expansion' % self.ctx.src(a)))
                        continue
                    r = self.ctx.res.resolve_call(func, c)
                    if r[0] == 'repo':
                        for callee in r[1]:
                            params = [a.arg for a in callee.node.args.args]
                            off = 1 if (callee.cls is not None and params and params[0] in ('self', 'cls') and isinstance(fn, ast.Attribute)) else 0
                            dirty = set()
                            for i, a in enumerate(c.args):
                                if i + off < len(params) and dirty_expr(n, a):
                                    dirty.add(params[i + off])
                            for kw in c.keywords:
                                if kw.arg in params and dirty_expr(n, kw.value):
                                    dirty.add(kw.arg)
                            if self._reaches_sink(callee):
                                self.analyse(callee, dirty, depth + 1)

    def _reaches_sink(self, callee, _stack=None):
        """callee or something it (transitively) calls contains a sink"""
        memo = self.__dict__.setdefault('_rs_memo', {})
        q = callee.qualname
        if q in memo:
            return memo[q]
        _stack = _stack or set()
        if q in _stack:
            return False
        _stack = _stack | {q}
        res = self._has_sink(callee)
        if not res:
            for c in walk_scope(callee.node):
                if isinstance(c, ast.Call):
                    r = self.ctx.res.resolve_call(callee, c)
                    if r[0] == 'repo' and any(self._reaches_sink(x, _stack) for x in r[1] if x.module.name != 'xdoctest._tokenize'):
                        res = True
                        break
        memo[q] = res
        return res

    def _has_sink(self, callee):
        return any(isinstance(c, ast.Call) and isinstance(c.func, ast.Attribute) and isinstance(c.func.value, ast.Name) and c.func.value.id == self.sink_regex
                   for c in ast.walk(callee.node))


def _names_outside_sanitiser(e, sanitiser):
    out = []

    def walk(x):
        if isinstance(x, ast.Call) and isinstance(x.func, ast.Attribute) and x.func.attr == sanitiser:
            return
        if isinstance(x, ast.Name) and isinstance(x.ctx, ast.Load):
            out.append(x)
        for c in ast.iter_child_nodes(x):
            walk(c)
    walk(e)
    return out


def r5_tab_expansion(ctx, rule='C01.R5'):
    rep = ctx.rep
    f = ctx.func(PARSE)
    params = [a.arg for a in f.node.args.args]
    need(len(params) >= 2, 'C01.R5: parse(self, string, ...) signature changed')
    src_param = params[1]
    t = Taint(ctx)
    t.analyse(f, {src_param})
    rep.floor(rule, 'indentation measurements reached from parse', len(t.sinks_seen), 2)
    flagged = {id(c) for (_, c, _) in t.findings}
    for (func, c) in t.sinks_seen:
        msgs = [m for (_, cc, m) in t.findings if cc is c]
        rep.ob(rule, ctx.loc(func, c), ctx.src(c), id(c) not in flagged,
               'argument is tab-expanded on every path from parse(%s)' % src_param if id(c) not in flagged else
               msgs[0] + ': a tab-indented docstring is measured with tabs counted as one column', anchor=func.qualname)


# ---------------------------------------------------------------------------
def r1b_populated_once(ctx):
    """the namespace is filled from the module dict at most once per run (a second update would copy every module
    global back over what the doctest has bound since).  Product CFG x once-flags, counting populate events."""
    from .c11 import once_flags
    from collections import deque
    rr = run_roles(ctx)
    rep = ctx.rep
    g = rr.g
    flags = sorted(once_flags(rr))
    populate = set(id(n) for (n, _) in rr.globals_sites)
    need(populate, 'C01.R1b: no call of _test_globals in RUN')
    init = (tuple(None for _ in flags), 0)
    seen = {}
    work = deque([(g.entry, init, None)])
    bad = None
    while work:
        node, st, prev = work.popleft()
        key = (id(node), st)
        if key in seen:
            continue
        seen[key] = prev
        vals, cnt = st
        vals = list(vals)
        if node.kind == 'stmt' and isinstance(node.ast, ast.Assign):
            for t in node.ast.targets:
                if isinstance(t, ast.Name) and t.id in flags and isinstance(node.ast.value, ast.Constant):
                    vals[flags.index(t.id)] = bool(node.ast.value.value)
        if id(node) in populate:
            cnt += 1
            if cnt >= 2:
                bad = key
                break
        nst = (tuple(vals), cnt)
        for (t, kind, tok) in node.succ:
            if t is g.raise_exit:
                continue
            if t.kind == 'branch' and t.attrs['test'].kind == 'test':
                e = t.attrs['test'].ast
                pol = t.attrs['polarity']
                neg = False
                while isinstance(e, ast.UnaryOp) and isinstance(e.op, ast.Not):
                    e = e.operand
                    neg = not neg
                if isinstance(e, ast.Name) and e.id in flags:
                    v = vals[flags.index(e.id)]
                    if v is not None and (v != neg) != pol:
                        continue
            work.append((t, nst, key))
    wit = None
    if bad is not None:
        path = []
        k = bad
        byid = {id(n): n for n in g.nodes}
        while k is not None:
            path.append(byid[k[0]])
            k = seen[k]
        wit = graph.fmt_path(path[::-1], rr.f.module.relpath)
    rep.ob('C01.R1b', ctx.loc(rr.f, rr.globals_sites[0][1]), '_test_globals() at most once per run', bad is None,
           'on the CFG x once-flag product (%s) no path calls _test_globals twice: the module globals are copied into the namespace once, before the first executed part' % flags if bad is None else
           'the namespace can be re-populated from the module dict during a run: names the doctest has rebound since are silently reset to the module globals', witness=wit, anchor=RUN)
    # _test_globals is what copies the module dict
    ftg = ctx.func(TG)
    upd = [c for c in ast.walk(ftg.node) if isinstance(c, ast.Call) and isinstance(c.func, ast.Attribute) and c.func.attr == 'update' and any(isinstance(x, ast.Attribute) and x.attr == '__dict__' for x in ast.walk(c))]
    rep.ob('C01.R1b', ctx.loc(ftg, upd[0] if upd else ftg.node), '_test_globals copies the module dict', bool(upd), 'populate event = call of _test_globals' if upd else 'module dict is not copied in _test_globals any more (populate sites unknown)', nontrivial=False, anchor=TG)


def r7_decorated_statement_starts(ctx):
    """a statement starts at its first decorator line for EVERY node kind that can carry decorators"""
    rep = ctx.rep
    q = 'xdoctest.parser.DoctestParser._locate_ps1_linenos'
    f = ctx.func(q)
    g = ctx.cfg(f)
    dom = ctx.dom(g, g.entry)
    KINDS = {'FunctionDef', 'AsyncFunctionDef', 'ClassDef'}
    for k in KINDS:
        need(hasattr(ast, k) and 'decorator_list' in getattr(ast, k)._fields, 'C01.R7: ast.%s has no decorator_list in this Python' % k)
    # sites: every read of <node>.decorator_list[0] (statement form or inside a comprehension / conditional expression)
    sites = []
    for n in g.nodes:
        if n.kind not in ('stmt', 'test') or n.dup or not isinstance(n.ast, ast.AST):
            continue
        for x in ast.walk(n.ast):
            if isinstance(x, ast.Subscript) and isinstance(x.value, ast.Attribute) and x.value.attr == 'decorator_list' and isinstance(x.slice, ast.Constant) and x.slice.value == 0:
                sites.append((n, x))
    uses_lineno = any(isinstance(x, ast.Attribute) and x.attr == 'lineno' for x in ast.walk(f.node))
    if not sites or not uses_lineno:
        rep.ob('C01.R7', ctx.loc(f, f.node), 'decorated statements start at their first decorator', False,
               'no statement start is taken from decorator_list[0]: the decorator lines of a definition are attached to the preceding statement', anchor=q)
        return
    for (n, x) in sites:
        loopf = [fr for fr in n.frames if fr.kind == 'loop']
        if loopf:
            entry, cut = graph.region_of_loop(g, loopf[-1].head)
            d2 = ctx.dom(g, entry, cut)
        else:
            d2 = dom
        facts = list(graph.guard_facts(d2, n)) + graph.short_circuit_facts(n.ast, x)
        # filters of an enclosing comprehension
        cur = x
        while cur is not None and cur is not n.ast:
            cur = getattr(cur, '_parent', None)
            if isinstance(cur, (ast.ListComp, ast.GeneratorExp, ast.SetComp)):
                for gen in cur.generators:
                    for cond in gen.ifs:
                        facts += graph.facts_of(cond, True)
        kinds_ok = True
        restr = []
        for fa in facts:
            e = fa.expr
            if isinstance(e, ast.Call) and is_name(e.func, 'isinstance') and fa.polarity is True and len(e.args) == 2:
                names = {y.attr if isinstance(y, ast.Attribute) else y.id for y in ast.walk(e.args[1]) if isinstance(y, (ast.Attribute, ast.Name))} - {'ast'}
                if not KINDS <= names:
                    kinds_ok = False
                    restr.append(sorted(KINDS - names))
        rep.ob('C01.R7', ctx.loc(f, x), ctx.src(enclosing_stmt_text(n, x)), kinds_ok,
               'the adjustment applies to every node kind that has a decorator_list (kind-agnostic test, or all of FunctionDef / AsyncFunctionDef / ClassDef)' if kinds_ok else
               'the decorator adjustment is restricted to some node kinds; missing: %s -- the decorators of such a definition become part of the preceding statement '
               '(they run without the definition, and a directive in front of it changes scope)' % restr, anchor=q)


    # R7b: one start per statement -- the statement's own line is used only when it has no decorators
    rd = ctx.rd(f)
    stmt_vars = set()
    for x in ast.walk(f.node):
        if isinstance(x, (ast.For, ast.comprehension)) and isinstance(x.iter, ast.Name) and x.iter.id == 'statement_nodes' and isinstance(x.target, ast.Name):
            stmt_vars.add(x.target.id)
    for n in g.nodes:
        if n.kind not in ('stmt', 'test') or n.dup or not isinstance(n.ast, ast.AST):
            continue
        for x in ast.walk(n.ast):
            if not (isinstance(x, ast.Attribute) and x.attr == 'lineno' and isinstance(x.value, ast.Name) and x.value.id in stmt_vars):
                continue
            # the binding of that name at this site: nearest enclosing comprehension / for loop with this target
            binder_iter = None
            cur = x
            while cur is not None and binder_iter is None:
                cur = getattr(cur, '_parent', None)
                if isinstance(cur, (ast.ListComp, ast.GeneratorExp, ast.SetComp, ast.DictComp)):
                    for gen in cur.generators:
                        if is_name(gen.target, x.value.id):
                            binder_iter = gen.iter
                elif isinstance(cur, ast.For) and is_name(cur.target, x.value.id):
                    binder_iter = cur.iter
            if not is_name(binder_iter, 'statement_nodes'):
                continue
            # a dead store (overwritten before any use) does not count
            if isinstance(n.ast, ast.Assign) and isinstance(n.ast.targets[0], ast.Name):
                v = n.ast.targets[0].id
                mine = [d for d in rd.defs_of(v) if d.node is n]
                used = any(any(d in rd.at(m, v) for d in mine) for m in g.nodes if m is not n and m.kind in ('stmt', 'test', 'for_init') and isinstance(m.ast, ast.AST) and
                           any(isinstance(y, ast.Name) and y.id == v and isinstance(y.ctx, ast.Load) for y in ast.walk(m.ast)))
                if not used:
                    continue
            loopf = [fr for fr in n.frames if fr.kind == 'loop']
            d2 = ctx.dom(g, *graph.region_of_loop(g, loopf[-1].head)) if loopf else dom
            facts = list(graph.guard_facts(d2, n)) + graph.short_circuit_facts(n.ast, x)
            cur = x
            while cur is not None and cur is not n.ast:
                cur = getattr(cur, '_parent', None)
                if isinstance(cur, (ast.ListComp, ast.GeneratorExp, ast.SetComp)):
                    for gen in cur.generators:
                        for cond in gen.ifs:
                            facts += graph.facts_of(cond, True)
            undecorated = any(fa.polarity is False and isinstance(fa.expr, ast.AST) and 'decorator_list' in fa.text for fa in facts) or \
                any(fa.polarity is True and isinstance(fa.expr, ast.AST) and 'decorator_list' in fa.text and isinstance(fa.expr, ast.UnaryOp) for fa in facts)
            rep.ob('C01.R7', ctx.loc(f, x), 'own line of a statement: ' + ctx.src(n.ast, 90), undecorated,
                   'used only for statements without decorators' if undecorated else
                   'the own line of EVERY statement is a statement start, also when it has decorators: a decorated definition contributes two starts, so a directive break can fall '
                   'between the decorator and the `def` (the decorator line ends the previous part / the definition runs undecorated)', anchor=q)


def enclosing_stmt_text(n, x):
    return n.ast


# ---------------------------------------------------------------------------
CHUNK = 'xdoctest.parser.DoctestParser._package_chunk'


def r6_contiguous_slices(ctx):
    """the parts of a chunk are contiguous slices [0:b1) [b1:b2) ... [bn:None): no source line is dropped or
    duplicated between parts (default, non-REPL mode).  Invariant: the running start variable always equals
    the end of the last slice handed out."""
    rep = ctx.rep
    f = ctx.func(CHUNK)
    g = ctx.cfg(f)
    rd = ctx.rd(f)
    dom = ctx.dom(g, g.entry)
    slicer = f.nested.get('slice_example')
    need(slicer is not None, 'C01.R6: nested slice_example not found')
    sp = [a.arg for a in slicer.node.args.args]
    # the slicer cuts both line lists by its first two parameters
    sl = [x for x in ast.walk(slicer.node) if isinstance(x, ast.Subscript) and isinstance(x.slice, ast.Slice)]
    ok = len(sl) >= 1 and all(is_name(x.slice.lower, sp[0]) and is_name(x.slice.upper, sp[1]) and x.slice.step is None for x in sl)
    rep.ob('C01.R6', ctx.loc(slicer, slicer.node), 'slice_example cuts [%s:%s]' % (sp[0], sp[1]), ok,
           'every line list is cut by the same half-open interval' if ok else 'the slicer does not cut by [start:stop]: %s' % [ctx.src(x) for x in sl], anchor=CHUNK)

    def repl_pol(n):
        for fa in graph.guard_facts(dom, n):
            if isinstance(fa.expr, ast.Attribute) and fa.expr.attr == 'simulate_repl':
                return fa.polarity
        return None
    calls = []
    for n in g.nodes:
        if n.dup:
            continue
        for c in node_calls(n):
            r = ctx.res.resolve_call(f, c)
            if r[0] == 'repo' and r[1][0] is slicer and repl_pol(n) is not True:
                calls.append((n, c))
    rep.floor('C01.R6', 'slice_example calls (default mode)', len(calls), 2)

    def last_of(e):
        return e.value.id if isinstance(e, ast.Subscript) and isinstance(e.value, ast.Name) and isinstance(e.slice, ast.UnaryOp) and isinstance(e.slice.op, ast.USub) and \
            isinstance(e.slice.operand, ast.Constant) and e.slice.operand.value == 1 else None
    if any(c.args and last_of(c.args[0]) for (_, c) in calls):
        return _r6_cut_list_idiom(ctx, f, g, rd, dom, slicer, calls, repl_pol, last_of)
    names = [c.args[0].id for (_, c) in calls if c.args and isinstance(c.args[0], ast.Name)]
    need(names, 'C01.R6: no slice starts at a local variable')
    a = max(set(names), key=names.count)
    # a loop that hands out slices in a way this rule does not know (cuts planned in a list beforehand, ...) is not judged at all
    for (n, c) in calls:
        for fr in n.frames:
            if fr.kind == 'loop' and isinstance(fr.head.ast, ast.For):
                it_, tg_ = fr.head.ast.iter, fr.head.ast.target
                need(isinstance(it_, ast.Call) and is_name(it_.func, 'zip') and isinstance(tg_, ast.Tuple), 'C01.R6: slice loop is not `for a, b in zip(X, X[1:])`: %s' % ctx.src(it_))
    for (n, c) in calls:
        if not (c.args and is_name(c.args[0], a)):
            rep.ob('C01.R6', ctx.loc(f, c), ctx.src(c), False,
                   'this slice does not start at the running start `%s` (the stop of the previous slice): lines are skipped or repeated' % a, anchor=CHUNK)
    calls = [(n, c) for (n, c) in calls if c.args and is_name(c.args[0], a)]
    call_nodes = [n for (n, _) in calls]
    # O3: initialised to 0
    inits = [d for d in rd.defs_of(a) if isinstance(d.value, ast.Constant) and d.value.value == 0 and d.kind == 'assign' and not d.node.frames]
    ok = bool(inits) and all(dom.dominates(inits[0].node, n) for n in call_nodes)
    rep.ob('C01.R6', ctx.loc(f, inits[0].node.ast if inits else f.node), '%s = 0 before any slice' % a, ok,
           'the first slice starts at line 0 of the chunk' if ok else 'the running start is not initialised to 0 before the first slice: leading lines of a chunk can be lost', anchor=CHUNK)
    # loops that hand out slices
    loop_heads = []
    for (n, c) in calls:
        for fr in n.frames:
            if fr.kind == 'loop' and fr.head not in loop_heads:
                loop_heads.append(fr.head)
    for head in loop_heads:
        it = head.ast.iter
        tg = head.ast.target
        ok_zip = isinstance(it, ast.Call) and is_name(it.func, 'zip') and len(it.args) == 2 and isinstance(it.args[0], ast.Name) and \
            isinstance(it.args[1], ast.Subscript) and is_name(it.args[1].value, it.args[0].id) and isinstance(it.args[1].slice, ast.Slice) and \
            isinstance(it.args[1].slice.lower, ast.Constant) and it.args[1].slice.lower.value == 1 and it.args[1].slice.upper is None and \
            isinstance(tg, ast.Tuple) and len(tg.elts) == 2 and all(isinstance(e, ast.Name) for e in tg.elts)
        need(ok_zip, 'C01.R6: slice loop is not `for a, b in zip(X, X[1:])`: %s' % ctx.src(head.ast.iter))
        la, lb = tg.elts[0].id, tg.elts[1].id
        X = it.args[0].id
        # X = sorted(set([0] + ...)): starts at 0, strictly increasing
        xdefs = rd.at(head, X)
        okx = bool(xdefs) and all(_is_sorted_set_with_zero(d.value) for d in xdefs)
        rep.ob('C01.R6', ctx.loc(f, head.ast), 'break list %s = sorted(set([0] + ...))' % X, okx,
               'consecutive pairs of a strictly increasing list that starts with 0 tile [0, last break)' if okx else
               'the break list is not `sorted(set([0] + ...))` (%s): lines before the first break are dropped or slices overlap' % [ctx.src(d.value) if isinstance(d.value, ast.AST) else d.kind for d in xdefs],
               anchor=CHUNK)
        entry, cut = graph.region_of_loop(g, head)
        in_loop = [(n, c) for (n, c) in calls if graph.in_loop_body(n, head.ast)]
        res = graph.count_events(entry, lambda x: any(x is n for (n, _) in in_loop), lambda x: x is head, efilter=graph.normal_only)
        (_, lo, hi, _, _) = next(iter(res.values())) if res else (None, 0, 0, None, None)
        args_ok = all(len(c.args) >= 2 and is_name(c.args[0], la) and is_name(c.args[1], lb) for (_, c) in in_loop) and la == a
        stores = [d for d in rd.defs_of(la) + rd.defs_of(lb) if graph.in_loop_body(d.node, head.ast) and d.kind != 'iter']
        ok = (lo, hi) == (1, 1) and args_ok and not stores
        rep.ob('C01.R6', ctx.loc(f, head.ast), 'one slice [%s:%s] per pair' % (la, lb), ok,
               'each consecutive pair yields exactly one slice with exactly these bounds' if ok else
               'pairs are sliced %d..%d times / with other bounds / the bounds are reassigned in the loop' % (lo, hi), anchor=CHUNK)
        # no slice before the loop (the tiling starts at 0)
        before = [n for n in call_nodes if not graph.in_loop_body(n, head.ast) and graph.path(n.nsucc(), lambda x: x is head, efilter=graph.normal_only) is not None]
        rep.ob('C01.R6', ctx.loc(f, head.ast), 'no slice precedes the tiling loop', not before, 'loop starts with nothing handed out yet' if not before else 'a slice precedes the loop', nontrivial=False, anchor=CHUNK)
        # O2: after the loop  a = b  before the next slice / the exit
        done = [b for b in head.nsucc() if b.kind == 'branch' and b.attrs['polarity'] == 'done']
        sync = [d.node for d in rd.defs_of(a) if is_name(d.value, lb) and d.kind == 'assign']
        later = [n for n in call_nodes if not graph.in_loop_body(n, head.ast)]
        wit = graph.must_pass(done, lambda x: any(x is n for n in later) or x is g.exit, through=sync, efilter=graph.normal_only)
        # and b must be initialised to 0 so that a zero-iteration loop leaves a == 0 == X[0] == X[-1]
        binit = [d for d in rd.defs_of(lb) if isinstance(d.value, ast.Constant) and d.value.value == 0 and not d.node.frames and dom.dominates(d.node, head)]
        ok = wit is None and bool(binit)
        rep.ob('C01.R6', ctx.loc(f, head.ast), '%s = %s after the tiling loop' % (a, lb), ok,
               'after the loop the running start is the last break (also when the loop body never ran: both start at 0)' if ok else
               ('the running start is not advanced to the last break after the loop: the lines of the last sliced interval are handed out again' if wit is not None else
                '%s is not initialised to 0: with a single break the running start becomes undefined' % lb),
               witness=None if wit is None else graph.fmt_path(wit, f.module.relpath), anchor=CHUNK)
    # O4: slices outside loops advance the start to their own stop
    outside = [(n, c) for (n, c) in calls if not any(fr.kind == 'loop' for fr in n.frames)]
    finals = []
    for (n, c) in outside:
        q = c.args[1] if len(c.args) > 1 else None
        is_none = (isinstance(q, ast.Constant) and q.value is None) or (isinstance(q, ast.Name) and rd.at(n, q.id) and all(isinstance(d.value, ast.Constant) and d.value.value is None for d in rd.at(n, q.id)))
        if is_none:
            finals.append((n, c))
            continue
        if not isinstance(q, ast.Name):
            # a side-effect free expression: the next slice must start at the textually same expression, with none of its names reassigned in between
            need(q is not None and not any(isinstance(x, ast.Call) for x in ast.walk(q)), 'C01.R6: slice stop is neither a local name nor a call-free expression: %s' % ctx.src(c))
            qtxt = ast.unparse(q)
            sync = [d.node for d in rd.defs_of(a) if isinstance(d.value, ast.AST) and ast.unparse(d.value) == qtxt and d.kind == 'assign']
            others = [m for m in call_nodes if m is not n]
            wit = graph.must_pass(n.nsucc(), lambda x: any(x is m for m in others) or x is g.exit, through=sync, efilter=graph.normal_only)
            qnames = {x.id for x in ast.walk(q) if isinstance(x, ast.Name)}
            dirty = any(graph.path(n.nsucc(), lambda x, qs=d.node: x is qs, efilter=graph.normal_only, avoid=sync) is not None for nm in qnames for d in rd.defs_of(nm) if d.node is not n and d.kind != 'param')
            ok = wit is None and not dirty
            rep.ob('C01.R6', ctx.loc(f, c), ctx.src(c) + ' then %s = %s' % (a, qtxt), ok,
                   'the next slice starts where this one stopped' if ok else
                   'after this slice the running start is not set to its stop before the next slice: lines are duplicated or skipped',
                   witness=None if wit is None else graph.fmt_path(wit, f.module.relpath), anchor=CHUNK)
            continue
        sync = [d.node for d in rd.defs_of(a) if is_name(d.value, q.id) and d.kind == 'assign']
        others = [m for m in call_nodes if m is not n]
        wit = graph.must_pass(n.nsucc(), lambda x: any(x is m for m in others) or x is g.exit, through=sync, efilter=graph.normal_only)
        # q not reassigned between the call and the sync
        qstores = [d.node for d in rd.defs_of(q.id)]
        dirty = graph.path(n.nsucc(), lambda x: any(x is s_ for s_ in sync), efilter=graph.normal_only, avoid=[]) is not None and \
            any(graph.path(n.nsucc(), lambda x, qs=qs: x is qs, efilter=graph.normal_only, avoid=sync) is not None for qs in qstores if qs is not n)
        ok = wit is None and not dirty
        rep.ob('C01.R6', ctx.loc(f, c), ctx.src(c) + ' then %s = %s' % (a, q.id), ok,
               'the next slice starts where this one stopped' if ok else
               'after this slice the running start is not set to its stop before the next slice: lines are duplicated or skipped',
               witness=None if wit is None else graph.fmt_path(wit, f.module.relpath), anchor=CHUNK)
    # O5: exactly one final open-ended slice on every path, carrying the want
    ok = len(finals) == 1
    if ok:
        n, c = finals[0]
        wit = graph.must_pass([g.entry], lambda x: x is g.exit, through=[n], efilter=graph.normal_only)
        after = graph.path(n.nsucc(), lambda x: any(x is m for m in call_nodes), efilter=graph.normal_only)
        ok = wit is None and after is None
    rep.ob('C01.R6', ctx.loc(f, finals[0][1] if finals else f.node), 'final slice [%s:None]' % a, ok,
           'every path ends with exactly one open-ended slice from the running start: the tail of the chunk is always included' if ok else
           'the chunk is not always completed by one open-ended slice (%d candidates)' % len(finals), anchor=CHUNK)
    # O6: no other stores to the running start in default mode
    for d in rd.defs_of(a):
        if d.kind == 'iter' or repl_pol(d.node) is True:
            continue
        v = d.value
        stops = {ast.unparse(c.args[1]) for (_, c) in calls if len(c.args) > 1}
        legal = (isinstance(v, ast.Constant) and v.value == 0) or isinstance(v, ast.Name) or (isinstance(v, ast.AST) and ast.unparse(v) in stops)
        rep.ob('C01.R6', ctx.loc(f, d.node.ast), ctx.src(d.node.ast), legal,
               'running start set to 0 or to the stop of a slice' if legal else 'the running start is computed (%s): contiguity of the parts is no longer structural' % ctx.src(v), nontrivial=False, anchor=CHUNK)
    rep.note('repl_mode', 'simulate_repl=True branch is not decided (its first slice starts at ps1_linenos[0], a value-level fact)')


def _r6_cut_list_idiom(ctx, f, g, rd, dom, slicer, calls, repl_pol, last_of):
    """second recognised idiom: one list X of cut points; `for a, b in zip(X, X[1:])` hands out [a:b) for each consecutive pair and one final open-ended
    slice starts at X[-1].  Consecutive pairs of one list tile [X[0], X[-1]) by construction and the final slice continues at X[-1]; what remains to be
    checked is that nothing else slices, that X is not changed between the loop and the final slice, and that (default mode) X starts with 0."""
    rep = ctx.rep
    finals = [(n, c) for (n, c) in calls if c.args and last_of(c.args[0])]
    X = last_of(finals[0][1].args[0])
    call_nodes = [n for (n, _) in calls]
    heads = []
    for (n, c) in calls:
        for fr in n.frames:
            if fr.kind == 'loop' and fr.head not in heads:
                heads.append(fr.head)
    ok_shape = len(finals) == 1 and len(heads) == 1
    rep.ob('C01.R6', ctx.loc(f, finals[0][1]), 'cut list `%s`: one pair loop and one final slice' % X, ok_shape,
           'all parts are cut at the points of one list' if ok_shape else '%d final slice(s), %d slicing loop(s)' % (len(finals), len(heads)), anchor=CHUNK)
    if not ok_shape:
        return
    head = heads[0]
    it, tg = head.ast.iter, head.ast.target
    ok_zip = isinstance(it, ast.Call) and is_name(it.func, 'zip') and len(it.args) == 2 and is_name(it.args[0], X) and isinstance(it.args[1], ast.Subscript) and is_name(it.args[1].value, X) and \
        isinstance(it.args[1].slice, ast.Slice) and isinstance(it.args[1].slice.lower, ast.Constant) and it.args[1].slice.lower.value == 1 and it.args[1].slice.upper is None and \
        it.args[1].slice.step is None and isinstance(tg, ast.Tuple) and len(tg.elts) == 2 and all(isinstance(e, ast.Name) for e in tg.elts)
    rep.ob('C01.R6', ctx.loc(f, head.ast), 'pairs are consecutive elements: ' + ctx.src(it), ok_zip,
           'zip(X, X[1:])' if ok_zip else 'the loop does not run over consecutive pairs of the cut list', anchor=CHUNK)
    if not ok_zip:
        return
    la, lb = tg.elts[0].id, tg.elts[1].id
    entry, cut = graph.region_of_loop(g, head)
    in_loop = [(n, c) for (n, c) in calls if graph.in_loop_body(n, head.ast)]
    res = graph.count_events(entry, lambda x: any(x is n for (n, _) in in_loop), lambda x: x is head, efilter=graph.normal_only)
    (_, lo, hi, _, _) = next(iter(res.values())) if res else (None, 0, 0, None, None)
    args_ok = all(len(c.args) >= 2 and is_name(c.args[0], la) and is_name(c.args[1], lb) for (_, c) in in_loop)
    stores = [d for d in rd.defs_of(la) + rd.defs_of(lb) if graph.in_loop_body(d.node, head.ast) and d.kind != 'iter']
    ok = (lo, hi) == (1, 1) and args_ok and not stores
    rep.ob('C01.R6', ctx.loc(f, head.ast), 'one slice [%s:%s] per pair' % (la, lb), ok,
           'each consecutive pair yields exactly one slice with exactly these bounds' if ok else 'pairs are sliced %d..%d times / with other bounds / the bounds are reassigned in the loop' % (lo, hi), anchor=CHUNK)
    other = [(n, c) for (n, c) in calls if (n, c) not in in_loop and (n, c) not in finals]
    rep.ob('C01.R6', ctx.loc(f, other[0][1] if other else f.node), 'no slice outside the pair loop and the final slice', not other, '%d other slice call(s)' % len(other), nontrivial=False, anchor=CHUNK)
    # the final slice: open ended, after the loop on every path, X unchanged in between
    fn, fc = finals[0]
    q = fc.args[1] if len(fc.args) > 1 else None
    open_ended = isinstance(q, ast.Constant) and q.value is None
    wit = graph.must_pass([g.entry], lambda x: x is g.exit, through=[fn], efilter=graph.normal_only)
    done = [b for b in head.nsucc() if b.kind == 'branch' and b.attrs['polarity'] == 'done']
    muts = [n for n in g.nodes if not n.dup and n.kind == 'stmt' and (any(isinstance(c.func, ast.Attribute) and is_name(c.func.value, X) and c.func.attr in ('append', 'extend', 'insert', 'pop', 'remove', 'sort', 'reverse', 'clear')
                                                                            for c in node_calls(n)) or any(d.node is n for d in rd.defs_of(X)))]
    changed = any(graph.path(done, lambda x, m=m: x is m, efilter=graph.normal_only, stop=[fn]) is not None for m in muts)
    after_loop = graph.path([fn], lambda x: x is head, efilter=graph.normal_only) is None
    ok = open_ended and wit is None and not changed and after_loop
    rep.ob('C01.R6', ctx.loc(f, fc), 'final slice [%s[-1]:None]' % X, ok,
           'every path ends with one open-ended slice from the last cut point, which is where the last pair stopped' if ok else
           'the final slice is not the open-ended continuation of the pair loop (open ended %s, on every path %s, list changed between %s)' % (open_ended, wit is None, changed), anchor=CHUNK)
    # default mode: the list starts with 0
    for d in rd.at(head, X):
        if repl_pol(d.node) is True:
            continue
        v = d.value
        ok0 = isinstance(v, ast.AST) and (_is_sorted_set_with_zero(v) or (isinstance(v, ast.List) and v.elts and isinstance(v.elts[0], ast.Constant) and v.elts[0].value == 0))
        rep.ob('C01.R6', ctx.loc(f, d.node.ast), '%s starts with 0: %s' % (X, ctx.src(d.node.ast)), ok0,
               'the first cut point is line 0 of the chunk' if ok0 else 'the cut list may not start at 0: leading lines of a chunk can be lost', anchor=CHUNK)
    # later appends only add a point after the current last one (value-level) -- they must at least be appends at the end
    for n in g.nodes:
        if n.dup or n.kind != 'stmt':
            continue
        for c in node_calls(n):
            if isinstance(c.func, ast.Attribute) and is_name(c.func.value, X) and c.func.attr in ('insert', 'pop', 'remove', 'reverse', 'clear'):
                rep.ob('C01.R6', ctx.loc(f, c), ctx.src(c), False, 'the cut list is modified other than by appending at its end', anchor=CHUNK)
    rep.note('repl_mode', 'simulate_repl=True branch is not decided (its first slice starts at ps1_linenos[0], a value-level fact)')


def _is_sorted_set_with_zero(v):
    if not (isinstance(v, ast.Call) and is_name(v.func, 'sorted') and len(v.args) == 1 and not v.keywords):
        return False
    inner = v.args[0]
    if not (isinstance(inner, ast.Call) and is_name(inner.func, 'set') and len(inner.args) == 1):
        return False
    e = inner.args[0]
    if isinstance(e, ast.BinOp) and isinstance(e.op, ast.Add):
        for side in (e.left, e.right):
            if isinstance(side, ast.List) and len(side.elts) == 1 and isinstance(side.elts[0], ast.Constant) and side.elts[0].value == 0:
                return True
    return False


def r9_single_statement_modes_are_cut(ctx, rule='C01.R9'):
    """TABLE-AGREE between the producer of the compile-mode hint (_locate_ps1_linenos) and its consumer (_package_chunk): `eval` and `single`
    compile exactly one statement, so for every hint other than 'exec' the chunk's last statement must be cut off into a part of its own before the
    hint is stored as that part's compile mode -- otherwise a multi-statement chunk is handed to compile(..., 'single') and nothing of it runs"""
    rep = ctx.rep
    fp = ctx.func('xdoctest.parser.DoctestParser._locate_ps1_linenos')
    fc = ctx.func('xdoctest.parser.DoctestParser._package_chunk')
    modes = {x.value.value for x in ast.walk(fp.node) if isinstance(x, ast.Assign) and len(x.targets) == 1 and is_name(x.targets[0], 'mode_hint')
             and isinstance(x.value, ast.Constant) and isinstance(x.value.value, str)}
    need({'exec', 'eval'} <= modes, '%s: the mode hints produced by _locate_ps1_linenos were not recognised: %s' % (rule, sorted(modes)))
    rep.note('mode_hints', sorted(modes))
    g = ctx.cfg(fc)
    dom = ctx.dom(g, g.entry)
    # the cut: an assignment from ps1_linenos[-1]
    cuts = [n for n in g.nodes if n.kind == 'stmt' and not n.dup and isinstance(n.ast, ast.Assign) and isinstance(n.ast.value, ast.Subscript)
            and isinstance(n.ast.value.slice, ast.UnaryOp) and isinstance(n.ast.value.slice.op, ast.USub) and isinstance(n.ast.value.slice.operand, ast.Constant)
            and n.ast.value.slice.operand.value == 1 and is_name(n.ast.value.value, 'ps1_linenos')]
    rep.floor(rule, 'cuts before the last statement of a chunk', len(cuts), 1)
    # the hint variable of the consumer
    hv = None
    for x in walk_scope(fc.node):
        if isinstance(x, ast.Assign) and isinstance(x.targets[0], ast.Tuple) and isinstance(x.value, ast.Call) and isinstance(x.value.func, ast.Attribute) and x.value.func.attr == '_locate_ps1_linenos':
            hv = x.targets[0].elts[1].id if len(x.targets[0].elts) == 2 and isinstance(x.targets[0].elts[1], ast.Name) else None
    need(hv is not None, '%s: the mode hint is not unpacked from _locate_ps1_linenos in _package_chunk' % rule)

    def truth(e, m):
        if isinstance(e, ast.Compare) and len(e.ops) == 1 and is_name(e.left, hv):
            c, op = e.comparators[0], e.ops[0]
            if isinstance(op, (ast.In, ast.NotIn)) and isinstance(c, (ast.Set, ast.Tuple, ast.List)) and all(isinstance(y, ast.Constant) for y in c.elts):
                return (m in [y.value for y in c.elts]) == isinstance(op, ast.In)
            if isinstance(op, (ast.Eq, ast.NotEq)) and isinstance(c, ast.Constant):
                return (m == c.value) == isinstance(op, ast.Eq)
        return None
    for cn in cuts:
        facts = [fa for fa in graph.guard_facts(dom, cn) if any(is_name(x, hv) for x in ast.walk(fa.expr))]
        for m in sorted(modes - {'exec'}):
            vals = [truth(fa.expr, m) for fa in facts]
            need(None not in vals, '%s: a condition on the mode hint was not recognised: %s' % (rule, fmt_facts(facts)))
            ok = all(v == fa.polarity for v, fa in zip(vals, facts))
            rep.ob(rule, ctx.loc(fc, cn.ast), "hint '%s' -> last statement cut off (%s)" % (m, fmt_facts(facts) or 'unconditional'), ok,
                   'the part compiled in this mode holds exactly the last statement' if ok else
                   "a chunk whose hint is '%s' is not cut before its last statement, yet the hint becomes the compile mode of the whole remaining part: "
                   "compile(..., '%s') accepts a single statement only, so a multi-statement chunk with a want fails to compile and none of it runs" % (m, m), anchor=fc.qualname)


# ---------------------------------------------------------------------------
from ..selftest import fire, silent      # noqa: E402

DE = 'xdoctest/doctest_example.py'
PA = 'xdoctest/parser.py'
US = 'xdoctest/utils/util_stream.py'
_COMPILE_BLOCK = ("                    self._partfilename = '<doctest:' + self.node + '>'\n                    source_text = part.compilable_source()\n\n"
                  "                    code = compile(\n                        source_text, mode=part.compile_mode,\n                        filename=self._partfilename,\n"
                  "                        flags=compileflags, dont_inherit=True\n                    )\n")
_COMPILE_HELPER = ("    def _compile_part(self, part, compileflags):\n        self._partfilename = '<doctest:' + self.node + '>'\n        source_text = part.compilable_source()\n"
                   "        code = compile(source_text, mode=part.compile_mode, filename=self._partfilename, flags=compileflags, dont_inherit=True)\n        return code\n\n")
_EXEC_BLOCK = ("                            elif part.compile_mode == 'eval':\n                                got_eval = eval(code, test_globals)\n"
               "                            else:\n                                exec(code, test_globals)\n")
_EXEC_HELPER_OK = ("    def _run_plain(self, part, code, test_globals):\n        if part.compile_mode == 'eval':\n            return eval(code, test_globals)\n"
                   "        exec(code, test_globals)\n        return constants.NOT_EVALED\n\n")
VARIANTS = [
    silent('compile-step-extracted-into-a-method',
           ('xdoctest/doctest_example.py', _COMPILE_BLOCK, "                    code = self._compile_part(part, compileflags)\n"),
           ('xdoctest/doctest_example.py', "    def anything_ran(self):\n", _COMPILE_HELPER + "    def anything_ran(self):\n")),
    silent('plain-execution-extracted-into-a-method',
           ('xdoctest/doctest_example.py', _EXEC_BLOCK, "                            else:\n                                got_eval = self._run_plain(part, code, test_globals)\n"),
           ('xdoctest/doctest_example.py', "    def anything_ran(self):\n", _EXEC_HELPER_OK + "    def anything_ran(self):\n")),
    fire('extracted-executor-skips-the-coroutine-dispatch', 'C01.R4',
         ('xdoctest/doctest_example.py', "                            if code.co_flags & CO_COROUTINE == CO_COROUTINE:\n", "                            if part.compile_mode == 'single':\n                                got_eval = self._run_plain(part, code, test_globals)\n                            elif code.co_flags & CO_COROUTINE == CO_COROUTINE:\n"),
         ('xdoctest/doctest_example.py', "    def anything_ran(self):\n", _EXEC_HELPER_OK + "    def anything_ran(self):\n")),
    fire('single-mode-chunks-not-cut', 'C01.R9', ('xdoctest/parser.py', "            if want_lines and mode_hint in {'eval', 'single'}:\n", "            if want_lines and mode_hint == 'eval':\n")),
    silent('cut-for-every-non-exec-hint', ('xdoctest/parser.py', "            if want_lines and mode_hint in {'eval', 'single'}:\n", "            if want_lines and mode_hint != 'exec':\n")),
    fire('decorator-line-added-not-replacing', 'C01.R7', (PA, "                else:\n                    lineno = node.lineno - 1\n                ps1_linenos.append(lineno)\n", "                    ps1_linenos.append(lineno)\n                lineno = node.lineno - 1\n                ps1_linenos.append(lineno)\n")),
    fire('exit-skips-log-on-error', 'C01.R3b', (US, "    def __exit__(self, type_, value, trace):\n        if self.enabled:\n", "    def __exit__(self, type_, value, trace):\n        if trace is not None:\n            self.stop()\n            return False\n        if self.enabled:\n")),
    fire('read-position-not-advanced', 'C01.R3b', (US, "        self._pos = self.cap_stdout.tell()\n", "")),
    fire('log-reads-from-start', 'C01.R3b', (US, "        self.cap_stdout.seek(self._pos)\n", "        self.cap_stdout.seek(0)\n")),
    silent('exit-returns-none-after-logging', (US, "        if trace is not None:\n            return False  # return a falsey value on error\n", "")),
    fire('P4-drop-expandtabs', 'C01.R5', (PA, "        string = string.expandtabs()\n", "")),
    fire('expandtabs-after-min-indent', 'C01.R5',
         (PA, "        string = string.expandtabs()\n", ""),
         (PA, "        labeled_lines = None\n        grouped_lines = None\n", "        string = string.expandtabs()\n        labeled_lines = None\n        grouped_lines = None\n")),
    fire('exec-in-copied-dict', 'C01.R1', (DE, "                                exec(code, test_globals)\n", "                                exec(code, dict(test_globals))\n")),
    fire('exec-with-locals', 'C01.R1', (DE, "                                exec(code, test_globals)\n", "                                exec(code, {}, test_globals)\n")),
    fire('namespace-recreated-per-part', 'C01.R1',
         (DE, "                    self._partfilename = '<doctest:' + self.node + '>'\n", "                    self._partfilename = '<doctest:' + self.node + '>'\n                    test_globals = {}\n")),
    fire('test-globals-returns-copy', 'C01.R1', (DE, "        test_globals = self.global_namespace\n", "        test_globals = dict(self.global_namespace)\n")),
    fire('duplicated-exec', 'C01.R2',
         (DE, "                                exec(code, test_globals)\n", "                                exec(code, test_globals)\n                                exec(code, test_globals)\n")),
    fire('silent-drop-of-part', 'C01.R2',
         (DE, "                    self._skipped_parts.append(part)\n                    continue\n\n                if not did_pre_import:", "                    continue\n\n                if not did_pre_import:")),
    fire('exec-outside-capture', 'C01.R3',
         (DE, "                        with cap:\n", "                        if True:\n")),
    fire('no-log-in-finally', 'C01.R3',
         (DE, "                    # Ensure that we logged the output even in failure cases\n                    self.logged_evals[partx] = got_eval\n                    self.logged_stdout[partx] = cap.text\n",
              "                    # Ensure that we logged the output even in failure cases\n                    self.logged_evals[partx] = got_eval\n")),
    fire('capture-cached-on-instance', 'C01.R3',
         (DE, "        cap = utils.CaptureStdout(suppress=self._suppressed_stdout,\n                                  enabled=needs_capture)\n",
              "        cap = getattr(self, '_cap', None) or utils.CaptureStdout(suppress=self._suppressed_stdout,\n                                  enabled=needs_capture)\n        self._cap = cap\n")),
    fire('coroutine-not-run', 'C01.R4',
         (DE, "                                    asyncio.run(eval(code, test_globals))\n", "                                    eval(code, test_globals)\n")),
    fire('coroutine-dispatch-removed', 'C01.R4',
         (DE, "                            if code.co_flags & CO_COROUTINE == CO_COROUTINE:\n", "                            if False:\n")),
    fire('breaks-without-zero', 'C01.R6', (PA, "                break_linenos = sorted(set([0] + break_linenos))\n", "                break_linenos = sorted(set(break_linenos))\n")),
    fire('start-not-advanced-after-loop', 'C01.R6', (PA, "                    example = slice_example(s1, s2)\n                    yield example\n                s1 = s2\n            if want_lines", "                    example = slice_example(s1, s2)\n                    yield example\n            if want_lines")),
    fire('start-not-advanced-after-eval-split', 'C01.R6', (PA, "                    example = slice_example(s1, s2)\n                    yield example\n                    s1 = s2\n        s2 = None\n", "                    example = slice_example(s1, s2)\n                    yield example\n        s2 = None\n")),
    fire('final-slice-skips-a-line', 'C01.R6', (PA, "        example = slice_example(s1, s2, want_lines)\n", "        example = slice_example(s1 + 1, s2, want_lines)\n")),
    fire('final-slice-bounded', 'C01.R6', (PA, "        s2 = None\n\n        example = slice_example(s1, s2, want_lines)\n", "        s2 = len(source_lines) - 1\n\n        example = slice_example(s1, s2, want_lines)\n")),
    fire('slicer-orig-lines-off-by-one', 'C01.R6', (PA, "            orig_lines = source_lines[s1:s2]\n", "            orig_lines = source_lines[s1 + 1:s2]\n")),
    fire('start-initialised-to-one', 'C01.R6', (PA, "        s1 = 0\n        s2 = 0\n        if self.simulate_repl:", "        s1 = 1\n        s2 = 0\n        if self.simulate_repl:")),
    silent('final-none-inlined', (PA, "        s2 = None\n\n        example = slice_example(s1, s2, want_lines)\n", "        example = slice_example(s1, None, want_lines)\n")),
    fire('namespace-repopulated-for-later-parts', 'C01.R1b',
         (DE, "                    did_pre_import = True\n\n                try:\n                    # Compile code, handle syntax errors", "                    did_pre_import = True\n                else:\n                    test_globals, compileflags = self._test_globals()\n\n                try:\n                    # Compile code, handle syntax errors")),
    fire('decorated-classes-not-adjusted', 'C01.R7',
         (PA, "                if hasattr(node, 'decorator_list') and node.decorator_list:\n", "                if isinstance(node, (ast.FunctionDef, ast.AsyncFunctionDef)) and node.decorator_list:\n")),
    silent('decorator-test-by-isinstance-all-kinds',
           (PA, "                if hasattr(node, 'decorator_list') and node.decorator_list:\n", "                if isinstance(node, (ast.FunctionDef, ast.AsyncFunctionDef, ast.ClassDef)) and node.decorator_list:\n")),
    silent('expandtabs-in-labeller',
           (PA, "        string = string.expandtabs()\n", ""),
           (PA, "    indents = [len(indent) for indent in INDENT_RE.findall(s)]", "    indents = [len(indent) for indent in INDENT_RE.findall(s.expandtabs())]"),
           (PA, "        line_iter = enumerate(string.splitlines())\n", "        line_iter = enumerate(string.expandtabs().splitlines())\n"),
           note='sanitiser moved to the consumers'),
    silent('globals-renamed', ('re', DE, r"(?<![_\w])test_globals", "ns_globals")),
    silent('exec-kw-globals', (DE, "                                exec(code, test_globals)\n", "                                exec(code, globals=test_globals)\n")),
]
