"""
C17 -- module name <-> path resolution (narrow structural claim).

Agreement with the interpreter over all directory trees is a value-level
statement and is not decided.  Decided are the clauses visible in the shape of
the four resolution functions and of the import-by-path helper.
"""
import ast

from ..context import need
from ..loader import AnalysisError
from .. import graph
from ..roles import node_calls
from ..resolve import walk_scope
from .common import fmt_facts, is_name, const_str

EXPLANATION = (
    'Narrow static rule conformance on utils.util_import. R1 candidate order inside one search directory: a result is only returned when the '
    'candidate passed the file test and the package-chain test, and the package directory is tried before any module file (the interpreter gives '
    'a package precedence over a module of the same name). R2 search order: the search directories are visited in the order of the given search '
    'path (order-preserving derivation, no sorting), the plain directory is tried first in every iteration, and the first hit ends the search and is '
    'what is returned. R3 split_modpath walks up exactly while the directory holds an __init__.py, prepends every directory name it leaves, and returns '
    '(directory to put on the search path, relative path in walk-reversed order). R4 modpath_to_modname normalises before splitting, takes the relative '
    'part of the split, strips the extension and turns both kinds of path separator into dots. R5 normalize_modpath: the three rewrites are each '
    'controlled by exactly their documented conditions; modname_to_modpath forwards its search path and hide flags and maps "not found" to None. '
    'R6 import by path: the directory put on sys.path is the one split_modpath computed, the name imported is the one modpath_to_modname computed, '
    'the import happens inside the sys.path context manager (whose release on every exit is decided under C12.R3) and its result is returned. '
    'That the functions agree with the import system on every tree (incl. PEP 420 namespace directories, where the __init__-chain rule '
    'intentionally differs) is not decided.'
    ' R1b check_dpath never gives up before the file candidates were tried. R9 the path <-> name functions use abspath, never realpath.')
DECIDES = ['candidate order and guards of the per-directory check', 'first hit in search-path order', 'shape of the package walk',
           'name derivation from the relative path', 'guards of __init__/__main__ normalisation', 'flow of directory and name into the import by path']
NOT_DECIDED = ['agreement with importlib on all directory trees', 'namespace packages', 'editable-install / egg-link indirections', 'zip imports']

UI = 'xdoctest.utils.util_import.'
SYS = UI + '_syspath_modname_to_modpath'
CHK = SYS + '.check_dpath'
SPLIT = UI + 'split_modpath'
P2N = UI + 'modpath_to_modname'
N2P = UI + 'modname_to_modpath'
NORM = UI + 'normalize_modpath'
CIMP = UI + '_custom_import_modpath'
IMPP = UI + 'import_module_from_path'
IMPN = UI + 'import_module_from_name'
PPC = UI + 'PythonPathContext'


def run(ctx):
    for fn in (r1_candidate_order, r2_search_order, r3_split_walk, r4_name_derivation, r5_normalisation, r6_import_by_path, r7_no_memoised_filesystem_answers, r8_syspath_restored, r1b_every_candidate_is_tried, r9_paths_are_not_resolved, r10_definite_assignment):
        ctx.rep.rule(fn, ctx)


# ---------------------------------------------------------------------------

def _callee(c):
    f = c.func
    if isinstance(f, ast.Name):
        return f.id
    if isinstance(f, ast.Attribute):
        return f.attr
    return None


def _origins(rd, node, expr, depth=6, _seen=None):
    """base expressions the value of `expr` at `node` is taken from, following local names through their reaching definitions"""
    _seen = _seen if _seen is not None else set()
    if isinstance(expr, ast.Name):
        out = []
        defs = rd.at(node, expr.id)
        if not defs:
            return [expr]
        for d in defs:
            if id(d) in _seen or depth <= 0:
                continue
            _seen.add(id(d))
            if d.kind == 'param':
                out.append(('param', expr.id))
            elif d.kind in ('assign',) and isinstance(d.value, ast.AST):
                out += _origins(rd, d.node, d.value, depth - 1, _seen)
            elif isinstance(d.value, tuple):
                out.append(d.value)      # ('unpack'|'iter'..., expr, i)
            elif d.kind == 'iter':
                out.append(('iter', d.value, None))
            else:
                out.append((d.kind, d.value, None))
        return out
    return [expr]


def _component(o, idx, *names):
    """o denotes component `idx` of a call to one of `names`:  a, b = f(..)  or  f(..)[idx];  returns the call or None"""
    if isinstance(o, tuple) and len(o) == 3 and o[0] == 'unpack' and _is_call_to(o[1], *names) and o[2] == idx:
        return o[1]
    if isinstance(o, ast.Subscript) and isinstance(o.slice, ast.Constant) and o.slice.value == idx and _is_call_to(o.value, *names):
        return o.value
    return None


def _is_call_to(e, *names):
    return isinstance(e, ast.Call) and _callee(e) in names


def _init_join(e, var=None):
    """e is join(<var>, '__init__.py') -> name of var (or True)"""
    if _is_call_to(e, 'join') and len(e.args) == 2 and const_str(e.args[1]) == '__init__.py':
        if isinstance(e.args[0], ast.Name):
            return e.args[0].id
        return ast.unparse(e.args[0])
    return None


def r1_candidate_order(ctx):
    rep = ctx.rep
    f = ctx.func(CHK)
    g = ctx.cfg(f)
    rd = ctx.rd(f)
    dom = ctx.dom(g, g.entry)
    rets = [n for n in g.nodes if n.kind == 'stmt' and isinstance(n.ast, ast.Return) and not n.dup and n.ast.value is not None
            and not (isinstance(n.ast.value, ast.Constant) and n.ast.value.value is None)]
    rep.floor('C17.R1', 'candidate returns of check_dpath', len(rets), 2)
    pkg_rets, file_rets = [], []
    chain_not_walked = []
    for rn in rets:
        facts = graph.guard_facts(dom, rn)
        v = rn.ast.value
        vname = v.id if isinstance(v, ast.Name) else None
        def is_chain_test(e):
            if not (isinstance(e, ast.Call) and e.args and is_name(e.args[0], vname)):
                return False
            r = ctx.res.resolve_call(f, e)
            if _callee(e) == '_isvalid' and not (r[0] == 'repo' and len(r[1]) == 1):
                return True
            if r[0] == 'repo' and len(r[1]) == 1:
                body = ast.unparse(r[1][0].node)
                loops = [x for x in ast.walk(r[1][0].node) if isinstance(x, (ast.While, ast.For))]
                climbs = any(isinstance(y, ast.Assign) and isinstance(y.value, ast.Call) and _callee(y.value) == 'dirname' for lp in loops for y in ast.walk(lp))
                if '__init__.py' in body and 'dirname' in body and not (loops and climbs):
                    chain_not_walked.append(r[1][0])
                return '__init__.py' in body and 'dirname' in body and bool(loops) and climbs
            return False
        valid = any(fa.polarity is True and is_chain_test(fa.expr) for fa in facts)
        in_loop = any(fa.polarity == 'iter' for fa in facts)
        isfile_self = any(fa.polarity is True and _is_call_to(fa.expr, 'isfile') and fa.expr.args and is_name(fa.expr.args[0], vname) for fa in facts)
        isfile_init = any(fa.polarity is True and _is_call_to(fa.expr, 'isfile', 'exists') and fa.expr.args and _init_join(fa.expr.args[0]) == vname for fa in facts)
        if in_loop:
            file_rets.append(rn)
            ok = valid and isfile_self
            why = 'a module file is returned only when it is a file and every directory above it (up to the search directory) is a package'
            bad = 'a file candidate is returned without %s' % ('the package-chain test' if isfile_self else 'the file test')
        else:
            pkg_rets.append(rn)
            ok = valid and isfile_init
            why = 'a directory is returned only when it holds an __init__.py and every directory above it is a package'
            bad = 'a directory candidate is returned without %s' % ('the package-chain test' if isfile_init else 'testing for its __init__.py')
        rep.ob('C17.R1', ctx.loc(f, rn.ast), ctx.src(rn.ast), ok, why if ok else bad + ' (guards: %s)' % fmt_facts(facts), anchor=CHK)
    for h in chain_not_walked[:1]:
        rep.ob('C17.R1', ctx.loc(h, h.node), '%s walks every directory up to the search directory' % h.name, False,
               'the package-chain test looks at the parent directory only (no loop that climbs with dirname): `top.mid.leaf` resolves although `top/` has no __init__.py, '
               'where the interpreter finds nothing', anchor=h.qualname)
    rep.ob('C17.R1', ctx.loc(f, f.node), 'package and file candidates both present', bool(pkg_rets) and bool(file_rets),
           '%d package return(s), %d file return(s)' % (len(pkg_rets), len(file_rets)), nontrivial=False, anchor=CHK)
    # precedence: no file return can be reached before the package test failed; the package return is not reachable from the file loop
    for fr in file_rets:
        for pr in pkg_rets:
            pkg_first = pr not in graph.reachable([x for x in g.nodes if x.kind == 'for'], efilter=graph.normal_only)
            # every path from entry to the file return passes the package test (the test node guarding pr)
            ptests = [fa.origin.attrs['test'] for fa in graph.guard_facts(dom, pr) if fa.origin is not None and fa.origin.kind == 'branch']
            passes = all(dom.dominates(t, fr) for t in ptests[:1])
            ok = pkg_first and passes and bool(ptests)
            rep.ob('C17.R1', ctx.loc(f, fr.ast), 'package directory before module file', ok,
                   'the package directory of that name is tried before any file candidate (same precedence as the interpreter)' if ok else
                   'a module file can be returned although a package directory of the same name exists (the interpreter imports the package)', anchor=CHK)
    # the file loop iterates the candidate list in order, '.py' candidates included
    fsys = ctx.func(SYS)
    cands = [n for n in ast.walk(fsys.node) if isinstance(n, ast.Assign) and any(is_name(t, 'candidate_fnames') for t in n.targets)]
    ok = False
    for a in cands:
        if isinstance(a.value, ast.List):
            for e in a.value.elts:
                if isinstance(e, ast.BinOp) and isinstance(e.op, ast.Add) and const_str(e.right) == '.py':
                    ok = True
    rep.ob('C17.R1', ctx.loc(fsys, cands[0] if cands else fsys.node), "source modules ('.py') are candidates", ok,
           'name + ".py" is among the file candidates' if ok else 'plain .py modules are no longer candidates', nontrivial=False, anchor=SYS)


def r2_search_order(ctx):
    rep = ctx.rep
    f = ctx.func(SYS)
    g = ctx.cfg(f)
    rd = ctx.rd(f)
    # the main loop: for dpath in candidate_dpaths
    loops = [n for n in g.nodes if n.kind == 'for' and not n.dup and not any(fr.kind == 'loop' for fr in n.frames) and
             any(_is_call_to(c, ctx.func(CHK).node.name) for s in n.ast.body for c in ast.walk(s) if isinstance(c, ast.Call))]
    need(len(loops) == 1, 'C17.R2: the search loop over the candidate directories was not recognised')
    head = loops[0]
    loop = head.ast
    need(isinstance(loop.iter, ast.Name), 'C17.R2: the search loop does not iterate a named list')
    itname = loop.iter.id
    # order-preserving derivation of the iterated list from the sys_path parameter
    init = [n for n in g.nodes if n.kind == 'for_init' and n.stmt is loop][0]
    bad = []
    seen = set()

    def walk(node, name, depth=0):
        if depth > 8:
            raise AnalysisError('C17.R2: derivation of the search list too deep')
        for d in rd.at(node, name):
            if id(d) in seen:
                continue
            seen.add(id(d))
            if d.kind == 'param':
                continue
            v = d.value
            if d.kind != 'assign' or not isinstance(v, ast.AST):
                bad.append((d, 'not a plain assignment'))
                continue
            if isinstance(v, ast.Name):
                walk(d.node, v.id, depth + 1)
            elif isinstance(v, ast.Attribute) and ast.unparse(v) == 'sys.path':
                continue
            elif isinstance(v, ast.ListComp) and len(v.generators) == 1 and isinstance(v.generators[0].iter, ast.Name):
                walk(d.node, v.generators[0].iter.id, depth + 1)
            elif _is_call_to(v, 'list') and v.args and isinstance(v.args[0], ast.Name):
                walk(d.node, v.args[0].id, depth + 1)
            else:
                bad.append((d, 'derived by %s' % ctx.src(v, 60)))
    walk(init, itname)
    rep.ob('C17.R2', ctx.loc(f, loop), 'search list derives from the search path in order', not bad,
           'every definition reaching the loop is the search path itself or an order-preserving comprehension over it' if not bad else
           'the search directories are not visited in search-path order: %s' % '; '.join('%s (%s)' % (d, w) for d, w in bad), anchor=SYS)
    rep.ob('C17.R2', ctx.loc(f, loop), 'the loop iterates the list itself', isinstance(loop.iter, ast.Name), ctx.src(loop.iter), nontrivial=False, anchor=SYS)
    # first statement of an iteration: the plain directory check on the loop variable
    bi = [b for b in head.nsucc() if b.kind == 'branch' and b.attrs['polarity'] == 'iter'][0]
    first = [x for x in bi.nsucc()]
    ok = len(first) == 1 and first[0].kind == 'stmt' and isinstance(first[0].ast, ast.Assign) and _is_call_to(first[0].ast.value, ctx.func(CHK).node.name) and \
        first[0].ast.value.args and is_name(first[0].ast.value.args[0], loop.target.id if isinstance(loop.target, ast.Name) else None)
    rep.ob('C17.R2', ctx.loc(f, loop.body[0]), 'the directory itself is checked first', ok,
           'every iteration starts with check_dpath(<search directory>)' if ok else 'an indirection (editable finder, egg-link) is consulted before the directory itself', anchor=SYS)
    # first hit ends the search
    stores = [n for n in g.nodes if n.kind == 'stmt' and not n.dup and isinstance(n.ast, ast.Assign) and any(is_name(t, 'found_modpath') for t in n.ast.targets)
              and graph.in_loop_body(n, loop)]
    rep.floor('C17.R2', 'stores of the result inside the search loop', len(stores), 1)
    dom_it = ctx.dom(g, bi, cut=[head])
    def found_known(a, b, kind, tok):
        # once a hit is stored the tests on the result variable are decided (all stores in the loop are truthy-guarded, checked below)
        if kind != 'n':
            return False
        if b.kind == 'branch' and b.attrs['test'].kind == 'test':
            for fa in graph.facts_of(b.attrs['test'].ast, b.attrs['polarity']):
                e = fa.expr
                if isinstance(e, ast.Name) and e.id == 'found_modpath' and fa.polarity is False:
                    return False
                if isinstance(e, ast.Compare) and len(e.ops) == 1 and isinstance(e.ops[0], ast.Is) and is_name(e.left, 'found_modpath') and \
                        isinstance(e.comparators[0], ast.Constant) and e.comparators[0].value is None and fa.polarity is True:
                    return False
        return True
    for s in stores:
        again = graph.path(s.nsucc(), lambda x: x is head, efilter=found_known)
        facts = graph.guard_facts(dom_it, s) if dom_it.has(s) else []
        truthy = any(fa.polarity is True and isinstance(fa.expr, ast.Name) and is_name(s.ast.value, fa.expr.id) for fa in facts)
        rep.ob('C17.R2', ctx.loc(f, s.ast), ctx.src(s.ast), again is None and truthy,
               'a hit is recorded only when the check returned a path, and the search ends there (first directory on the search path wins)' if again is None and truthy else
               ('after a hit the search continues with later directories, so a later directory can override an earlier one' if again is not None else
                'the result is recorded without testing that the check found something'), witness=graph.fmt_path(again, f.module.relpath) if again else None, anchor=SYS)
    # what is returned is the recorded hit
    rets = [n for n in g.nodes if n.kind == 'stmt' and isinstance(n.ast, ast.Return) and not n.dup]
    for rn in rets:
        ok = is_name(rn.ast.value, 'found_modpath')
        rep.ob('C17.R2', ctx.loc(f, rn.ast), ctx.src(rn.ast), ok, 'returns the recorded hit (None when nothing was found)' if ok else 'the function returns something else than the recorded hit', nontrivial=False, anchor=SYS)
    inits = [d for d in rd.defs_of('found_modpath') if not graph.in_loop_body(d.node, loop)]
    ok = bool(inits) and all(isinstance(d.value, ast.Constant) and d.value.value is None for d in inits)
    rep.ob('C17.R2', ctx.loc(f, inits[0].node.ast if inits else f.node), 'nothing found -> None', ok, 'the result starts as None' if ok else 'the result is not initialised to None', nontrivial=False, anchor=SYS)


def r3_split_walk(ctx):
    rep = ctx.rep
    f = ctx.func(SPLIT)
    g = ctx.cfg(f)
    rd = ctx.rd(f)
    whiles = [n for n in g.nodes if n.kind == 'test' and n.attrs.get('loop') and not n.dup]
    need(len(whiles) == 1, 'C17.R3: the package walk (one while loop) of split_modpath was not recognised')
    t = whiles[0]
    e = t.ast
    var = None
    if _is_call_to(e, 'exists', 'isfile') and e.args:
        var = _init_join(e.args[0])
    ok = var is not None and isinstance(e.args[0].args[0], ast.Name)
    rep.ob('C17.R3', ctx.loc(f, e), 'while %s' % ctx.src(e), ok,
           'the walk goes up exactly while the directory holds an __init__.py' if ok else
           'the walk no longer stops at the first directory without __init__.py (the search-path directory and the dotted name are computed from the wrong root)', anchor=SPLIT)
    if not ok:
        return
    loop = t.stmt
    body_nodes = [n for n in g.nodes if graph.in_loop_body(n, loop) and not n.dup]
    # every iteration replaces the directory by its parent and records the name it left
    ups = []
    for n in body_nodes:
        if n.kind == 'stmt' and isinstance(n.ast, ast.Assign):
            v = n.ast.value
            tg = n.ast.targets[0]
            if _is_call_to(v, 'split') and v.args and is_name(v.args[0], var) and isinstance(tg, ast.Tuple) and len(tg.elts) == 2 and is_name(tg.elts[0], var):
                ups.append((n, tg.elts[1].id if isinstance(tg.elts[1], ast.Name) else None))
            elif _is_call_to(v, 'dirname') and v.args and is_name(v.args[0], var) and is_name(tg, var):
                ups.append((n, None))
    bt = [b for b in t.nsucc() if b.kind == 'branch' and b.attrs['polarity'] is True][0]
    # must-pass: every path through one iteration passes a parent step
    wit = graph.must_pass([bt], lambda x: x is t, [n for (n, _) in ups], efilter=graph.normal_only)
    rep.ob('C17.R3', ctx.loc(f, loop), 'every iteration moves to the parent directory', wit is None and bool(ups),
           'dpath <- parent(dpath) on every path through the body' if wit is None and ups else 'an iteration can complete without moving up', anchor=SPLIT)
    appends = [(n, c) for n in body_nodes for c in node_calls(n) if _callee(c) in ('append', 'insert') and isinstance(c.func, ast.Attribute) and isinstance(c.func.value, ast.Name)]
    need(len(appends) >= 1 or not ups, 'C17.R3: the walk records no directory names')
    parts = appends[0][1].func.value.id if appends else None
    ok_app = False
    for (n, c) in appends:
        arg = c.args[-1] if c.args else None
        for (un, dname) in ups:
            if dname and is_name(arg, dname) and un in graph.reachable([bt], efilter=graph.normal_only, stop=[n]):
                ok_app = True
        if _is_call_to(arg, 'basename') and arg.args and is_name(arg.args[0], var):
            # basename(dpath) must be evaluated before dpath is replaced
            ok_app = all(n in graph.reachable([bt], efilter=graph.normal_only, stop=[un]) for (un, _) in ups)
    wit2 = graph.must_pass([bt], lambda x: x is t, [n for (n, _) in appends], efilter=graph.normal_only)
    rep.ob('C17.R3', ctx.loc(f, appends[0][1] if appends else loop), 'the directory name left behind is recorded once per level', ok_app and wit2 is None,
           'each level appends the name of the directory it leaves' if ok_app and wit2 is None else 'a package level is not recorded (the dotted name loses a component)', anchor=SPLIT)
    # initial values: dpath, first part = split(abspath)
    pre = rd.at(t, var)
    init_defs = [d for d in pre if not graph.in_loop_body(d.node, loop)]
    ok_init = False
    first_part = None
    for d in init_defs:
        org = _origins(rd, d.node, d.value) if isinstance(d.value, ast.AST) else [d.value]
        for o in org:
            if _component(o, 0, 'split') is not None:
                ok_init = True
                first_part = _component(o, 0, 'split')
            if _is_call_to(o, 'dirname'):
                ok_init = True
    rep.ob('C17.R3', ctx.loc(f, init_defs[0].node.ast if init_defs else f.node), 'the walk starts at the directory of the module', ok_init,
           'dpath starts as the parent of the module path' if ok_init else 'the walk does not start at the directory holding the module', nontrivial=False, anchor=SPLIT)
    # the returned pair: (dpath, sep.join(reversed parts))
    rets = [n for n in g.nodes if n.kind == 'stmt' and isinstance(n.ast, ast.Return) and not n.dup]
    need(len(rets) == 1 and isinstance(rets[0].ast.value, ast.Tuple) and len(rets[0].ast.value.elts) == 2, 'C17.R3: split_modpath no longer returns one (directory, relative path) pair')
    rn = rets[0]
    d0, rel = rn.ast.value.elts
    ok0 = is_name(d0, var) and all(graph.in_loop_body(d.node, loop) or d in init_defs for d in rd.at(rn, var))
    rep.ob('C17.R3', ctx.loc(f, rn.ast), 'first component: the directory where the walk stopped', ok0,
           'returns the first directory without __init__.py (the one that must be on the search path)' if ok0 else 'the returned directory is not the one the walk stopped at', anchor=SPLIT)
    # relative path: join of the parts reversed exactly once
    revs = 0
    joined = False
    head_elt = None
    cur = rel
    hops = 0
    node = rn
    while hops < 6:
        hops += 1
        if isinstance(cur, ast.Name):
            ds = rd.at(node, cur.id)
            if len(ds) != 1 or not isinstance(ds[0].value, ast.AST):
                break
            node, cur = ds[0].node, ds[0].value
            continue
        if _is_call_to(cur, 'join') and isinstance(cur.func, ast.Attribute) and len(cur.args) == 1:
            sep = ast.unparse(cur.func.value)
            joined = sep in ('os.path.sep', 'os.sep', 'sep') or const_str(cur.func.value) == '/'
            cur = cur.args[0]
            continue
        if isinstance(cur, ast.Subscript) and isinstance(cur.slice, ast.Slice) and cur.slice.lower is None and cur.slice.upper is None and \
                isinstance(cur.slice.step, ast.UnaryOp) and isinstance(cur.slice.step.op, ast.USub) and isinstance(cur.slice.step.operand, ast.Constant) and cur.slice.step.operand.value == 1:
            revs += 1
            cur = cur.value
            continue
        if _is_call_to(cur, 'reversed', 'list') and cur.args:
            if _callee(cur) == 'reversed':
                revs += 1
            cur = cur.args[0]
            continue
        if isinstance(cur, ast.BinOp) and isinstance(cur.op, ast.Add) and isinstance(cur.left, ast.List) and len(cur.left.elts) == 1 and isinstance(cur.right, ast.Name):
            # (a plain copy of the recorded list is the recorded list)
            rn_, hops_ = cur.right, 0
            while not is_name(rn_, parts) and hops_ < 3:
                hops_ += 1
                ds_ = rd.at(node, rn_.id)
                if len(ds_) == 1 and isinstance(ds_[0].value, ast.Name):
                    rn_ = ds_[0].value
                else:
                    break
            if not is_name(rn_, parts):
                break
            # [file name] + <names recorded by the walk>: the same list, its first element given here
            head_elt = (node, cur.left.elts[0])
            cur = cur.right
            continue
        break
    uses_insert0 = any(_callee(c) == 'insert' and c.args and isinstance(c.args[0], ast.Constant) and c.args[0].value == 0 for (_, c) in appends)
    order_ok = joined and ((revs == 1 and not uses_insert0) or (revs == 0 and uses_insert0)) and isinstance(cur, (ast.Name, ast.List))
    rep.ob('C17.R3', ctx.loc(f, rn.ast), 'second component: the recorded names outermost first, joined by the path separator', order_ok,
           'names are collected innermost first and reversed once before joining' if order_ok else
           'the relative path is not the walk-reversed list of names joined by the separator (reversals: %d, joined: %s)' % (revs, joined), anchor=SPLIT)
    # the list starts with the file name itself
    if parts is not None:
        ldefs = [d for d in rd.defs_of(parts) if d.kind == 'assign']
        ok_l = len(ldefs) == 1 and isinstance(ldefs[0].value, ast.List) and len(ldefs[0].value.elts) == 1 and isinstance(ldefs[0].value.elts[0], ast.Name)
        if not ok_l and head_elt is not None and len(ldefs) == 1 and isinstance(ldefs[0].value, ast.List) and not ldefs[0].value.elts and isinstance(head_elt[1], ast.Name):
            o = _origins(rd, head_elt[0], head_elt[1])
            ok_l = any(_component(x, 1, 'split') is not None for x in o) or any(_is_call_to(x, 'basename') for x in o)
        elif ok_l:
            o = _origins(rd, ldefs[0].node, ldefs[0].value.elts[0])
            ok_l = any(_component(x, 1, 'split') is not None for x in o) or any(_is_call_to(x, 'basename') for x in o)
        rep.ob('C17.R3', ctx.loc(f, ldefs[0].node.ast if ldefs else f.node), 'the list of names starts with the module file name', ok_l,
               'parts = [basename(module path)]' if ok_l else 'the innermost component of the relative path is not the module file name', nontrivial=False, anchor=SPLIT)


def r4_name_derivation(ctx):
    rep = ctx.rep
    f = ctx.func(P2N)
    g = ctx.cfg(f)
    rd = ctx.rd(f)
    dom = ctx.dom(g, g.entry)
    # normalise before split: the argument of split_modpath flows from normalize_modpath(...)
    splits = [(n, c) for n in g.nodes if not n.dup for c in node_calls(n) if _callee(c) == 'split_modpath']
    rep.floor('C17.R4', 'split_modpath calls in modpath_to_modname', len(splits), 1)
    for (n, c) in splits:
        org = _origins(rd, n, c.args[0]) if c.args else []
        ok = bool(org) and all(_is_call_to(o, 'normalize_modpath') for o in org)
        rep.ob('C17.R4', ctx.loc(f, c), ctx.src(c), ok,
               'the path is normalised (__init__.py / __main__.py handling) before it is split' if ok else
               'the path reaching split_modpath is not the normalised one: a package __init__.py yields the name "pkg.__init__"', anchor=P2N)
        facts = graph.guard_facts(dom, n)
        okg = any(isinstance(fa.expr, ast.Name) and fa.expr.id == 'relativeto' and fa.polarity is False for fa in facts)
        rep.ob('C17.R4', ctx.loc(f, c), 'split only without an explicit root', okg, fmt_facts(facts), nontrivial=False, anchor=P2N)
    # the hide flags are forwarded to normalize_modpath
    for n in g.nodes:
        if n.dup:
            continue
        for c in node_calls(n):
            if _callee(c) == 'normalize_modpath':
                kws = {k.arg: k.value for k in c.keywords}
                ok = is_name(kws.get('hide_init'), 'hide_init') and is_name(kws.get('hide_main'), 'hide_main')
                rep.ob('C17.R4', ctx.loc(f, c), ctx.src(c), ok, 'hide_init / hide_main forwarded unchanged' if ok else 'a hide flag is not forwarded (swapped, dropped or constant)', anchor=P2N)
    # the returned name: relative path -> splitext()[0] -> separators to dots
    rets = [n for n in g.nodes if n.kind == 'stmt' and isinstance(n.ast, ast.Return) and not n.dup and n.ast.value is not None]
    need(len(rets) == 1, 'C17.R4: modpath_to_modname has more than one value return')
    rn = rets[0]
    # walk the single-definition chain backwards collecting the transformations
    steps = []
    cur = rn.ast.value
    node = rn
    hops = 0
    src = None
    while hops < 12:
        hops += 1
        if isinstance(cur, ast.Name):
            ds = rd.at(node, cur.id)
            plain = [d for d in ds if d.kind == 'assign' and isinstance(d.value, ast.AST)]
            unp = [d for d in ds if d.kind == 'unpack']
            if len(plain) == 1 and not unp:
                node, cur = plain[0].node, plain[0].value
                continue
            if unp and plain and all(isinstance(d.value, tuple) and isinstance(d.value[1], ast.Call) and isinstance(d.value[1].func, ast.Attribute) and
                                     d.value[1].func.attr == 'split' and is_name(d.value[1].func.value, cur.id) and d.value[2] == 0 for d in unp):
                # `if '.' in modname: modname, abi = modname.split('.', 1)`: follow the plain definition (the abi split keeps a prefix)
                steps.append(('abi-split', unp[0]))
                pl = [d for d in plain if d.node is not unp[0].node]
                need(len(pl) == 1, 'C17.R4: derivation of the module name not recognised')
                node, cur = pl[0].node, pl[0].value
                continue
            src = ds
            break
        if isinstance(cur, ast.Call) and isinstance(cur.func, ast.Attribute) and cur.func.attr == 'replace' and len(cur.args) == 2:
            steps.append(('replace', const_str(cur.args[0]) if const_str(cur.args[0]) is not None else ast.unparse(cur.args[0]), const_str(cur.args[1])))
            cur = cur.func.value
            continue
        if isinstance(cur, ast.Subscript) and isinstance(cur.slice, ast.Constant) and _is_call_to(cur.value, 'splitext'):
            steps.append(('splitext', cur.slice.value))
            cur = cur.value.args[0]
            continue
        if isinstance(cur, ast.Subscript) and isinstance(cur.slice, ast.Constant) and cur.slice.value == 0 and isinstance(cur.value, ast.Call) and isinstance(cur.value.func, ast.Attribute) and \
                cur.value.func.attr in ('split', 'partition') and cur.value.args and const_str(cur.value.args[0]) == '.':
            steps.append(('abi-split', None))       # keeps the part before the first dot (drops an abi tag)
            cur = cur.value.func.value
            continue
        break
    reps = {s[1]: s[2] for s in steps if s[0] == 'replace'}
    seps_ok = (reps.get('/') == '.' and reps.get('\\') == '.') or (reps.get('os.path.sep') == '.' or reps.get('os.sep') == '.')
    only_seps = all(k in ('/', '\\', 'os.path.sep', 'os.sep', 'os.path.altsep') for k in reps)
    rep.ob('C17.R4', ctx.loc(f, rn.ast), 'path separators become dots', bool(seps_ok) and only_seps,
           'both "/" and "\\\\" are replaced by "."' if seps_ok and only_seps else 'the separators of the relative path are not (only) turned into dots: %s' % reps, anchor=P2N)
    sx = [s for s in steps if s[0] == 'splitext']
    rep.ob('C17.R4', ctx.loc(f, rn.ast), 'extension stripped', len(sx) == 1 and sx[0][1] == 0, 'splitext(rel)[0]' if sx else 'the file extension is not removed from the name', anchor=P2N)
    # the source of the chain is the relative part of the split (index 1) or relpath(...)
    ok_src = False
    if src:
        ok_src = True
        for d in src:
            if d.kind == 'unpack' and isinstance(d.value, tuple) and _is_call_to(d.value[1], 'split_modpath') and d.value[2] == 1:
                continue
            if d.kind == 'assign' and isinstance(d.value, ast.AST) and _component(d.value, 1, 'split_modpath') is not None:
                continue
            if d.kind == 'assign' and _is_call_to(d.value, 'relpath'):
                continue
            ok_src = False
    rep.ob('C17.R4', ctx.loc(f, rn.ast), 'the name is derived from the relative part of the split', ok_src,
           'rel_modpath = split_modpath(...)[1] (or relpath to the explicit root)' if ok_src else 'the dotted name is not computed from the relative path (component 1 of split_modpath)', anchor=P2N)


def r5_normalisation(ctx):
    rep = ctx.rep
    f = ctx.func(NORM)
    g = ctx.cfg(f)
    rd = ctx.rd(f)
    dom = ctx.dom(g, g.entry)
    path = f.node.args.args[0].arg

    def base_is(e, fname):
        return isinstance(e, ast.Compare) and len(e.ops) == 1 and isinstance(e.ops[0], ast.Eq) and _is_call_to(e.left, 'basename') and const_str(e.comparators[0]) == fname

    stores = [(n, n.ast.value) for n in g.nodes if n.kind == 'stmt' and not n.dup and isinstance(n.ast, ast.Assign) and is_name(n.ast.targets[0], path)]
    # the new value held in a local first (`pkg_dpath = dirname(modpath)` ... `modpath = pkg_dpath`)
    for i_, (n_, v_) in enumerate(stores):
        if isinstance(v_, ast.Name):
            ds_ = rd.at(n_, v_.id)
            if len(ds_) == 1 and ds_[0].kind == 'assign' and isinstance(ds_[0].value, ast.AST) and _is_call_to(ds_[0].value, 'dirname'):
                stores[i_] = (n_, ds_[0].value)
    # a rewritten path may also be returned directly (early return) instead of being stored back first
    for n in g.nodes:
        if n.kind == 'stmt' and not n.dup and isinstance(n.ast, ast.Return) and n.ast.value is not None and not is_name(n.ast.value, path):
            v = n.ast.value
            if isinstance(v, ast.Name):
                ds = rd.at(n, v.id)
                if len(ds) == 1 and ds[0].kind == 'assign' and isinstance(ds[0].value, ast.AST):
                    v = ds[0].value
            stores.append((n, v))
    rep.floor('C17.R5', 'rewrites of the path in normalize_modpath', len(stores), 3)
    kinds = set()
    for (s, v) in stores:
        facts = graph.guard_facts(dom, s)
        hi = [fa.polarity for fa in facts if isinstance(fa.expr, ast.Name) and fa.expr.id == 'hide_init']
        hm = [fa.polarity for fa in facts if isinstance(fa.expr, ast.Name) and fa.expr.id == 'hide_main']
        is_init = any(fa.polarity is True and base_is(fa.expr, '__init__.py') for fa in facts)
        is_main = any(fa.polarity is True and base_is(fa.expr, '__main__.py') for fa in facts)
        ex = [fa for fa in facts if fa.polarity is True and _is_call_to(fa.expr, 'exists', 'isfile')]
        if _is_call_to(v, 'dirname') and is_init:
            kinds.add('strip-init')
            ok = hi == [True] and not is_main
            rep.ob('C17.R5', ctx.loc(f, s.ast), 'strip __init__.py', ok,
                   'only when hide_init is on and the file is __init__.py' if ok else 'guards: %s' % fmt_facts(facts), anchor=NORM)
        elif _is_call_to(v, 'dirname') and is_main:
            kinds.add('strip-main')
            par = False
            for fa in ex:
                a = fa.expr.args[0] if fa.expr.args else None
                org = _origins(rd, fa.origin.attrs['test'], a) if a is not None else []
                for o in org:
                    if _is_call_to(o, 'join') and len(o.args) == 2 and const_str(o.args[1]) == '__init__.py':
                        a0 = o.args[0]
                        if _is_call_to(a0, 'dirname'):
                            par = True
                        elif isinstance(a0, ast.Name):
                            ds = rd.at(fa.origin.attrs['test'], a0.id)
                            if ds and all(isinstance(d.value, ast.AST) and _is_call_to(d.value, 'dirname') for d in ds):
                                par = True
            ok = hm == [True] and par
            rep.ob('C17.R5', ctx.loc(f, s.ast), 'strip __main__.py', ok,
                   'only when hide_main is on, the file is __main__.py and its directory is a package' if ok else
                   'the __main__.py suffix is removed under other conditions than documented (guards: %s)' % fmt_facts(facts), anchor=NORM)
        elif hi == [False] and ex:
            kinds.add('add-init')
            org = _origins(rd, s, v)
            ok = any(_is_call_to(o, 'join') and len(o.args) == 2 and const_str(o.args[1]) == '__init__.py' for o in org)
            same = any(ast.unparse(fa.expr.args[0]) == ast.unparse(v) for fa in ex if fa.expr.args)
            rep.ob('C17.R5', ctx.loc(f, s.ast), 'add __init__.py', ok and same,
                   'only when hide_init is off and <path>/__init__.py exists' if ok and same else 'guards: %s' % fmt_facts(facts), anchor=NORM)
        else:
            rep.ob('C17.R5', ctx.loc(f, s.ast), ctx.src(s.ast), False, 'a rewrite of the module path that is none of the three documented ones (guards: %s)' % fmt_facts(facts), anchor=NORM)
    rep.ob('C17.R5', ctx.loc(f, f.node), 'all three documented rewrites present', kinds == {'strip-init', 'strip-main', 'add-init'}, sorted(kinds), nontrivial=False, anchor=NORM)
    # hide_main is only ever switched ON, and only together with stripping __init__.py
    hm_defs = [d for d in rd.defs_of('hide_main') if d.kind != 'param']
    for d in hm_defs:
        facts = graph.guard_facts(dom, d.node)
        ok = isinstance(d.value, ast.Constant) and d.value.value is True and any(fa.polarity is True and base_is(fa.expr, '__init__.py') for fa in facts)
        rep.ob('C17.R5', ctx.loc(f, d.node.ast), ctx.src(d.node.ast), ok, 'set only when an __init__.py was stripped' if ok else 'hide_main is overridden outside the documented case', anchor=NORM)
    rets = [n for n in g.nodes if n.kind == 'stmt' and isinstance(n.ast, ast.Return) and not n.dup]
    classified = [s_ for (s_, _) in stores]
    ok = all(is_name(r.ast.value, path) or r in classified for r in rets) and bool(rets)
    rep.ob('C17.R5', ctx.loc(f, rets[0].ast if rets else f.node), 'returns the rewritten path', ok, 'every return is the path variable or one of the classified rewrites', nontrivial=False, anchor=NORM)

    # modname_to_modpath
    f2 = ctx.func(N2P)
    g2 = ctx.cfg(f2)
    rd2 = ctx.rd(f2)
    dom2 = ctx.dom(g2, g2.entry)
    finds = [(n, c) for n in g2.nodes if not n.dup for c in node_calls(n) if _callee(c) == '_syspath_modname_to_modpath']
    rep.floor('C17.R5', 'resolver calls in modname_to_modpath', len(finds), 1)
    for (n, c) in finds:
        sp = c.args[1] if len(c.args) > 1 else next((k.value for k in c.keywords if k.arg == 'sys_path'), None)
        ok = is_name(c.args[0] if c.args else None, 'modname') and is_name(sp, 'sys_path')
        rep.ob('C17.R5', ctx.loc(f2, c), ctx.src(c), ok, 'name and search path forwarded' if ok else 'the caller\'s search path (or name) is not what is searched', anchor=N2P)
    norms = [(n, c) for n in g2.nodes if not n.dup for c in node_calls(n) if _callee(c) == 'normalize_modpath']
    for (n, c) in norms:
        kws = {k.arg: k.value for k in c.keywords}
        for i, nm in enumerate(('modpath', 'hide_init', 'hide_main')):
            if i < len(c.args):
                kws.setdefault(nm, c.args[i])
        ok = is_name(kws.get('hide_init'), 'hide_init') and is_name(kws.get('hide_main'), 'hide_main')
        rep.ob('C17.R5', ctx.loc(f2, c), ctx.src(c), ok, 'hide flags forwarded unchanged' if ok else 'a hide flag is not forwarded (swapped, dropped or constant)', anchor=N2P)
        facts = graph.guard_facts(dom2, n)
        okn = any(fa.polarity is False and isinstance(fa.expr, ast.Compare) and isinstance(fa.expr.ops[0], ast.Is) and isinstance(fa.expr.comparators[0], ast.Constant) and fa.expr.comparators[0].value is None for fa in facts)
        rep.ob('C17.R5', ctx.loc(f2, c), 'normalised only when something was found', okn, fmt_facts(facts), nontrivial=False, anchor=N2P)
    nones = [n for n in g2.nodes if n.kind == 'stmt' and isinstance(n.ast, ast.Return) and not n.dup and isinstance(n.ast.value, ast.Constant) and n.ast.value.value is None]
    okn = any(any(fa.polarity is True and isinstance(fa.expr, ast.Compare) and isinstance(fa.expr.ops[0], ast.Is) for fa in graph.guard_facts(dom2, r)) for r in nones)
    rep.ob('C17.R5', ctx.loc(f2, nones[0].ast if nones else f2.node), 'not found -> None', okn, 'returns None when the resolver found nothing' if okn else 'a missing module is not reported as None', anchor=N2P)


def r6_import_by_path(ctx):
    rep = ctx.rep
    # the helper that imports an existing path; when it was written out in its only caller, that caller
    written_out = not ctx.prog.has_func(CIMP)
    f = ctx.func(IMPP) if written_out else ctx.func(CIMP)
    g = ctx.cfg(f)
    rd = ctx.rd(f)
    path = f.node.args.args[0].arg
    withs = [n for n in g.nodes if n.kind == 'with_enter' and not n.dup and _is_call_to(n.ast.context_expr, 'PythonPathContext')]
    need(len(withs) == 1, 'C17.R6: the sys.path context of _custom_import_modpath was not recognised')
    w = withs[0]
    c = w.ast.context_expr
    org = _origins(rd, w, c.args[0]) if c.args else []
    ok = bool(org) and all(_component(o, 0, 'split_modpath') is not None and _component(o, 0, 'split_modpath').args and is_name(_component(o, 0, 'split_modpath').args[0], path) for o in org)
    rep.ob('C17.R6', ctx.loc(f, c), ctx.src(c), ok,
           'the directory temporarily put on sys.path is component 0 of split_modpath(<the given path>)' if ok else
           'the directory put on sys.path is not the one split_modpath computed for the given path', anchor=CIMP)
    idx = next((k.value for k in c.keywords if k.arg == 'index'), c.args[1] if len(c.args) > 1 else None)
    rep.ob('C17.R6', ctx.loc(f, c), 'insertion index forwarded', is_name(idx, 'index'), ctx.src(c), nontrivial=False, anchor=CIMP)
    imps = [(n, cc) for n in g.nodes if not n.dup for cc in node_calls(n) if _callee(cc) == 'import_module_from_name']
    rep.floor('C17.R6', 'import calls in _custom_import_modpath', len(imps), 1)
    for (n, cc) in imps:
        inside = any(fr.kind == 'with' and fr.stmt is w.stmt for fr in n.frames)
        org = _origins(rd, n, cc.args[0]) if cc.args else []
        okn = bool(org) and all(_is_call_to(o, 'modpath_to_modname') and o.args and is_name(o.args[0], path) for o in org)
        # ... derived with the defaults: hide_main / hide_init / relativeto change WHICH module name comes out (pkg instead of pkg.__main__)
        extra = [ctx.src(k) if not isinstance(k, ast.keyword) else '%s=%s' % (k.arg, ctx.src(k.value)) for o in org if _is_call_to(o, 'modpath_to_modname')
                 for k in list(o.args[1:]) + [k2 for k2 in o.keywords if not (k2.arg == 'check')]]
        if okn and extra:
            rep.ob('C17.R6', ctx.loc(f, cc), 'modpath_to_modname(<path>, %s)' % ', '.join(extra), False,
                   'the module name to import is derived with %s: for a `__main__.py` / `__init__.py` (or with another root) that is the name of a DIFFERENT module than the file given, '
                   'so import_module_from_path returns the package where the file\'s own module was asked for' % ', '.join(extra), anchor=f.qualname)
        rep.ob('C17.R6', ctx.loc(f, cc), ctx.src(cc), inside and okn,
               'imports modpath_to_modname(<the given path>) while the directory is on sys.path' if inside and okn else
               ('the import runs outside the sys.path context' if not inside else 'the imported name is not the one derived from the given path'), anchor=CIMP)
    rets = [n for n in g.nodes if n.kind == 'stmt' and isinstance(n.ast, ast.Return) and not n.dup]
    if written_out:
        wdom = ctx.dom(g, g.entry)
        rets = [n for n in rets if wdom.dominates(w, n)]
    for rn in rets:
        org = _origins(rd, rn, rn.ast.value) if rn.ast.value is not None else []
        ok = bool(org) and all(_is_call_to(o, 'import_module_from_name') for o in org)
        rep.ob('C17.R6', ctx.loc(f, rn.ast), ctx.src(rn.ast), ok, 'returns the imported module' if ok else 'what is returned is not the result of the import', anchor=CIMP)
    # import_module_from_path delegates for existing paths and returns the result
    f2 = ctx.func(IMPP)
    g2 = ctx.cfg(f2)
    rd2 = ctx.rd(f2)
    calls = [(n, cc) for n in g2.nodes if not n.dup for cc in node_calls(n) if _callee(cc) == '_custom_import_modpath']
    rep.floor('C17.R6', 'delegations in import_module_from_path', len(calls), 0 if written_out else 1)
    for (n, cc) in calls:
        org = _origins(rd2, n, cc.args[0]) if cc.args else []
        p0 = f2.node.args.args[0].arg
        ok = bool(org) and all((isinstance(o, tuple) and o == ('param', p0)) or (_is_call_to(o, 'fspath') and o.args and is_name(o.args[0], p0)) for o in org)
        rep.ob('C17.R6', ctx.loc(f2, cc), ctx.src(cc), ok, 'the given path is what is imported' if ok else 'the path handed on is not the given one', nontrivial=False, anchor=IMPP)
    # import_module_from_name imports exactly the given name
    f3 = ctx.func(IMPN)
    g3 = ctx.cfg(f3)
    rd3 = ctx.rd(f3)
    rets3 = [n for n in g3.nodes if n.kind == 'stmt' and isinstance(n.ast, ast.Return) and not n.dup]
    for rn in rets3:
        org = _origins(rd3, rn, rn.ast.value)
        ok = bool(org) and all(_is_call_to(o, 'import_module') and o.args and is_name(o.args[0], f3.node.args.args[0].arg) for o in org)
        rep.ob('C17.R6', ctx.loc(f3, rn.ast), ctx.src(rn.ast), ok, 'importlib.import_module(<the given name>)' if ok else 'the module returned is not importlib.import_module(name)', anchor=IMPN)


# ---------------------------------------------------------------------------
def r8_syspath_restored(ctx):
    """importing by path leaves sys.path unchanged: acquire / release pairing of PythonPathContext (same clauses as C12.R3)"""
    from . import c12
    from .common import run_as
    run_as(ctx, c12.r3_syspath_pairing, 'C12.R3', 'C17.R8')


CACHE_DECORATORS = ('lru_cache', 'cache', 'cached_property', 'memoize', 'memoized', 'memo')
FS_PREDICATES = ('exists', 'isfile', 'isdir', 'islink', 'listdir', 'glob', 'walk', 'scandir', 'stat', 'realpath')


def r7_no_memoised_filesystem_answers(ctx):
    """resolution must look at the directory tree as it is NOW: no function of util_import (or of the package walk) that asks the file
    system may be wrapped in a memoising decorator, and none may keep answers in a module-level container"""
    rep = ctx.rep
    n = 0
    for modname in ('xdoctest.utils.util_import', 'xdoctest.static_analysis', 'xdoctest.core'):
        mod = ctx.prog.module(modname)
        for fn in [x for x in ast.walk(mod.tree) if isinstance(x, (ast.FunctionDef, ast.AsyncFunctionDef))]:
            asks = sorted({(c.func.id if isinstance(c.func, ast.Name) else c.func.attr) for c in ast.walk(fn) if isinstance(c, ast.Call) and
                           (c.func.id if isinstance(c.func, ast.Name) else getattr(c.func, 'attr', None)) in FS_PREDICATES})
            if not asks:
                continue
            n += 1
            decos = []
            for d in fn.decorator_list:
                t = d.func if isinstance(d, ast.Call) else d
                name = t.id if isinstance(t, ast.Name) else (t.attr if isinstance(t, ast.Attribute) else None)
                if name in CACHE_DECORATORS:
                    decos.append(ast.unparse(d))
            rep.ob('C17.R7', ctx.mloc(mod, fn), '%s (asks %s)' % (fn.name, ', '.join(asks)), not decos,
                   'evaluated at call time' if not decos else
                   'the answer of a file-system query is memoised by %s: after a file (an __init__.py) is created or deleted the resolver keeps answering for the old tree, and disagrees with '
                   'split_modpath / the interpreter, which look at the disk' % decos, nontrivial=bool(decos), anchor=modname + '.' + fn.name)
    rep.floor('C17.R7', 'functions querying the file system', n, 8)
    # embedded positive fixture: the pattern must match a known-bad snippet on every run
    fx = ast.parse("import functools\n@functools.lru_cache(maxsize=None)\ndef _has_init(d):\n    return exists(join(d, '__init__.py'))\n")
    fn = fx.body[1]
    t = fn.decorator_list[0].func
    need(t.attr in CACHE_DECORATORS and any(isinstance(c, ast.Call) and getattr(c.func, 'id', None) in FS_PREDICATES for c in ast.walk(fn)), 'C17.R7: positive fixture no longer matches')


def r1b_every_candidate_is_tried(ctx):
    """MUST-PASS: in one search directory a name is given up (check_dpath ends without a path) only after the file candidates were tried too: a
    directory of that name WITHOUT __init__.py does not shadow `name.py` / `name.so` next to it (the interpreter's FileFinder falls through as well)"""
    rep = ctx.rep
    f = ctx.func(CHK)
    g = ctx.cfg(f)
    loops = [n for n in g.nodes if n.kind == 'for' and not n.dup]
    rep.floor('C17.R1b', 'loops over the file candidates in check_dpath', len(loops), 1)
    found = [n for n in g.nodes if n.kind == 'stmt' and isinstance(n.ast, ast.Return) and n.ast.value is not None and not (isinstance(n.ast.value, ast.Constant) and n.ast.value.value is None)]
    wit = graph.must_pass([g.entry], lambda x: x is g.exit, through=loops + found, efilter=graph.normal_only)
    rep.ob('C17.R1b', ctx.loc(f, f.node), 'no path gives up before the file candidates', wit is None,
           'every path that ends without a module path went through the loop over `name.py`, `name.so`, ...' if wit is None else
           'check_dpath can end without a result before the file candidates were examined: a plain directory named like the module (no __init__.py) hides the module file next to it',
           witness=None if wit is None else graph.fmt_path(wit, f.module.relpath), anchor=CHK)


def r9_paths_are_not_resolved(ctx):
    """a dotted name is derived from the path AS GIVEN (made absolute), never from what its symbolic links point to: the interpreter imports
    `link_pkg.mod` under that name.  The path <-> name functions therefore use abspath, not realpath (realpath is only used to compare two
    spellings of one directory in the search itself)"""
    rep = ctx.rep
    n = 0
    for q in ('xdoctest.utils.util_import.split_modpath', 'xdoctest.utils.util_import.modpath_to_modname', 'xdoctest.utils.util_import.normalize_modpath',
              'xdoctest.utils.util_import.import_module_from_path'):
        f = ctx.func(q)
        calls = [c for c in walk_scope(f.node) if isinstance(c, ast.Call) and _callee(c) in ('realpath', 'resolve', 'readlink', 'abspath', 'absolute')]
        for c in calls:
            n += 1
            ok = _callee(c) in ('abspath', 'absolute')
            rep.ob('C17.R9', ctx.loc(f, c), ctx.src(c, 60), ok,
                   'made absolute without following links' if ok else
                   'the module path is resolved through symbolic links before it is split / named: for a linked package directory or module file the search-path directory and the '
                   'dotted name are those of the link target, not of the path that was given (and join(dpath, rel) no longer is that path)', anchor=q)
    rep.floor('C17.R9', 'path normalisations in the path <-> name functions', n, 2)


def r10_definite_assignment(ctx):
    """an UnboundLocalError inside name <-> path resolution aborts the lookup instead of answering it (DEFINITE-ASSIGNMENT, see common.definite_assignment)"""
    from .common import definite_assignment
    definite_assignment(ctx, 'C17.R10', {'xdoctest.utils.util_import'}, 10)


# ---------------------------------------------------------------------------
from ..selftest import fire, silent      # noqa: E402

UP = 'xdoctest/utils/util_import.py'
VARIANTS = [
    fire('import-name-derived-with-hide-main', 'C17.R6', (UP, "def _custom_import_modpath(modpath, index=-1):\n    dpath, rel_modpath = split_modpath(modpath)\n    modname = modpath_to_modname(modpath)\n", "def _custom_import_modpath(modpath, index=-1):\n    dpath, rel_modpath = split_modpath(modpath)\n    modname = modpath_to_modname(modpath, hide_main=True)\n")),
    fire('package-chain-checked-one-level-only', 'C17.R1', (UP, "        while subdir and subdir != base:\n", "        if subdir and subdir != base:\n")),
    fire('plain-directory-shadows-module-file', 'C17.R1b', (UP, "            if isfile(join(modpath, '__init__.py')):\n                if _isvalid(modpath, dpath):\n                    return modpath\n", "            if not isfile(join(modpath, '__init__.py')):\n                return None\n            if _isvalid(modpath, dpath):\n                return modpath\n")),
    fire('split-follows-symlinks', 'C17.R9', (UP, "    modpath_ = abspath(expanduser(modpath))\n    if check:", "    modpath_ = realpath(expanduser(modpath))\n    if check:")),
    fire('file-before-package', 'C17.R1', (UP, """        modpath = join(dpath, _fname_we)
        if exists(modpath):
            if isfile(join(modpath, '__init__.py')):
                if _isvalid(modpath, dpath):
                    return modpath

        # If that fails, check for file-based modules
        for fname in candidate_fnames:
            modpath = join(dpath, fname)
            if isfile(modpath):
                if _isvalid(modpath, dpath):
                    return modpath
""", """        for fname in candidate_fnames:
            modpath = join(dpath, fname)
            if isfile(modpath):
                if _isvalid(modpath, dpath):
                    return modpath
        modpath = join(dpath, _fname_we)
        if exists(modpath):
            if isfile(join(modpath, '__init__.py')):
                if _isvalid(modpath, dpath):
                    return modpath
""")),
    fire('file-candidate-unvalidated', 'C17.R1', (UP, """            if isfile(modpath):
                if _isvalid(modpath, dpath):
                    return modpath
""", """            if isfile(modpath):
                return modpath
""")),
    fire('package-without-init-test', 'C17.R1', (UP, "            if isfile(join(modpath, '__init__.py')):\n                if _isvalid(modpath, dpath):\n                    return modpath\n", "            if _isvalid(modpath, dpath):\n                return modpath\n")),
    fire('search-continues-after-hit', 'C17.R2', (UP, """        modpath = check_dpath(dpath)
        if modpath:
            found_modpath = modpath
            break
""", """        modpath = check_dpath(dpath)
        if modpath:
            found_modpath = modpath
""")),
    fire('search-path-sorted', 'C17.R2', (UP, "    candidate_dpaths = ['.' if p == '' else p for p in sys_path]\n", "    candidate_dpaths = sorted('.' if p == '' else p for p in sys_path)\n")),
    fire('walk-stops-at-main', 'C17.R3', (UP, "    while exists(join(dpath, '__init__.py')):\n", "    while exists(join(dpath, '__main__.py')):\n")),
    fire('walk-parts-not-reversed', 'C17.R3', (UP, "    relmod_parts = _relmod_parts[::-1]\n", "    relmod_parts = _relmod_parts\n")),
    fire('walk-drops-level', 'C17.R3', (UP, "        dpath, dname = split(dpath)\n        _relmod_parts.append(dname)\n", "        dpath, dname = split(dpath)\n        if not _relmod_parts:\n            _relmod_parts.append(dname)\n")),
    fire('split-returns-start-dir', 'C17.R3', (UP, "    return dpath, rel_modpath\n", "    return full_dpath, rel_modpath\n")),
    fire('name-from-unnormalised-path', 'C17.R4', (UP, "        dpath, rel_modpath = split_modpath(modpath_, check=check)\n", "        dpath, rel_modpath = split_modpath(abspath(expanduser(modpath)), check=check)\n")),
    fire('backslash-not-replaced', 'C17.R4', (UP, "    modname = modname.replace('\\\\', '.')\n", "")),
    fire('name-from-directory-component', 'C17.R4', (UP, "        dpath, rel_modpath = split_modpath(modpath_, check=check)\n", "        rel_modpath, dpath = split_modpath(modpath_, check=check)\n")),
    fire('hide-flags-swapped', 'C17.R4', (UP, "    modpath_ = normalize_modpath(modpath_, hide_init=hide_init,\n                                 hide_main=hide_main)\n", "    modpath_ = normalize_modpath(modpath_, hide_init=hide_main,\n                                 hide_main=hide_init)\n")),
    fire('main-stripped-without-package', 'C17.R5', (UP, "            if exists(parallel_init):\n                modpath = dirname(modpath)\n", "            if True:\n                modpath = dirname(modpath)\n")),
    fire('init-stripped-regardless-of-flag', 'C17.R5', (UP, "    if hide_init:\n        if basename(modpath) == '__init__.py':\n", "    if hide_init or basename(modpath) == '__init__.py':\n        if basename(modpath) == '__init__.py':\n")),
    fire('search-path-not-forwarded', 'C17.R5', (UP, "    if hide_main or sys_path:\n        modpath = _syspath_modname_to_modpath(modname, sys_path)\n", "    if hide_main or sys_path:\n        modpath = _syspath_modname_to_modpath(modname, None)\n")),
    fire('import-outside-context', 'C17.R6', (UP, "        with PythonPathContext(dpath, index=index):\n            module = import_module_from_name(modname)\n", "        with PythonPathContext(dpath, index=index):\n            pass\n        module = import_module_from_name(modname)\n")),
    fire('syspath-gets-module-dir', 'C17.R6', (UP, "    dpath, rel_modpath = split_modpath(modpath)\n    modname = modpath_to_modname(modpath)\n    try:\n", "    dpath, rel_modpath = split_modpath(modpath)\n    dpath = dirname(modpath)\n    modname = modpath_to_modname(modpath)\n    try:\n")),
    fire('init-test-memoised', 'C17.R7', (UP, "def _syspath_modname_to_modpath(modname, sys_path=None, exclude=None):\n", "import functools\n\n\n@functools.lru_cache(maxsize=None)\ndef _has_init(dpath):\n    return exists(join(dpath, '__init__.py'))\n\n\ndef _syspath_modname_to_modpath(modname, sys_path=None, exclude=None):\n")),
    silent('first-hit-return', (UP, "    relmod_parts = _relmod_parts[::-1]\n    rel_modpath = os.path.sep.join(relmod_parts)\n", "    rel_modpath = os.path.sep.join(_relmod_parts[::-1])\n")),
    silent('isfile-for-exists-in-walk', (UP, "    while exists(join(dpath, '__init__.py')):\n", "    while isfile(join(dpath, '__init__.py')):\n")),
]
