"""
C06 -- ellipsis is a true wildcard (narrow structural claim).
"""
import ast

from ..context import need
from ..loader import AnalysisError
from .. import graph
from ..roles import node_calls
from ..resolve import walk_scope
from .common import fmt_facts, is_name, subscript_key
from .c05 import canon_fact, verdict_sources
from .common import re_call_problem

EXPLANATION = (
    'Static rule conformance on checker._ellipsis_match and its callers: R1 the matcher is called only from _check_match, edge-dominated by '
    "runstate['ELLIPSIS'] true (with ELLIPSIS off '...' has no special meaning); R2 a want without the marker is compared exactly (the exit "
    'guarded by "marker not in want" returns the equality of the two parameters and everything else is guarded by "marker in want"); '
    'R3 the lower bound advanced by the anchored prefix and the upper bound reserved for the anchored suffix both reach every search for a '
    'middle piece on got, the suffix branch decreases the upper bound, every accepted piece advances the lower bound past it, and the '
    'comparison of the two bounds (returning False) dominates the scan -- necessary for "pieces never overlap". '
    'Equivalence with the wildcard definition on all strings is not decided.'
    ' R3 also: the scan loop runs over the whole remaining piece list. R7 = C05.R11, R8 = C05.R12.')
DECIDES = ['WHO-MAY + GUARD-DOM of the matcher', 'exactness without wildcard', 'FLOW of both scan bounds']
NOT_DECIDED = ['equivalence of the greedy scan with the wildcard definition for all strings', 'treatment of whitespace around the marker']

EM = 'xdoctest.checker._ellipsis_match'
CM = 'xdoctest.checker._check_match'


def run(ctx):
    for fn in (r1_only_under_flag, r2_exact_without_marker, r3_bounds_reach_scan, r4_split_pattern, r4b_regex_gaps_span_newlines, r5_verdict_sources, r6_flag_read_is_current, r7_run_state_is_forwarded, r8_got_want_roles, r9_failures_return_false):
        ctx.rep.rule(fn, ctx)


def r1_only_under_flag(ctx):
    rep = ctx.rep
    sites = []
    for func in ctx.prog.funcs.values():
        if func.module.name == 'xdoctest._tokenize':
            continue
        for n in walk_scope(func.node):
            if isinstance(n, ast.Call):
                r = ctx.res.resolve_call(func, n)
                if r[0] == 'repo' and any(x.qualname == EM for x in r[1]):
                    sites.append((func, n))
            elif isinstance(n, ast.Name) and n.id == '_ellipsis_match' and isinstance(n.ctx, ast.Load) and not (isinstance(n._parent, ast.Call) and n._parent.func is n):
                sites.append((func, n))
    rep.floor('C06.R1', 'uses of _ellipsis_match', len(sites), 1)
    for (func, c) in sites:
        if not isinstance(c, ast.Call):
            rep.ob('C06.R1', ctx.loc(func, c), ctx.src(c._parent), False, 'the matcher escapes as a value: its callers cannot be enumerated', anchor=func.qualname)
            continue
        if func.qualname != CM:
            rep.ob('C06.R1', ctx.loc(func, c), ctx.src(c), False,
                   "the wildcard matcher is called outside _check_match, where the ELLIPSIS flag is not consulted: '...' acts as a wildcard with ELLIPSIS off", anchor=func.qualname)
            continue
        g = ctx.cfg(func)
        dom = ctx.dom(g, g.entry)
        for n in g.nodes_containing(c):
            facts = graph.guard_facts_at(dom, n, c)
            ok = any(canon_fact(fa) == ('key', 'ELLIPSIS', True) for fa in facts)
            rep.ob('C06.R1', ctx.loc(func, c), ctx.src(c), ok,
                   "edge-dominated by runstate['ELLIPSIS'] true" if ok else "reachable with ELLIPSIS off (guards: %s)" % fmt_facts(facts), anchor=CM)


def _marker_fact(fa):
    """polarity of `ELLIPSIS_MARKER in want` if the fact is that test"""
    e = fa.expr
    if isinstance(e, ast.Compare) and len(e.ops) == 1 and isinstance(e.ops[0], ast.In):
        l = e.left
        if (isinstance(l, ast.Name) and l.id == 'ELLIPSIS_MARKER') or (isinstance(l, ast.Constant) and l.value == '...'):
            return fa.polarity
    return None


def r2_exact_without_marker(ctx):
    rep = ctx.rep
    f = ctx.func(EM)
    g = ctx.cfg(f)
    rd = ctx.rd(f)
    dom = ctx.dom(g, g.entry)
    params = [a.arg for a in f.node.args.args]
    need(len(params) == 2, 'C06.R2: _ellipsis_match(got, want) signature changed')
    rets = [n for n in g.nodes if n.kind == 'stmt' and isinstance(n.ast, ast.Return) and not n.dup]
    exact = []
    for rn in rets:
        facts = graph.guard_facts(dom, rn)
        pols = [p for p in (_marker_fact(fa) for fa in facts) if p is not None]
        if pols and pols[0] is False:
            v = rn.ast.value
            ok = isinstance(v, ast.Compare) and len(v.ops) == 1 and isinstance(v.ops[0], ast.Eq) and \
                {x.id for x in (v.left, v.comparators[0]) if isinstance(x, ast.Name)} == set(params) and \
                all(d.kind == 'param' for p_ in params for d in rd.at(rn, p_))
            exact.append(rn)
            rep.ob('C06.R2', ctx.loc(f, rn.ast), ctx.src(rn.ast), ok,
                   'a want without the marker matches exactly when it equals got' if ok else 'without a wildcard the result is not the equality of got and want', anchor=EM)
        elif not pols:
            rep.ob('C06.R2', ctx.loc(f, rn.ast), ctx.src(rn.ast), False, 'this return is reachable without testing whether want contains the marker', anchor=EM)
    rep.ob('C06.R2', ctx.loc(f, f.node), 'exact exit exists', bool(exact), '%d exit(s) guarded by "marker not in want"' % len(exact), nontrivial=False, anchor=EM)


def r3_bounds_reach_scan(ctx):
    rep = ctx.rep
    f = ctx.func(EM)
    g = ctx.cfg(f)
    rd = ctx.rd(f)
    dom = ctx.dom(g, g.entry)
    params = [a.arg for a in f.node.args.args]
    got = params[0]
    # bound variables: end <- len(got); start <- 0
    endvars, startvars = set(), set()
    def is_len_of(e, nm):
        return isinstance(e, ast.Call) and is_name(e.func, 'len') and e.args and is_name(e.args[0], nm)
    for d in rd.defs:
        v = d.value
        if not isinstance(v, ast.AST):
            continue
        if is_len_of(v, got) or (isinstance(v, ast.BinOp) and isinstance(v.op, ast.Sub) and is_len_of(v.left, got)):
            endvars.add(d.name)           # end <- len(got)  or  len(got) - len(suffix)
        elif (isinstance(v, ast.Constant) and v.value == 0 and d.kind == 'assign') or (isinstance(v, ast.Call) and is_name(v.func, 'len') and v.args and not is_name(v.args[0], got) and d.name not in endvars):
            startvars.add(d.name)         # start <- 0  or  len(prefix)
    startvars -= endvars
    # plain copies of a bound are the same bound (a helper's parameter)
    changed = True
    while changed:
        changed = False
        for d in rd.defs:
            if isinstance(d.value, ast.Name) and d.kind == 'assign' and d.name not in startvars | endvars:
                if d.value.id in startvars:
                    startvars.add(d.name)
                    changed = True
                elif d.value.id in endvars:
                    endvars.add(d.name)
                    changed = True
    need(endvars and startvars, 'C06.R3: scan bounds not recognised (end <- len(got), start <- 0)')
    # searches for a piece on got
    searches = []
    for n in g.nodes:
        for c in node_calls(n):
            if isinstance(c.func, ast.Attribute) and c.func.attr in ('find', 'index', 'rfind', 'rindex'):
                base = c.func.value
                if is_name(base, got) or (isinstance(base, ast.Subscript) and is_name(base.value, got)):
                    searches.append((n, c))
    rep.floor('C06.R3', 'piece searches on got', len(searches), 1)
    for (n, c) in searches:
        base = c.func.value
        lo = hi = None
        if isinstance(base, ast.Subscript) and isinstance(base.slice, ast.Slice):
            lo, hi = base.slice.lower, base.slice.upper
        if len(c.args) >= 2 and lo is None:
            lo = c.args[1]
        if len(c.args) >= 3 and hi is None:
            hi = c.args[2]
        lo_ok = lo is not None and any(isinstance(x, ast.Name) and x.id in startvars for x in ast.walk(lo))
        hi_ok = hi is not None and any(isinstance(x, ast.Name) and x.id in endvars for x in ast.walk(hi))
        rep.ob('C06.R3', ctx.loc(f, c), ctx.src(c), lo_ok and hi_ok,
               'search is bounded below by the advancing start and above by the end reserved for the anchored suffix' if lo_ok and hi_ok else
               ('the search has no upper bound: the last middle piece may be found inside the text already claimed by the anchored suffix (pieces overlap)' if lo_ok else
                'the search does not start at the advancing lower bound: pieces can be matched out of order / overlapping'), anchor=EM)
        # the found position advances the start past the piece
        if isinstance(n.ast, ast.Assign) and isinstance(n.ast.targets[0], ast.Name):
            pos = n.ast.targets[0].id
            adv = False
            for m in graph.reachable(n.nsucc(), efilter=graph.normal_only):
                if m.kind == 'stmt' and isinstance(m.ast, ast.AugAssign) and isinstance(m.ast.op, ast.Add) and is_name(m.ast.target, pos) and \
                        isinstance(m.ast.value, ast.Call) and is_name(m.ast.value.func, 'len'):
                    adv = True
            # ... and it is the variable the NEXT search starts from: the found position is stored in the lower-bound variable itself, or copied into it
            lo_names = {x.id for x in ast.walk(lo) if isinstance(x, ast.Name)} if lo is not None else set()
            lo_names = {x for x in lo_names if x in startvars}
            feeds = pos in lo_names or any(d.name in lo_names and is_name(d.value, pos) and d.kind == 'assign' for d in rd.defs)
            # the same step with the found position kept in a variable of its own: `found = got.find(w, start, end)` ... `start = found + len(w)`
            adv2 = False
            for m in graph.reachable(n.nsucc(), efilter=graph.normal_only):
                if m.kind == 'stmt' and isinstance(m.ast, ast.Assign) and len(m.ast.targets) == 1 and isinstance(m.ast.targets[0], ast.Name) and m.ast.targets[0].id in lo_names and \
                        isinstance(m.ast.value, ast.BinOp) and isinstance(m.ast.value.op, ast.Add):
                    sides = [m.ast.value.left, m.ast.value.right]
                    if any(is_name(x, pos) for x in sides) and any(isinstance(x, ast.Call) and is_name(x.func, 'len') for x in sides):
                        adv2 = True
            if adv2 and pos not in startvars:
                adv, feeds = True, True
                startvars = startvars | {pos}
            rep.ob('C06.R3', ctx.loc(f, c), '%s += len(piece)' % pos, adv and pos in startvars and feeds,
                   'after a match the lower bound moves past the piece' if adv and pos in startvars and feeds else
                   ('the lower bound is not advanced past a matched piece' if not (adv and pos in startvars) else
                    'the position that is advanced past a matched piece (`%s`) is not the one the next search starts from (%s): every piece is searched from the same place, so pieces can match '
                    'out of order or overlapping' % (pos, sorted(lo_names))), anchor=EM)
    # every remaining piece is searched: the scan loop runs over the list the anchored pieces were removed from, not over a part of it
    for (n, c) in searches:
        loops_ = [fr for fr in n.frames if fr.kind == 'loop']
        if not loops_:
            continue
        it = loops_[-1].stmt.iter
        if isinstance(it, ast.Subscript) and isinstance(it.slice, ast.Slice) and isinstance(it.value, ast.Name):
            P = it.value.id
            dels = [x for x in ast.walk(f.node) if isinstance(x, ast.Delete) and any(isinstance(t, ast.Subscript) and is_name(t.value, P) for t in x.targets)]
            dels += [x for x in ast.walk(f.node) if isinstance(x, ast.Call) and isinstance(x.func, ast.Attribute) and x.func.attr == 'pop' and is_name(x.func.value, P)]
            if dels:
                rep.ob('C06.R3', ctx.loc(f, loops_[-1].stmt), 'for ... in %s' % ctx.src(it), False,
                       'the anchored first / last piece is removed from `%s` in place (%s) AND the scan skips an element of what is left: a middle piece is never searched for, '
                       'so a got that lacks it still matches' % (P, ctx.src(dels[0], 30)), anchor=EM)
    # suffix branch decreases the end bound, prefix branch advances the start
    dec = [n for n in g.nodes if n.kind == 'stmt' and isinstance(n.ast, ast.AugAssign) and isinstance(n.ast.op, ast.Sub) and isinstance(n.ast.target, ast.Name) and n.ast.target.id in endvars]
    ok = False
    for n in dec:
        facts = graph.guard_facts(dom, n)
        if any(isinstance(fa.expr, ast.Call) and isinstance(fa.expr.func, ast.Attribute) and fa.expr.func.attr == 'endswith' and fa.polarity is True for fa in facts):
            ok = True
    if not ok:
        for d in rd.defs:
            v = d.value
            if d.name in endvars and isinstance(v, ast.BinOp) and isinstance(v.op, ast.Sub) and is_len_of(v.left, got) and isinstance(v.right, ast.Call) and is_name(v.right.func, 'len'):
                facts = graph.guard_facts(dom, d.node)
                if any(isinstance(fa.expr, ast.Call) and isinstance(fa.expr.func, ast.Attribute) and fa.expr.func.attr == 'endswith' and fa.polarity is True and fa.expr.args and
                       ast.unparse(fa.expr.args[0]) == ast.unparse(v.right.args[0]) for fa in facts):
                    ok = True
                    dec = [d.node]
    rep.ob('C06.R3', ctx.loc(f, dec[0].ast if dec else f.node), 'suffix anchor reserves its length', ok,
           'the end bound is decreased by the suffix length on the endswith branch' if ok else 'the anchored suffix no longer reserves its text: a middle piece may overlap it', anchor=EM)
    adv = []
    for d in rd.defs:
        if d.name in startvars and isinstance(d.value, ast.Call) and is_name(d.value.func, 'len'):
            facts = graph.guard_facts(dom, d.node)
            if any(isinstance(fa.expr, ast.Call) and isinstance(fa.expr.func, ast.Attribute) and fa.expr.func.attr == 'startswith' and fa.polarity is True for fa in facts):
                adv.append(d)
    rep.ob('C06.R3', ctx.loc(f, adv[0].node.ast if adv else f.node), 'prefix anchor advances the start', bool(adv),
           'the start bound is set to the prefix length on the startswith branch' if adv else 'the anchored prefix no longer advances the start bound', anchor=EM)
    # anchors fail -> False
    for meth in ('startswith', 'endswith'):
        tests = [n for n in g.nodes if n.kind == 'test' and isinstance(n.ast, ast.Call) and isinstance(n.ast.func, ast.Attribute) and n.ast.func.attr == meth and is_name(n.ast.func.value, got)]
        if not tests:
            # the anchor test is part of a combined condition: the branch on which the anchor is NOT known to hold must return False
            for n in g.nodes:
                if n.kind == 'test' and not n.dup and any(isinstance(x, ast.Call) and isinstance(x.func, ast.Attribute) and x.func.attr == meth and is_name(x.func.value, got) for x in ast.walk(n.ast)):
                    for b in n.nsucc():
                        if b.kind != 'branch':
                            continue
                        holds = any(isinstance(fa.expr, ast.Call) and isinstance(fa.expr.func, ast.Attribute) and fa.expr.func.attr == meth and fa.polarity is True
                                    for fa in graph.facts_of(n.ast, b.attrs['polarity'], b))
                        if holds:
                            continue
                        first = graph.path([b], lambda x: x.kind == 'stmt' and isinstance(x.ast, ast.Return), efilter=graph.normal_only)
                        okc = first is not None and isinstance(first[-1].ast.value, ast.Constant) and first[-1].ast.value.value is False and len(first) <= 3
                        rep.ob('C06.R3', ctx.loc(f, n.ast), 'not %s anchor -> False' % meth, okc,
                               'a missing anchored end is a mismatch' if okc else 'a got that lacks the anchored %s piece is not rejected' % ('first' if meth == 'startswith' else 'last'), anchor=EM)
        for t in tests:
            fb = [b for b in t.nsucc() if b.kind == 'branch' and b.attrs['polarity'] is False]
            rets = [x for x in graph.reachable(fb, efilter=graph.normal_only) if x.kind == 'stmt' and isinstance(x.ast, ast.Return)]
            first = graph.path(fb, lambda x: x.kind == 'stmt' and isinstance(x.ast, ast.Return), efilter=graph.normal_only)
            ok = first is not None and isinstance(first[-1].ast.value, ast.Constant) and first[-1].ast.value.value is False and len(first) <= 3
            rep.ob('C06.R3', ctx.loc(f, t.ast), 'not %s -> False' % ctx.src(t.ast), ok,
                   'a missing anchored end is a mismatch' if ok else 'a got that lacks the anchored %s piece is not rejected' % ('first' if meth == 'startswith' else 'last'), anchor=EM)
    # overlap guard dominates the scan
    for (n, c) in searches:
        facts = graph.guard_facts(dom, n)
        ok = False
        for fa in facts:
            e = fa.expr
            if isinstance(e, ast.Compare) and len(e.ops) == 1 and isinstance(e.ops[0], (ast.Gt, ast.Lt, ast.GtE, ast.LtE)):
                names = {x.id for x in (e.left, e.comparators[0]) if isinstance(x, ast.Name)}
                if names & startvars and names & endvars:
                    # start > end false  /  end < start false  /  start <= end true ...
                    l_is_start = isinstance(e.left, ast.Name) and e.left.id in startvars
                    gt = isinstance(e.ops[0], (ast.Gt, ast.GtE))
                    crossing = (l_is_start and gt) or (not l_is_start and not gt)
                    if crossing != fa.polarity:
                        t = fa.origin.attrs['test']
                        ob = [b for b in t.nsucc() if b.kind == 'branch' and b is not fa.origin]
                        first = graph.path(ob, lambda x: x.kind == 'stmt' and isinstance(x.ast, ast.Return), efilter=graph.normal_only)
                        if first is not None and isinstance(first[-1].ast.value, ast.Constant) and first[-1].ast.value.value is False:
                            ok = True
        rep.ob('C06.R3', ctx.loc(f, c), 'bounds comparison dominates %s' % ctx.src(c), ok,
               'the scan only runs when the anchored ends do not cross; crossing ends return False' if ok else
               'the scan can run although the anchored prefix and suffix overlap (as in want "aa...aa", got "aaa")', anchor=EM)


def r6_flag_read_is_current(ctx):
    """whether '...' is special is decided by the CURRENT value of the flag: reading a key of the run state looks at the live overlay / persistent dictionaries (same clause as C04.R4)"""
    from . import c04
    from .common import run_as
    run_as(ctx, c04.r4_lookup_order, 'C04.R4', 'C06.R6')


def r5_verdict_sources(ctx):
    """with ELLIPSIS off '...' has no special meaning: no positive verdict of check_output / _check_match bypasses the flag"""
    verdict_sources(ctx, 'C06.R5')


def r4b_regex_gaps_span_newlines(ctx):
    """if the matcher (or a helper) lets a regular expression stand for the text between two pieces, its `.` must match newlines: the property
    allows arbitrary, possibly multi-line, text in place of each '...'"""
    rep = ctx.rep
    f = ctx.func(EM)
    rd = ctx.rd(f)
    g = ctx.cfg(f)
    n = 0
    for nd in g.nodes:
        if nd.dup:
            continue
        for c in node_calls(nd):
            if not (isinstance(c.func, ast.Attribute) and isinstance(c.func.value, ast.Name) and c.func.value.id == 're' and c.func.attr in ('search', 'match', 'fullmatch', 'compile', 'findall', 'finditer')):
                continue
            pat = c.args[0] if c.args else None
            parts = [pat] if pat is not None else []
            # follow local names and module constants once
            for x in list(ast.walk(pat)) if pat is not None else []:
                if isinstance(x, ast.Name):
                    for d in rd.at(nd, x.id):
                        if isinstance(d.value, ast.AST):
                            parts.append(d.value)
                            for y in ast.walk(d.value):
                                if isinstance(y, ast.Name) and y.id in f.module.assigns:
                                    parts.append(f.module.assigns[y.id])
                    if x.id in f.module.assigns:
                        parts.append(f.module.assigns[x.id])
            consts_ = [y.value for p_ in parts for y in ast.walk(p_) if isinstance(y, ast.Constant) and isinstance(y.value, str)]
            gaps = [t for t in consts_ if '.*' in t or '.+' in t]
            if not gaps:
                continue
            n += 1
            flags = next((k.value for k in c.keywords if k.arg == 'flags'), c.args[2] if len(c.args) > 2 and c.func.attr != 'compile' else (c.args[1] if c.func.attr == 'compile' and len(c.args) > 1 else None))
            dotall = flags is not None and any(isinstance(y, ast.Attribute) and y.attr in ('DOTALL', 'S') for y in ast.walk(flags))
            inline = any('(?s' in t for t in consts_)
            rep.ob('C06.R4b', ctx.loc(f, c), ctx.src(c, 90), dotall or inline,
                   'the gap pattern %r is applied with DOTALL' % gaps[0] if dotall or inline else
                   "the text between two pieces is matched by %r without re.DOTALL: '.' does not match a newline, so an ellipsis between two inner pieces cannot stand for multi-line text" % gaps[0], anchor=EM)
    rep.note('regex_gap_sites', n)


def r4_split_pattern(ctx):
    """the want is cut at the marker together with the whitespace around it; the pieces are literal text"""
    import re as _re
    from .. import consts
    rep = ctx.rep
    f = ctx.func(EM)
    fold = consts.Folder(ctx.prog)
    splits = [c for c in ast.walk(f.node) if isinstance(c, ast.Call) and ast.unparse(c.func) in ('re.split',)]
    pre = [c for c in ast.walk(f.node) if isinstance(c, ast.Call) and isinstance(c.func, ast.Attribute) and c.func.attr == 'split' and isinstance(c.func.value, ast.Name) and
           c.func.value.id in f.module.assigns and isinstance(f.module.assigns[c.func.value.id], ast.Call) and ast.unparse(f.module.assigns[c.func.value.id].func) == 're.compile']
    need(len(splits) + len(pre) == 1, 'C06.R4: re.split of the want not found')
    if splits:
        c = splits[0]
        pat_expr, want_arg, cshape = c.args[0], (c.args[1] if len(c.args) > 1 else None), c
    else:
        c = pre[0]
        comp = f.module.assigns[c.func.value.id]
        pat_expr, want_arg = comp.args[0], (c.args[0] if c.args else None)
        cshape = ast.Call(func=ast.Attribute(value=ast.Name(id='re', ctx=ast.Load()), attr='split', ctx=ast.Load()), args=[pat_expr] + list(c.args), keywords=list(c.keywords))
    try:
        pat = fold.fold(f.module, pat_expr, None, f if splits else None)
    except consts.NotConstant as ex:
        raise AnalysisError('C06.R4: split pattern not foldable: %s' % ex)
    marker = fold.module_const('xdoctest.checker', 'ELLIPSIS_MARKER')
    rx = consts.Regex(pat, 0)
    items = rx.items
    ok = False
    if len(items) == 2 + len(marker):
        r0 = consts.repeat_of(items[0])
        r1 = consts.repeat_of(items[-1])
        lit = consts.literal_prefix(items[1:-1])
        def ws(r):
            if not r or r[0] != 0 or r[1] != consts.MAXREPEAT or len(r[2]) != 1:
                return False
            cs = consts.item_charset(r[2][0])
            return cs is not None and {32, 9, 10} <= cs and ord('a') not in cs and ord('.') not in cs
        ok = ws(r0) and ws(r1) and lit == marker
    rep.ob('C06.R4', ctx.loc(f, c), 'split pattern %r' % pat, ok,
           'the want is cut at every literal marker, absorbing only the whitespace around it' if ok else
           'the split pattern is not  \\s* <escaped marker> \\s*  : other characters are absorbed or the marker is treated as a regex', anchor=EM)
    prob = re_call_problem(cshape)
    rep.ob('C06.R4', ctx.loc(f, c), 'every marker is a cut point', prob is None, 'the number of splits is not limited' if prob is None else
           prob + ': only the first markers of a want act as wildcards, later ones are compared literally', anchor=EM)
    ok2 = is_name(want_arg, f.node.args.args[1].arg)
    rep.ob('C06.R4', ctx.loc(f, c), 'the want (not the got) is split', ok2, ctx.src(c, 80), nontrivial=False, anchor=EM)
    # the pieces are used as literal text (find / startswith / endswith), never as patterns
    used_as_regex = [x for x in ast.walk(f.node) if isinstance(x, ast.Call) and ast.unparse(x.func) in ('re.search', 're.match', 're.findall', 're.fullmatch', 're.compile') ]
    rep.ob('C06.R4', ctx.loc(f, f.node), 'pieces compared as literal text', not used_as_regex, 'no regex matching of pieces' if not used_as_regex else 'pieces of the want are interpreted as regular expressions', nontrivial=False, anchor=EM)


def r7_run_state_is_forwarded(ctx):
    """the flags that decide this property reach the comparison only through the run state: same clause as C05.R11"""
    from . import c05
    c05.r11_run_state_is_forwarded(ctx, rule='C06.R7')


def r8_got_want_roles(ctx):
    """got and want keep their sides at every call into the checker: same clause as C05.R12"""
    from . import c05
    c05.r12_got_want_roles(ctx, rule='C06.R8')


def r9_failures_return_false(ctx):
    """FAILURE-VERDICT in the wildcard matcher: each comparison that can fail -- the anchored prefix (startswith), the anchored suffix (endswith), a
    middle piece that is not found (find(...) < 0), the anchors overlapping -- leads straight to `return False`; and the prefix / suffix comparison
    is made whenever that piece is non-empty (it is never placed under "the piece is empty")"""
    rep = ctx.rep
    f = ctx.func(EM)
    g = ctx.cfg(f)
    rd = ctx.rd(f)
    dom = ctx.dom(g, g.entry)
    got = f.node.args.args[0].arg
    fails = []          # (test node, failing polarity, what)
    for n in g.nodes:
        if n.kind != 'test' or n.dup:
            continue
        e = n.ast
        neg = False
        while isinstance(e, ast.UnaryOp) and isinstance(e.op, ast.Not):
            e, neg = e.operand, not neg
        if isinstance(e, ast.Call) and isinstance(e.func, ast.Attribute) and e.func.attr in ('startswith', 'endswith') and is_name(e.func.value, got):
            fails.append((n, neg, 'anchored %s %s' % ('prefix' if e.func.attr == 'startswith' else 'suffix', ctx.src(e)), e))
        elif isinstance(e, ast.Compare) and len(e.ops) == 1 and isinstance(e.left, ast.Name) and isinstance(e.comparators[0], ast.Constant) and e.comparators[0].value in (0, -1):
            defs = rd.at(n, e.left.id)
            for _ in range(3):
                # the found position under a plain copy of its name
                if defs and all(d.kind == 'assign' and isinstance(d.value, ast.Name) for d in defs):
                    defs = [d2 for d in defs for d2 in rd.at(d.node, d.value.id)]
            if any(isinstance(d.value, ast.Call) and isinstance(d.value.func, ast.Attribute) and d.value.func.attr in ('find', 'rfind') for d in defs):
                op, c0 = type(e.ops[0]), e.comparators[0].value
                failing = {(ast.Lt, 0): True, (ast.Eq, -1): True, (ast.GtE, 0): False, (ast.NotEq, -1): False, (ast.LtE, -1): True, (ast.Gt, -1): False}.get((op, c0))
                need(failing is not None, 'C06.R9: test of a search result not recognised: %s' % ctx.src(e))
                fails.append((n, failing != neg, 'piece not found (%s)' % ctx.src(e), e))
    rep.floor('C06.R9', 'comparisons that can fail in the wildcard matcher', len(fails), 3)
    for (n, pol, what, e) in fails:
        bs = [b for b in n.nsucc() if b.kind == 'branch' and b.attrs['polarity'] is pol]
        need(bs, 'C06.R9: failing branch of %s not found' % what)
        rets = []
        falls = False
        for x in graph.reachable(bs, efilter=graph.normal_only, stop=[y for y in g.nodes if y.kind == 'stmt' and isinstance(y.ast, ast.Return)]):
            if x.kind == 'stmt' and isinstance(x.ast, ast.Return):
                rets.append(x)
        ok = bool(rets) and all(isinstance(r_.ast.value, ast.Constant) and r_.ast.value.value is False for r_ in rets)
        # the failing branch must not be able to reach another comparison first (i.e. the failure is final)
        later = [t for t in graph.reachable(bs, efilter=graph.normal_only, stop=[y for y in g.nodes if y.kind == 'stmt' and isinstance(y.ast, ast.Return)]) if t.kind == 'test' and t is not n]
        rep.ob('C06.R9', ctx.loc(f, e), what, ok and not later,
               'a failed comparison returns False at once' if ok and not later else
               'when this comparison fails the matcher %s: a got that lacks the piece is still accepted' %
               ('goes on' if later else 'can return %s' % sorted({ctx.src(r_.ast) for r_ in rets})), anchor=EM)
        if isinstance(e, ast.Call):
            arg = e.args[0] if e.args else None
            facts = graph.guard_facts(dom, n)
            under_empty = [fa for fa in facts if isinstance(arg, ast.Name) and ((is_name(fa.expr, arg.id) and fa.polarity is False))]
            rep.ob('C06.R9', ctx.loc(f, e), '%s is compared whenever it is non-empty' % ctx.src(arg) if arg is not None else what, not under_empty,
                   'not placed under an "is empty" test' if not under_empty else
                   'the anchored comparison is only made when `%s` is EMPTY (%s): a non-empty %s is never compared, so `a...b` matches `xb`' % (ctx.src(arg), fmt_facts(under_empty), 'prefix' if e.func.attr == 'startswith' else 'suffix'),
                   anchor=EM)


# ---------------------------------------------------------------------------
from ..selftest import fire, silent      # noqa: E402

CK = 'xdoctest/checker.py'
VARIANTS = [
    silent('scan-extracted-into-a-helper', (CK, "    for w in ws:\n        # w may be '' at times, if there are consecutive ellipses, or\n        # due to an ellipsis at the start or end of `want`.  That's OK.\n        # Search for an empty string succeeds, and doesn't change startpos.\n        startpos = got.find(w, startpos, endpos)\n        if startpos < 0:\n            return False\n        startpos += len(w)\n\n    return True\n", '    return _find_pieces_in_order(got, ws, startpos, endpos)\n\n\ndef _find_pieces_in_order(got, pieces, startpos, endpos):\n    for piece in pieces:\n        startpos = got.find(piece, startpos, endpos)\n        if startpos < 0:\n            return False\n        startpos += len(piece)\n    return True\n')),
    fire('scan-extracted-into-a-helper-that-lost-the-end-bound', 'C06.R3', (CK, "    for w in ws:\n        # w may be '' at times, if there are consecutive ellipses, or\n        # due to an ellipsis at the start or end of `want`.  That's OK.\n        # Search for an empty string succeeds, and doesn't change startpos.\n        startpos = got.find(w, startpos, endpos)\n        if startpos < 0:\n            return False\n        startpos += len(w)\n\n    return True\n", '    return _find_pieces_in_order(got, ws, startpos, endpos)\n\n\ndef _find_pieces_in_order(got, pieces, startpos, endpos):\n    for piece in pieces:\n        startpos = got.find(piece, startpos)\n        if startpos < 0:\n            return False\n        startpos += len(piece)\n    return True\n')),
    fire('prefix-compared-only-when-empty', 'C06.R9', (CK, "    w = ws[0]\n    if w:   # starts with exact match\n", "    w = ws[0]\n    if not w:   # starts with exact match\n")),
    fire('missing-piece-accepted', 'C06.R9', (CK, "        if startpos < 0:\n            return False\n", "        if startpos < 0:\n            return True\n")),
    fire('suffix-mismatch-ignored', 'C06.R9', (CK, "            del ws[-1]\n        else:\n            return False\n", "            del ws[-1]\n")),
    fire('scan-skips-the-first-middle-piece', 'C06.R3', (CK, "    for w in ws:\n", "    for w in ws[1:]:\n")),
    fire('M3-scan-without-end-bound', 'C06.R3', (CK, "        startpos = got.find(w, startpos, endpos)\n", "        startpos = got.find(w, startpos)\n")),
    fire('scan-from-zero', 'C06.R3', (CK, "        startpos = got.find(w, startpos, endpos)\n", "        startpos = got.find(w, 0, endpos)\n")),
    fire('suffix-not-reserved', 'C06.R3', (CK, "            endpos -= len(w)\n", "            pass\n")),
    fire('overlap-guard-dropped', 'C06.R3', (CK, "    if startpos > endpos:\n", "    if False:\n")),
    fire('piece-not-skipped', 'C06.R3', (CK, "        startpos += len(w)\n\n    return True\n", "        pass\n\n    return True\n")),
    fire('missing-prefix-accepted', 'C06.R3', (CK, "            startpos = len(w)\n            del ws[0]\n        else:\n            return False\n", "            startpos = len(w)\n            del ws[0]\n        else:\n            del ws[0]\n")),
    fire('ellipsis-used-in-normalize', 'C06.R1', (CK, "            if not _check_match(a, b, runstate):\n", "            if not (_check_match(a, b, runstate) or _ellipsis_match(a, b)):\n")),
    fire('ellipsis-flag-ignored', 'C06.R1', (CK, "    if runstate['ELLIPSIS']:\n        if _ellipsis_match(got, want):\n", "    if runstate['ELLIPSIS'] or True:\n        if _ellipsis_match(got, want):\n")),
    fire('no-marker-startswith', 'C06.R2', (CK, "    if ELLIPSIS_MARKER not in want:\n        return want == got\n", "    if ELLIPSIS_MARKER not in want:\n        return got.startswith(want)\n")),
    fire('no-marker-test-dropped', 'C06.R2', (CK, "    if ELLIPSIS_MARKER not in want:\n        return want == got\n", "")),
    fire('marker-not-escaped', 'C06.R4', (CK, "    ws = re.split(r'\\s*{}\\s*'.format(re.escape(ELLIPSIS_MARKER)), want,\n", "    ws = re.split(r'\\s*{}\\s*'.format(ELLIPSIS_MARKER), want,\n")),
    fire('split-absorbs-punctuation', 'C06.R4', (CK, "    ws = re.split(r'\\s*{}\\s*'.format(re.escape(ELLIPSIS_MARKER)), want,\n", "    ws = re.split(r'\\W*{}\\W*'.format(re.escape(ELLIPSIS_MARKER)), want,\n")),
    fire('flags-in-maxsplit-slot', 'C06.R4', (CK, "                  flags=re.MULTILINE)\n    assert len(ws) >= 2\n", "                  re.MULTILINE)\n    assert len(ws) >= 2\n")),
    fire('lone-ellipsis-fast-path', 'C06.R5', (CK, "        if got == want:\n            return True\n\n        if runstate is None:\n", "        if got == want:\n            return True\n\n        if want.strip() == ELLIPSIS_MARKER:\n            return True\n\n        if runstate is None:\n")),
    silent('bounds-via-slice', (CK, "        startpos = got.find(w, startpos, endpos)\n", "        startpos = got.find(w, startpos, endpos) if w else startpos\n")),
    silent('overlap-guard-rephrased', (CK, "    if startpos > endpos:\n", "    if endpos < startpos:\n")),
    silent('marker-test-positive-form', (CK, "    if ELLIPSIS_MARKER not in want:\n        return want == got\n", "    if not (ELLIPSIS_MARKER in want):\n        return got == want\n")),
]
