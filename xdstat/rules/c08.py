"""
C08 -- reported line numbers point at the real lines of the source file
(the arithmetic is decided; its inputs are trusted).
"""
import ast
import re

from ..context import need
from ..loader import AnalysisError
from .. import graph, consts
from ..affine import Aff, Evaluator, parse_spec, paths_to
from ..roles import run_roles, RUN, node_calls
from ..dataflow import field_name
from ..resolve import walk_scope
from .common import fmt_facts, is_name

EXPLANATION = (
    'R1 AFFINE: every line-number sum is evaluated in the domain of linear forms over symbolic file lines (Ls docstring start, Ld doctest '
    'start, Lt google tag line, Lp / Lw / Lx first source line, first want line and executed line of a part, E0 / N end line and newline '
    'count of a docstring literal), with the inputs bound to the denotations their own documentation gives; the resulting form must equal '
    'the specified one per branch: failing line for got/want, got-extraction and generic failures, failed_lineno, google body line, freeform '
    'regrouping, part offsets in the chunk packager, displayed traceback line, docstring start recovery. Any dropped / added +-1, swapped '
    'operand or wrong attribute changes the form. R2 the failing line is taken from the first traceback frame whose file is the part file '
    '(the store is edge-dominated by the filename comparison and the traversal stops there; the traversal yields the outermost frame first). '
    'R3 the predicate that recognises the opening line of a docstring is evaluated on the finite domain {legal string prefixes} x {triple quotes} '
    'and must accept every combination; the def-line pattern must accept `def` and `async def`. That the inputs (AST line numbers, traceback '
    'contents) are right for every layout is not decided; loop-carried sums are outside the evaluator.'
    " R3b REGEX-FACT on the folded trailing-comment pattern of both docstring locators (12 samples). R6 values of failed_line_offset()/failed_lineno() are never tested for truth (0 is a line). R7 the failing line of a compile error is the `lineno` attribute. R8 every split of the docstring in split_google_docblocks is at '\\n' only.")
DECIDES = ['AFFINE line arithmetic (per branch)', 'first doctest frame wins', 'finite evaluation of the docstring-prefix / def-line predicates']
NOT_DECIDED = ['correctness of ast line numbers and traceback contents for every layout', 'loop-carried offsets (curr_offset, _package_groups.lineno, split_google_docblocks line_offset)']

DT = 'xdoctest.doctest_example.DocTest'
LEGAL_PREFIXES = ['', 'r', 'R', 'u', 'U']


def run(ctx):
    for fn in (r1_failed_line_offset, r1_failed_lineno, r1_google_body_line, r1_freeform_regroup, r1_slice_example,
               r1_overwrite_lineno, r1_docstring_start, r2_first_frame, r3_docstring_prefixes, r3b_trailing_comment_pattern, r3_def_line_pattern, r4_freeform_offset, r5_exec_lines_are_physical_lines, r6_zero_is_a_line_offset, r7_compile_error_line, r8_google_block_offsets_count_newlines, r9_failing_line_recorded_with_the_failure):
        ctx.rep.rule(fn, ctx)


def _returns(ctx, q, deno):
    f = ctx.func(q)
    g = ctx.cfg(f)
    ev = Evaluator(deno)
    rets = [n for n in g.nodes if n.kind == 'stmt' and isinstance(n.ast, ast.Return) and not n.dup]
    out = []
    for (n, branches, env) in paths_to(g, rets, ev):
        val = ev.aeval(n.ast.value, env) if n.ast.value is not None else None
        out.append((n, branches, env, val))
    return f, g, ev, out


def _branch_facts(branches):
    facts = []
    for b in branches:
        t = b.attrs['test']
        expr = t.ast if t.kind == 'test' else t.ast.iter
        facts += graph.facts_of(expr, b.attrs['polarity'], b)
    return facts


# ---------------------------------------------------------------------------
DENO_DOCTEST = {
    'self.lineno': 'Ld',
    'self.failed_part.line_offset': 'Lp - Ld',
    'self.failed_part.n_exec_lines': 'Lw - Lp',
    'self.failed_tb_lineno': 'Lx - Lp + 1',
}


def r1_failed_line_offset(ctx):
    rep = ctx.rep
    q = DT + '.failed_line_offset'
    f, g, ev, rets = _returns(ctx, q, DENO_DOCTEST)
    rd = ctx.rd(f)
    classes = {'GotWantException': 'Lw - Ld', 'ExtractGotReprException': 'Lw - 1 - Ld', 'ExistingEventLoopError': 'Lw - 1 - Ld'}
    seen = {}
    generic = []
    for (n, branches, env, val) in rets:
        facts = _branch_facts(branches)
        if any(isinstance(fa.expr, ast.Compare) and 'exc_info' in fa.text and isinstance(fa.expr.ops[0], ast.Is) and fa.polarity is True for fa in facts):
            continue        # no failure recorded -> None
        if any(isinstance(fa.expr, ast.Compare) and "'<IMPORT>'" in fa.text and fa.polarity is True for fa in facts):
            rep.ob('C08.R1', ctx.loc(f, n.ast), 'failed_line_offset | import failure', val == Aff.const(0),
                   'offset %r (the doctest start)' % val, nontrivial=False, anchor=q)
            continue
        pos = []
        for fa in facts:
            if isinstance(fa.expr, ast.Call) and is_name(fa.expr.func, 'isinstance') and fa.polarity is True and len(fa.expr.args) == 2:
                cls_expr = fa.expr.args[1]
                if isinstance(cls_expr, ast.Name):
                    # a tuple of classes held in a local
                    ds = [d for d in rd.defs_of(cls_expr.id) if isinstance(d.value, ast.AST)]
                    if len(ds) == 1:
                        cls_expr = ds[0].value
                names = {x.attr if isinstance(x, ast.Attribute) else x.id for x in ast.walk(cls_expr) if isinstance(x, (ast.Attribute, ast.Name))}
                pos += [c for c in classes if c in names]
        if pos:
            for c in pos:
                seen.setdefault(c, []).append((n, val))
        else:
            generic.append((n, val))
    for c, spec in classes.items():
        spec_a = parse_spec(spec)
        got = seen.get(c)
        if not got:
            # the class takes the generic path
            vals = {repr(v) for (_, v) in generic}
            rep.ob('C08.R1', ctx.loc(f, f.node), 'failed_line_offset | %s' % c, False,
                   '%s is not distinguished: its offset is computed like a generic exception (%s) instead of %s' % (c, sorted(vals), spec_a), anchor=q)
            continue
        for (n, val) in got:
            rep.ob('C08.R1', ctx.loc(f, n.ast), 'failed_line_offset | %s' % c, val == spec_a,
                   'offset = %r (specified %r)' % (val, spec_a) if val == spec_a else
                   'the failing line offset for %s evaluates to %r but must be %r (%s)' % (c, val, spec_a,
                   'first line of the want' if c == 'GotWantException' else 'the line that produced the value'), anchor=q)
    need(generic, 'C08.R1: no generic-exception path in failed_line_offset')
    spec_a = parse_spec('Lx - Ld')
    for (n, val) in generic:
        rep.ob('C08.R1', ctx.loc(f, n.ast), 'failed_line_offset | other exceptions', val == spec_a,
               'offset = %r (specified %r)' % (val, spec_a) if val == spec_a else 'the failing line offset for a raising statement evaluates to %r but must be %r' % (val, spec_a), anchor=q)


def r1_failed_lineno(ctx):
    rep = ctx.rep
    q = DT + '.failed_lineno'
    deno = dict(DENO_DOCTEST)
    deno['self.failed_line_offset()'] = 'FLO'
    f, g, ev, rets = _returns(ctx, q, deno)
    spec_a = parse_spec('Ld + FLO')
    n_ok = 0
    for (n, branches, env, val) in rets:
        if isinstance(n.ast.value, ast.Constant) and n.ast.value.value is None:
            continue
        n_ok += 1
        rep.ob('C08.R1', ctx.loc(f, n.ast), 'failed_lineno', val == spec_a,
               'lineno = %r' % val if val == spec_a else 'failed_lineno evaluates to %r but must be %r' % (val, spec_a), anchor=q)
    rep.floor('C08.R1', 'non-None returns of failed_lineno', n_ok, 1)


def _ctor_kw(ctx, f, g, ev, class_q, kw, pos=None):
    """[(node, call, Aff)] value of a keyword (or positional) argument of constructor calls"""
    targets = []
    for n in g.nodes:
        if n.dup:
            continue
        for c in node_calls(n):
            r = ctx.res.resolve_call(f, c)
            if r[0] == 'class' and r[1].qualname == class_q:
                targets.append((n, c))
    out = []
    for (n, branches, env) in paths_to(g, [n for (n, _) in targets], ev):
        for (tn, c) in targets:
            if tn is n:
                e = None
                for k in c.keywords:
                    if k.arg == kw:
                        e = k.value
                if e is None and pos is not None and len(c.args) > pos:
                    e = c.args[pos]
                out.append((n, c, ev.aeval(e, env) if e is not None else None))
    return out


def r1_google_body_line(ctx):
    rep = ctx.rep
    q = 'xdoctest.core.parse_google_docstr_examples'
    f = ctx.func(q)
    g = ctx.cfg(f)
    ev = Evaluator({'lineno': 'Ls', 'offset': 'Lt - Ls'})
    res = _ctor_kw(ctx, f, g, ev, DT, 'lineno', 4)
    rep.floor('C08.R1', 'DocTest constructions in the google parser', len(res), 1)
    spec_a = parse_spec('Lt + 1')
    for (n, c, val) in res:
        rep.ob('C08.R1', ctx.loc(f, c), 'google: DocTest.lineno', val == spec_a,
               'lineno = %r (the line after the block tag)' % val if val == spec_a else 'the google example line evaluates to %r but must be %r' % (val, spec_a), anchor=q)


def r1_freeform_regroup(ctx):
    rep = ctx.rep
    # found by role: the function of core.py that builds a DocTest and rebases the line offsets of the parts it is given
    cands = [fn for fn in ctx.prog.funcs.values() if fn.module.name == 'xdoctest.core'
             and any(isinstance(x, (ast.AugAssign, ast.Assign)) and any(isinstance(t, ast.Attribute) and t.attr == 'line_offset' and isinstance(t.ctx, ast.Store)
                     for t in ([x.target] if isinstance(x, ast.AugAssign) else x.targets)) for x in walk_scope(fn.node))
             and any(isinstance(c, ast.Call) and ctx.res.resolve_call(fn, c)[0] == 'class' and ctx.res.resolve_call(fn, c)[1].qualname == DT for c in walk_scope(fn.node))]
    if len(cands) != 1:
        raise AnalysisError('anchor function vanished: the freeform regrouper of xdoctest.core (builds a DocTest and rebases part offsets) was not found uniquely (%d candidates)' % len(cands))
    f = cands[0]
    q = f.qualname
    g = ctx.cfg(f)
    ev = Evaluator({'lineno': 'Ls', 'curr_offset': 'Ld - Ls', 'parts[0].line_offset': 'Ld - Ls', 'p.line_offset': 'Lp - Ls'})
    res = _ctor_kw(ctx, f, g, ev, DT, 'lineno', 4)
    rep.floor('C08.R1', 'DocTest constructions in the freeform regrouper', len(res), 1)
    spec_a = parse_spec('Ld')
    for (n, c, val) in res:
        rep.ob('C08.R1', ctx.loc(f, c), 'freeform: DocTest.lineno', val == spec_a,
               'lineno = %r' % val if val == spec_a else 'the freeform example line evaluates to %r but must be %r' % (val, spec_a), anchor=q)
    augs = [n for n in g.nodes if n.kind == 'stmt' and isinstance(n.ast, (ast.AugAssign, ast.Assign)) and not n.dup and
            any(isinstance(t, ast.Attribute) and t.attr == 'line_offset' for t in ([n.ast.target] if isinstance(n.ast, ast.AugAssign) else n.ast.targets))]
    rep.floor('C08.R1', 'part offset rebasing in the freeform regrouper', len(augs), 1)
    spec_p = parse_spec('Lp - Ld')
    for (n, branches, env) in paths_to(g, augs, ev):
        env2 = ev.step(n, env)
        key = ' '.join(ast.unparse(n.ast.target if isinstance(n.ast, ast.AugAssign) else n.ast.targets[0]).split())
        val = env2.get(key)
        rep.ob('C08.R1', ctx.loc(f, n.ast), 'freeform: ' + ctx.src(n.ast), val == spec_p,
               'part offset becomes %r (relative to the doctest start)' % val if val == spec_p else 'the rebased part offset evaluates to %r but must be %r' % (val, spec_p), anchor=q)


def r1_slice_example(ctx):
    rep = ctx.rep
    q = 'xdoctest.parser.DoctestParser._package_chunk.slice_example'
    f = ctx.func(q)
    g = ctx.cfg(f)
    ev = Evaluator({'lineno': 'C', 's1': 'S1'})
    res = _ctor_kw(ctx, f, g, ev, 'xdoctest.doctest_part.DoctestPart', 'line_offset', 2)
    rep.floor('C08.R1', 'DoctestPart constructions in slice_example', len(res), 1)
    spec_a = parse_spec('C + S1')
    for (n, c, val) in res:
        rep.ob('C08.R1', ctx.loc(f, c), 'part line_offset', val == spec_a,
               'line_offset = %r (chunk start + first line of the slice)' % val if val == spec_a else 'the part offset evaluates to %r but must be %r' % (val, spec_a), anchor=q)
    # the slices use the same s1
    sl = [x for x in ast.walk(f.node) if isinstance(x, ast.Subscript) and isinstance(x.slice, ast.Slice)]
    ok = bool(sl) and all(is_name(x.slice.lower, 's1') and is_name(x.slice.upper, 's2') for x in sl)
    rep.ob('C08.R1', ctx.loc(f, f.node), 'exec and orig lines sliced by the same [s1:s2]', ok, 'slices: %s' % [ctx.src(x) for x in sl], nontrivial=False, anchor=q)


def r1_overwrite_lineno(ctx):
    rep = ctx.rep
    top = ctx.func(DT + '.repr_failure')
    cand = [fn for fn in ctx.prog.funcs.values() if fn.qualname.startswith(top.qualname + '.') and
            any(isinstance(x, ast.Name) and x.id in ('rel_lineno', 'abs_lineno') for x in ast.walk(fn.node)) and not fn.nested]
    need(cand, 'C08.R1: traceback line rewriting helper not found in repr_failure')
    f = cand[0]
    g = ctx.cfg(f)
    deno = dict(DENO_DOCTEST)
    deno['tb_lineno'] = 'Lx - Lp + 1'
    ev = Evaluator(deno)
    rets = [n for n in g.nodes if n.kind == 'stmt' and isinstance(n.ast, ast.Return)]
    # the values handed to the format call
    # the values displayed as "rel: <n>, abs: <m>": keyword arguments of a .format call, or the fields of an f-string
    shown = []       # (host ast node, label, value expr)
    for c in ast.walk(f.node):
        if isinstance(c, ast.Call) and isinstance(c.func, ast.Attribute) and c.func.attr == 'format' and {k.arg for k in c.keywords} >= {'rel', 'abs'}:
            for k in c.keywords:
                if k.arg in ('rel', 'abs'):
                    shown.append((c, k.arg, k.value))
        if isinstance(c, ast.JoinedStr):
            label = None
            for v in c.values:
                if isinstance(v, ast.Constant) and isinstance(v.value, str):
                    t = v.value.rstrip()
                    label = 'rel' if t.endswith('rel:') else ('abs' if t.endswith('abs:') else None)
                elif isinstance(v, ast.FormattedValue) and label is not None:
                    shown.append((c, label, v.value))
                    label = None
    need({lb for (_, lb, _) in shown} >= {'rel', 'abs'}, 'C08.R1: "rel: {rel}, abs: {abs}" formatting not found')
    for (c, label, vexpr) in shown:
        nodes = [n for n in g.nodes_containing(c) if not n.dup]
        for (n, branches, env) in paths_to(g, nodes, ev):
            val = ev.aeval(vexpr, env)
            spec_a = parse_spec('Lx - Ld + 1' if label == 'rel' else 'Lx')
            rep.ob('C08.R1', ctx.loc(f, c), 'displayed traceback line (%s)' % label, val == spec_a,
                   '%s = %r' % (label, val) if val == spec_a else 'the displayed %s line evaluates to %r but must be %r' % (label, val, spec_a), anchor=f.qualname)
    # every traceback entry that lies in the doctest is rewritten with ITS OWN line: the number comes from the entry being rewritten, not from the
    # one number recorded for the failure as a whole (which is None for some failures, and the line of another frame for the rest)
    rdw = ctx.rd(f)
    for (c, label, vexpr) in shown:
        if label != 'rel':
            continue
        seen_, work_, uses_fixed = set(), [vexpr], False
        while work_:
            e_ = work_.pop()
            for x in ast.walk(e_):
                if isinstance(x, ast.Attribute) and x.attr == 'failed_tb_lineno':
                    uses_fixed = True
                if isinstance(x, ast.Name) and x.id not in seen_:
                    seen_.add(x.id)
                    work_ += [d.value for d in rdw.defs_of(x.id) if isinstance(d.value, ast.AST)]
        rep.ob('C08.R1', ctx.loc(f, c), 'the displayed line comes from the traceback entry that is rewritten', not uses_fixed,
               'computed from the line number of the entry itself' if not uses_fixed else
               'the displayed line is computed from self.failed_tb_lineno, the one number recorded for the whole failure: every doctest frame of the traceback is shown at the line of the '
               'outermost one, and for failures without a traceback line (failed_tb_lineno is None) rendering the report raises TypeError', anchor=f.qualname)


def r1_docstring_start(ctx):
    rep = ctx.rep
    V = 'xdoctest.static_analysis.TopLevelVisitor'
    q = V + '._find_docstr_startpos_workaround'
    f = ctx.func(q)
    g = ctx.cfg(f)
    ev = Evaluator({'endpos': 'E0', "docstr.count('\\n')": 'N'})
    stores = [n for n in g.nodes if n.kind == 'stmt' and isinstance(n.ast, ast.Assign) and not n.dup and any(is_name(t, 'start') for t in n.ast.targets)]
    dom = ctx.dom(g, g.entry)
    n_multi = 0
    for (n, branches, env) in paths_to(g, stores, ev):
        facts = _branch_facts(branches)
        multi = any(isinstance(fa.expr, ast.Call) and isinstance(fa.expr.func, ast.Attribute) and fa.expr.func.attr == 'startswith' and fa.polarity is True for fa in facts)
        # the fallback of a search that found nothing (`if start is None: start = ...`) is not the triple-quoted computation
        fallback = any(isinstance(fa.expr, ast.Compare) and len(fa.expr.ops) == 1 and isinstance(fa.expr.ops[0], ast.Is) and is_name(fa.expr.left, 'start') and
                       isinstance(fa.expr.comparators[0], ast.Constant) and fa.expr.comparators[0].value is None and fa.polarity is True for fa in facts)
        if multi and not fallback:
            n_multi += 1
            val = ev.aeval(n.ast.value, env)
            spec_a = parse_spec('E0 - N')
            rep.ob('C08.R1', ctx.loc(f, n.ast), 'docstring start (triple quoted): ' + ctx.src(n.ast), val == spec_a,
                   'start0 = %r (end line minus the number of newlines)' % val if val == spec_a else 'the recovered docstring start evaluates to %r but must be %r' % (val, spec_a), anchor=q)
    rep.floor('C08.R1', 'triple-quoted start computations', n_multi, 1)
    # _docnode_line_workaround: doclineno = start + 1
    q2 = V + '._docnode_line_workaround'
    f2 = ctx.func(q2)
    g2 = ctx.cfg(f2)
    ev2 = Evaluator({'unpack:start': 'START0', 'unpack:stop': 'STOP0'})
    rets = [n for n in g2.nodes if n.kind == 'stmt' and isinstance(n.ast, ast.Return) and not n.dup]
    n_r = 0
    for (n, branches, env) in paths_to(g2, rets, ev2):
        v = n.ast.value
        if isinstance(v, ast.Tuple) and len(v.elts) == 2:
            val = ev2.aeval(v.elts[0], env)
            n_r += 1
            spec_a = parse_spec('START0 + 1')
            rep.ob('C08.R1', ctx.loc(f2, n.ast), 'doclineno (1-based)', val == spec_a,
                   'doclineno = %r' % val if val == spec_a else 'doclineno evaluates to %r but must be %r (0-based start + 1)' % (val, spec_a), anchor=q2)
    rep.floor('C08.R1', 'returns of _docnode_line_workaround', n_r, 1)


# ---------------------------------------------------------------------------
def r2_first_frame(ctx, rule='C08.R2'):
    rr = run_roles(ctx)
    rep = ctx.rep
    TT = 'xdoctest.doctest_example._traverse_traceback'
    # hosts: functions that walk a traceback with _traverse_traceback -- RUN itself, or a helper RUN calls (inlining bound 1)
    hosts = []
    for h in ctx.prog.funcs.values():
        if h.module.name != 'xdoctest.doctest_example' or h.qualname == TT:
            continue
        gh = ctx.cfg(h) if h is not rr.f else rr.g
        for n in gh.nodes:
            if n.kind == 'for' and not n.dup and isinstance(n.ast.iter, ast.Call):
                r = ctx.res.resolve_call(h, n.ast.iter)
                if r[0] == 'repo' and r[1][0].qualname == TT:
                    hosts.append((h, gh, n))
    # idiom-independent: whatever way the frame is found, what RUN stores as the failing traceback line must not be a frame's f_lineno
    for n in rr.g.nodes:
        if n.kind == 'stmt' and not n.dup and isinstance(n.ast, ast.Assign) and rr.in_loop(n) and any(field_name(t, 'self') == 'self.failed_tb_lineno' for t in n.ast.targets):
            srcs = [n.ast.value]
            if isinstance(n.ast.value, ast.Name):
                srcs = [d.value for d in rr.rd.at(n, n.ast.value.id) if isinstance(d.value, ast.AST)]
            for v in srcs:
                if any(isinstance(x, ast.Attribute) and x.attr == 'f_lineno' for x in ast.walk(v)):
                    rep.ob(rule, ctx.loc(rr.f, n.ast), ctx.src(n.ast), False,
                           'the failing line is a frame\'s f_lineno: that is the line the frame executed LAST (a finally body, the re-raise), not the line the exception passed through '
                           '(the traceback entry\'s tb_lineno)', anchor=RUN)
    if not hosts:
        walkers = [c for c in ast.walk(rr.f.module.tree) if isinstance(c, ast.Call) and ast.unparse(c.func) in ('traceback.walk_tb', 'walk_tb')]
        need(not walkers, 'C08.R2: the traceback is walked with traceback.walk_tb: idiom not recognised')
    rep.floor(rule, 'traversals of a traceback', len(hosts), 1)
    for (h, gh, head) in hosts:
        anchor = h.qualname
        domh = ctx.dom(gh, gh.entry)
        rdh = ctx.rd(h) if h is not rr.f else rr.rd
        need(isinstance(head.ast.target, ast.Name), 'C08.R2: traversal loop target is not a name')
        entry_var = head.ast.target.id
        in_loop = [n for n in gh.nodes if graph.in_loop_body(n, head.ast) and not n.dup]
        # which value leaves the loop as "the line": stores inside the loop to a plain local
        stores = [n for n in in_loop if n.kind == 'stmt' and isinstance(n.ast, ast.Assign) and isinstance(n.ast.targets[0], ast.Name) and
                  any(isinstance(x, ast.Attribute) and x.attr in ('tb_lineno', 'f_lineno', 'co_firstlineno') for x in ast.walk(n.ast.value))]
        if not stores:
            rep.ob(rule, ctx.loc(h, head.ast), 'the traversal records a line number', False, 'no line number is taken from the traceback entries', anchor=anchor)
            continue
        # the file the frames are compared with: self._partfilename in RUN, or a parameter bound to it at the call site
        def is_part_file(e):
            if field_name(e, 'self') == 'self._partfilename' and h is rr.f:
                return True
            if isinstance(e, ast.Name) and h is not rr.f and e.id in [a.arg for a in h.node.args.args]:
                i = [a.arg for a in h.node.args.args].index(e.id) - (1 if h.cls is not None else 0)
                for (n2, c2, r2) in rr.calls:
                    if r2[0] == 'repo' and any(x is h for x in r2[1]):
                        arg = c2.args[i] if 0 <= i < len(c2.args) else next((k.value for k in c2.keywords if k.arg == e.id), None)
                        if arg is None or field_name(arg, 'self') != 'self._partfilename':
                            return False
                return any(r2[0] == 'repo' and any(x is h for x in r2[1]) for (_, _, r2) in rr.calls)
            return False
        for n in stores:
            v = n.ast.value
            okv = isinstance(v, ast.Attribute) and v.attr == 'tb_lineno' and is_name(v.value, entry_var)
            rep.ob(rule, ctx.loc(h, n.ast), 'line source: ' + ctx.src(n.ast), okv,
                   'tb_lineno of the traversed entry (the line the exception passed through in that frame)' if okv else
                   'the failing line is not the tb_lineno of the traceback entry: a frame\'s f_lineno is the line that frame executed LAST (a finally body, the re-raise), '
                   'not the line the exception passed through', anchor=anchor)
            facts = graph.guard_facts(domh, n)
            ok = False
            for fa in facts:
                e = fa.expr
                if isinstance(e, ast.Compare) and len(e.ops) == 1 and isinstance(e.ops[0], ast.Eq) and fa.polarity is True:
                    if any(is_part_file(s_) for s_ in (e.left, e.comparators[0])):
                        ok = True
            rep.ob(rule, ctx.loc(h, n.ast), ctx.src(n.ast), ok,
                   'the line is taken only from a frame whose file is the part file' if ok else 'the failing line can be taken from a frame that is not doctest code (guards: %s)' % fmt_facts(facts), anchor=anchor)
            p = graph.path(n.nsucc(), lambda x: x is head, efilter=graph.normal_only)
            rep.ob(rule, ctx.loc(h, n.ast), 'traversal stops at the first matching frame', p is None,
                   'no path leads from the store back to the traversal loop: the outermost doctest frame wins' if p is None else
                   'the traversal continues after a matching frame: the innermost doctest frame (a helper defined earlier) wins and the reported line is wrong',
                   anchor=anchor)
    # _traverse_traceback yields its argument first
    ft = ctx.func('xdoctest.doctest_example._traverse_traceback')
    gt = ctx.cfg(ft)
    rdt = ctx.rd(ft)
    param = ft.node.args.args[0].arg
    first = graph.path([gt.entry], lambda x: x.kind == 'stmt' and any(isinstance(y, ast.Yield) for y in ast.walk(x.ast)), efilter=graph.normal_only)
    need(first is not None, 'C08.R2: _traverse_traceback has no yield')
    yn = first[-1]
    yv = [y for y in ast.walk(yn.ast) if isinstance(y, ast.Yield)][0].value

    def from_param(node, e, depth=3):
        if is_name(e, param) and all(d.kind == 'param' for d in rdt.at(node, param)):
            return True
        if isinstance(e, ast.Name) and depth > 0:
            defs = rdt.at(node, e.id)
            return bool(defs) and all(isinstance(d.value, ast.AST) and d.kind == 'assign' and from_param(d.node, d.value, depth - 1) for d in defs)
        return False
    domt = ctx.dom(gt, gt.entry)
    all_y = [n for n in gt.nodes if n.kind == 'stmt' and any(isinstance(y, ast.Yield) for y in ast.walk(n.ast))]
    ok = from_param(yn, yv) and all(domt.dominates(yn, y) for y in all_y)
    rep.ob(rule, ctx.loc(ft, yn.ast), ctx.src(yn.ast), ok,
           'the traversal yields the outermost traceback entry before following tb_next' if ok else 'the traversal does not start with the outermost entry', anchor=ft.qualname)


# ---------------------------------------------------------------------------
def _eval_prefix_predicate(ctx, f, test_call, env):
    """evaluate `<recv-chain>.startswith(<tuple>)` on text; returns a python callable or None"""
    fold = consts.Folder(ctx.prog)
    if not (isinstance(test_call, ast.Call) and isinstance(test_call.func, ast.Attribute) and test_call.func.attr == 'startswith' and len(test_call.args) == 1):
        return None
    arg = test_call.args[0]
    if isinstance(arg, ast.Name) and arg.id not in env:
        # a local name for the tuple of openers: one definition in this function
        ds = [x for x in walk_scope(f.node) if isinstance(x, ast.Assign) and len(x.targets) == 1 and is_name(x.targets[0], arg.id)]
        others = [x for x in walk_scope(f.node) if isinstance(x, (ast.AugAssign, ast.For, ast.NamedExpr)) and
                  any(isinstance(y, ast.Name) and y.id == arg.id and isinstance(y.ctx, ast.Store) for y in ast.walk(x.target))]
        if len(ds) == 1 and not others:
            arg = ds[0].value
    try:
        prefixes = fold.fold(f.module, arg, env, f)
    except consts.NotConstant:
        return None
    if isinstance(prefixes, str):
        prefixes = (prefixes,)
    chain = []
    cur = test_call.func.value
    while isinstance(cur, ast.Call) and isinstance(cur.func, ast.Attribute) and cur.func.attr in ('strip', 'lstrip', 'lower', 'upper', 'casefold') and not cur.args:
        chain.append(cur.func.attr)
        cur = cur.func.value
    if not isinstance(cur, ast.Name):
        return None

    def pred(text):
        for m in reversed(chain):
            text = getattr(text, m)()
        return text.startswith(tuple(prefixes))
    return pred


def r3_docstring_prefixes(ctx):
    rep = ctx.rep
    V = 'xdoctest.static_analysis.TopLevelVisitor'
    fold = consts.Folder(ctx.prog)
    for name in ('_find_docstr_startpos_workaround', '_find_docstr_endpos_workaround'):
        f = ctx.func(V + '.' + name)
        # the loop over the triple quotes
        loops = [n for n in walk_scope(f.node) if isinstance(n, ast.For) and isinstance(n.target, ast.Name)]
        found = False
        for lp in loops:
            try:
                trips = fold.fold(f.module, lp.iter, None, f)
            except consts.NotConstant:
                continue
            if not (isinstance(trips, (tuple, list)) and set(trips) == {"'''", '"""'}):
                continue
            tests = [n.test for n in ast.walk(lp) if isinstance(n, ast.If) and isinstance(n.test, ast.Call) and isinstance(n.test.func, ast.Attribute) and n.test.func.attr == 'startswith']
            tests = [t for t in tests if any(isinstance(x, ast.Name) and 'start' in x.id for x in ast.walk(t.func.value))]
            for t in tests:
                found = True
                rejected = []
                for trip in trips:
                    pred = _eval_prefix_predicate(ctx, f, t, {lp.target.id: trip})
                    need(pred is not None, 'C08.R3: unrecognised docstring-start predicate `%s`' % ctx.src(t))
                    for p in LEGAL_PREFIXES:
                        if not pred('    ' + p + trip + 'Summary line'):
                            rejected.append(p + trip)
                rep.ob('C08.R3', ctx.loc(f, t), ctx.src(t), not rejected,
                       'accepts every legal docstring opening %s x triple quotes' % LEGAL_PREFIXES if not rejected else
                       'a docstring opened with %s is not recognised: its reported first line is the LAST line of the docstring, so every doctest line number in it is wrong' % rejected,
                       anchor=f.qualname)
        need(found, 'C08.R3: docstring-start predicate not found in %s' % name)


def r3_def_line_pattern(ctx):
    rep = ctx.rep
    q = 'xdoctest.static_analysis.TopLevelVisitor._workaround_func_lineno'
    f = ctx.func(q)
    fold = consts.Folder(ctx.prog)
    pats = []
    for n in walk_scope(f.node):
        if isinstance(n, ast.Assign) and len(n.targets) == 1 and isinstance(n.targets[0], ast.Name):
            v = n.value
            # pattern built as <const> + node.name
            if isinstance(v, ast.BinOp) and isinstance(v.op, ast.Add) and isinstance(v.right, ast.Attribute) and v.right.attr == 'name':
                try:
                    left = fold.fold(f.module, v.left, None, f)
                except consts.NotConstant:
                    continue
                if isinstance(left, str):
                    pats.append((n, left + 'NAME'))
    need(pats, 'C08.R3: def-line pattern not found in _workaround_func_lineno')
    uses_match = any(isinstance(c, ast.Call) and ast.unparse(c.func) == 're.match' for c in walk_scope(f.node))
    need(uses_match, 'C08.R3: def-line pattern is not applied with re.match')
    for (n, pat) in pats:
        rx = re.compile(pat)
        rejected = [s for s in ('def NAME(a, b):', '    def NAME():', 'async def NAME():', '    async def NAME(self):', '    async  def NAME(self):') if not rx.match(s)]
        accepted_wrong = [s for s in ('@decorator', '    @functools.wraps(NAME)', 'x = NAME()') if rx.match(s)]
        ok = not rejected and not accepted_wrong
        rep.ob('C08.R3', ctx.loc(f, n), ctx.src(n), ok,
               'the def-line pattern accepts `def` and `async def` lines and no decorator line' if ok else
               ('the def line of a decorated %s is not recognised: the search runs past it (wrong line or IndexError)' % rejected if rejected else 'decorator lines match the def-line pattern: %s' % accepted_wrong),
               anchor=q)


# ---------------------------------------------------------------------------
def r4_freeform_offset(ctx):
    """loop-carried offset of the freeform parser (default asone mode): until the first collected part, every
    consumed part adds its own number of lines; afterwards nothing is added.  Evaluated as a truth table over
    (part is text, part is ignored, nothing collected yet) by pruning the loop's tests."""
    from .common import BoolEval
    rep = ctx.rep
    q = 'xdoctest.core.parse_freeform_docstr_examples'
    f = ctx.func(q)
    g = ctx.cfg(f)
    rd = ctx.rd(f)
    heads = [n for n in g.nodes if n.kind == 'for' and not n.dup and not any(fr.kind == 'loop' for fr in n.frames) and is_name(n.ast.iter, 'all_parts')]
    need(len(heads) == 1, 'C08.R4: loop over all_parts not found')
    head = heads[0]
    part = head.ast.target.id
    entry, cut = graph.region_of_loop(g, head)
    incs = [n for n in g.nodes if not n.dup and n.kind == 'stmt' and isinstance(n.ast, ast.AugAssign) and is_name(n.ast.target, 'curr_offset') and graph.in_loop_body(n, head.ast)]
    apps = [n for n in g.nodes if not n.dup and graph.in_loop_body(n, head.ast) and any(isinstance(c.func, ast.Attribute) and c.func.attr == 'append' and is_name(c.func.value, 'curr_parts') for c in node_calls(n))]
    need(incs and apps, 'C08.R4: offset increments / part collection not found')

    def kind_of(n):
        v = n.ast.value
        txt = ' '.join(ast.unparse(v).split())
        if txt in ("%s.count('\\n') + 1" % part, "1 + %s.count('\\n')" % part):
            return 'text-lines'
        if txt == '%s.n_lines' % part:
            return 'code-lines'
        if txt.startswith('sum(') and 'n_lines' in txt:
            return 'sum-of-collected'
        return 'other:' + txt

    def atom_of(e):
        if isinstance(e, ast.Call) and is_name(e.func, 'isinstance') and len(e.args) == 2 and is_name(e.args[0], part) and is_name(e.args[1], 'str'):
            return ('S', True)
        if is_name(e, 'asone'):
            return ('A', True)
        if is_name(e, 'curr_parts'):
            return ('E', False)
        if isinstance(e, ast.BoolOp) and isinstance(e.op, ast.Or) and any(is_name(v, 'ignoring') for v in e.values):
            return ('I', True)
        return None
    be = BoolEval(atom_of)
    rows = []
    ok_all = True
    for S in (False, True):
        for I in (False, True):
            for E in (False, True):
                val = {'S': S, 'I': I, 'E': E, 'A': True}

                def ef(a, b, kind, tok, val=val):
                    if kind != 'n':
                        return False
                    if b.kind == 'branch' and b.attrs['test'].kind == 'test':
                        try:
                            if be.eval(b.attrs['test'].ast, val) != b.attrs['polarity']:
                                return False
                        except AnalysisError:
                            pass
                    return True
                reach = graph.reachable([entry], efilter=ef, stop=[head])
                hit = [kind_of(n) for n in incs if any(x is n for x in reach)]
                collected = any(any(x is a for x in reach) for a in apps)
                if S:
                    spec_inc = ['text-lines'] if E else []
                    spec_col = False
                elif I:
                    spec_inc = ['code-lines'] if E else []
                    spec_col = False
                else:
                    spec_inc = []
                    spec_col = True
                rows.append({'text': S, 'ignored': I, 'nothing_collected': E, 'increments': hit, 'collected': collected})
                if sorted(hit) != spec_inc or collected != spec_col:
                    ok_all = False
    rep.ob('C08.R4', ctx.loc(f, head.ast), 'freeform offset accumulation (asone)', ok_all,
           'before the first collected part every text part adds count("\\n") + 1 and every ignored part its n_lines; afterwards nothing is added (8 valuations)' if ok_all else
           'the offset of a freeform doctest is not the number of lines before its first part: %s' % rows, anchor=q)
    rep.note('freeform_offset_table', rows)
    init = [d for d in rd.defs_of('curr_offset') if isinstance(d.value, ast.Constant) and d.value.value == 0 and not d.node.frames]
    rep.ob('C08.R4', ctx.loc(f, init[0].node.ast if init else f.node), 'curr_offset = 0', bool(init), 'starts at the docstring start' if init else 'offset not initialised to 0', nontrivial=False, anchor=q)
    # the text part is the newline-join of its lines (so count + 1 is its number of lines)
    fp = ctx.func('xdoctest.parser.DoctestParser._package_groups')
    def is_nl_join(e):
        return isinstance(e, ast.Call) and isinstance(e.func, ast.Attribute) and e.func.attr == 'join' and isinstance(e.func.value, ast.Constant) and e.func.value.value == '\n'
    # what is yielded for a text group (directly or through a local) is a newline join
    ok = False
    rdp = ctx.rd(fp)
    gp = ctx.cfg(fp)
    for n in gp.nodes:
        if n.kind == 'stmt' and not n.dup:
            for y in ast.walk(n.ast):
                if isinstance(y, ast.Yield) and y.value is not None:
                    v = y.value
                    if is_nl_join(v):
                        ok = True
                    elif isinstance(v, ast.Name):
                        ds = rdp.at(n, v.id)
                        if ds and all(isinstance(d.value, ast.AST) and is_nl_join(d.value) for d in ds):
                            ok = True
    rep.ob('C08.R4', ctx.loc(fp, fp.node), "text part = '\\n'.join(lines)", ok, 'a text part of k lines contains k - 1 newlines' if ok else 'text parts are not newline joins: count + 1 is not their number of lines', nontrivial=False, anchor=fp.qualname)


# ---------------------------------------------------------------------------
def r5_exec_lines_are_physical_lines(ctx):
    """the line arithmetic of failed_line_offset uses n_exec_lines = len(exec_lines) as "number of source lines of the part" (denotation Lw - Lp).
    That only holds if exec_lines is exactly the slice of physical source lines the part was cut from: it is set by the constructor and is not
    extended or replaced by the parser / runner afterwards (the dump command filters a copy of a doctest that is never run again: C19.R4)."""
    rep = ctx.rep
    allowed = {'xdoctest.doctest_part.DoctestPart.__init__', 'xdoctest.runner._convert_to_test_module'}
    n = 0
    MUT = ('append', 'extend', 'insert', 'pop', 'remove', 'clear', 'sort', 'reverse')
    for func in ctx.prog.funcs.values():
        if func.module.name == 'xdoctest._tokenize':
            continue
        for x in walk_scope(func.node):
            site = None
            if isinstance(x, (ast.Assign, ast.AugAssign, ast.AnnAssign)):
                tg = x.targets if isinstance(x, ast.Assign) else [x.target]
                for t in tg:
                    for tt in ([t] if not isinstance(t, (ast.Tuple, ast.List)) else t.elts):
                        base = tt.value if isinstance(tt, ast.Subscript) else tt
                        if isinstance(base, ast.Attribute) and base.attr == 'exec_lines':
                            site = x
            elif isinstance(x, ast.Call) and isinstance(x.func, ast.Attribute) and x.func.attr in MUT and isinstance(x.func.value, ast.Attribute) and x.func.value.attr == 'exec_lines':
                site = x
            if site is None:
                continue
            n += 1
            ok = func.qualname in allowed
            if not ok and isinstance(site, ast.Assign) and isinstance(site.value, ast.ListComp) and len(site.value.generators) == 1 and not site.value.generators[0].ifs and \
                    isinstance(site.value.generators[0].iter, ast.Attribute) and site.value.generators[0].iter.attr == 'exec_lines':
                ok = True       # a line-by-line rewrite keeps the number of lines
            rep.ob('C08.R5', ctx.loc(func, site), '%s: %s' % (func.qualname.rsplit('.', 1)[-1], ctx.src(site)), ok,
                   'the constructor stores the lines it was given / the dump conversion' if ok else
                   'the executable lines of a part are changed after it was cut: len(exec_lines) is no longer the number of physical source lines, so the line '
                   'reported for a got/want failure (first want line = part start + n_exec_lines) is shifted', nontrivial=not ok, anchor=func.qualname)
    rep.floor('C08.R5', 'writers of exec_lines', n, 1)
    # n_exec_lines is the plain length
    fn = ctx.func('xdoctest.doctest_part.DoctestPart.n_exec_lines')
    rets = [r for r in ast.walk(fn.node) if isinstance(r, ast.Return)]
    recv = fn.node.args.args[0].arg
    ok = len(rets) == 1 and isinstance(rets[0].value, ast.Call) and is_name(rets[0].value.func, 'len') and rets[0].value.args and \
        isinstance(rets[0].value.args[0], ast.Attribute) and rets[0].value.args[0].attr == 'exec_lines' and is_name(rets[0].value.args[0].value, recv)
    rep.ob('C08.R5', ctx.loc(fn, fn.node), 'n_exec_lines = len(self.exec_lines)', ok, 'plain length' if ok else 'n_exec_lines is not the number of executable lines', nontrivial=False, anchor=fn.qualname)
    # the slicer hands the constructor the plain slice of the chunk
    fchunk = ctx.func('xdoctest.parser.DoctestParser._package_chunk')
    slicer = fchunk.nested.get('slice_example')
    if slicer is not None:
        rd = ctx.rd(slicer)
        g = ctx.cfg(slicer)
        for n_ in g.nodes:
            for c in node_calls(n_):
                if isinstance(c.func, ast.Attribute) and c.func.attr == 'DoctestPart' or is_name(c.func, 'DoctestPart'):
                    a0 = c.args[0] if c.args else next((k.value for k in c.keywords if k.arg == 'exec_lines'), None)
                    v = a0
                    if isinstance(a0, ast.Name):
                        ds = rd.at(n_, a0.id)
                        v = ds[0].value if len(ds) == 1 and isinstance(ds[0].value, ast.AST) else None
                    sp = [a.arg for a in slicer.node.args.args]
                    ok = isinstance(v, ast.Subscript) and isinstance(v.slice, ast.Slice) and is_name(v.slice.lower, sp[0]) and is_name(v.slice.upper, sp[1]) and v.slice.step is None
                    rep.ob('C08.R5', ctx.loc(slicer, c), 'DoctestPart(exec_lines=<source lines>[%s:%s])' % (sp[0], sp[1]), ok,
                           'a part receives exactly its slice of the source lines' if ok else 'the executable lines handed to the part are not the plain slice of the chunk', anchor=fchunk.qualname)


def r3b_trailing_comment_pattern(ctx):
    """REGEX-FACT (finite samples on the folded pattern): the docstring locators decide "this line ends the triple-quoted literal" after cutting
    a trailing comment.  The comment may follow the closing quotes directly (`"""# noqa`) or after blanks"""
    import re as _re
    from .common import fold_text
    rep = ctx.rep
    V = 'xdoctest.static_analysis.TopLevelVisitor'
    n = 0
    for name in ('_find_docstr_startpos_workaround', '_find_docstr_endpos_workaround'):
        f = ctx.func(V + '.' + name)
        for c in walk_scope(f.node):
            if not (isinstance(c, ast.Call) and isinstance(c.func, ast.Attribute) and is_name(c.func.value, 're') and c.func.attr == 'sub' and len(c.args) >= 3):
                continue
            pexpr = c.args[0]
            if isinstance(pexpr, ast.Name):
                ds = [x for x in walk_scope(f.node) if isinstance(x, ast.Assign) and len(x.targets) == 1 and is_name(x.targets[0], pexpr.id)]
                need(len(ds) == 1, 'C08.R3b: the comment pattern of %s has several definitions' % name)
                pexpr = ds[0].value
            n += 1
            bad = []
            for trip in ("'''", '"""'):
                env = {x.id: trip for x in ast.walk(pexpr) if isinstance(x, ast.Name) and x.id != 're'}
                env.update({x.id: trip for x in ast.walk(c.args[1]) if isinstance(x, ast.Name)})
                pat = fold_text(ctx, f, pexpr, env)
                repl = fold_text(ctx, f, c.args[1], env)
                for text, want in (('    ' + trip + '  # a comment', trip), ('    ' + trip + '# noqa', trip), ('    ' + trip + '#:', trip), ('    ' + trip, trip),
                                   ('    text' + trip, 'text' + trip), ('    ' + trip + ' + x', trip + ' + x')):
                    got = _re.sub(pat, repl, text).strip()
                    if got != want:
                        bad.append((text, got))
            rep.ob('C08.R3b', ctx.loc(f, c), ctx.src(c, 70), not bad,
                   'a trailing comment is cut whether or not blanks separate it from the closing quotes (12 samples)' if not bad else
                   'the trailing-comment pattern leaves %s: the closing line of such a docstring is not recognised, the docstring is taken for a one-liner and every line number '
                   'of its doctests shifts to the last line' % bad, anchor=f.qualname)
    rep.floor('C08.R3b', 'trailing-comment substitutions in the docstring locators', n, 2)


def r6_zero_is_a_line_offset(ctx):
    """NONE-VS-FALSY: failed_line_offset() / failed_lineno() return None for "no failure" and an integer otherwise, and 0 is a legitimate value
    (a failure on the very first line of the doctest).  A truth test of such a value treats line 0 as "no line": the report loses its location."""
    rep = ctx.rep
    n = 0
    for func in ctx.prog.funcs.values():
        if func.module.name not in ('xdoctest.doctest_example', 'xdoctest.plugin', 'xdoctest.runner'):
            continue
        holders = {}
        for x in walk_scope(func.node):
            if isinstance(x, ast.Assign) and len(x.targets) == 1 and isinstance(x.targets[0], ast.Name) and isinstance(x.value, ast.Call) and isinstance(x.value.func, ast.Attribute) \
                    and x.value.func.attr in ('failed_line_offset', 'failed_lineno') and not x.value.args:
                holders[x.targets[0].id] = x.value.func.attr
        if not holders:
            continue
        for x in walk_scope(func.node):
            tests = []
            if isinstance(x, (ast.If, ast.While, ast.IfExp)):
                tests = [x.test]
            elif isinstance(x, ast.BoolOp):
                tests = list(x.values)
            elif isinstance(x, ast.UnaryOp) and isinstance(x.op, ast.Not):
                tests = [x.operand]
            for t in tests:
                while isinstance(t, ast.UnaryOp) and isinstance(t.op, ast.Not):
                    t = t.operand
                if isinstance(t, ast.Name) and t.id in holders:
                    rep.ob('C08.R6', ctx.loc(func, t), 'truth test of `%s` (= %s())' % (t.id, holders[t.id]), False,
                           '`%s` is tested for truth, but 0 is a valid value of %s(): a failure on the first line of the doctest is handled as "no failing line" '
                           '(failed_lineno() returns None / the report drops its `File ..., line N` row)' % (t.id, holders[t.id]), anchor=func.qualname)
        for nm, what in sorted(holders.items()):
            n += 1
            cmps = [c for c in walk_scope(func.node) if isinstance(c, ast.Compare) and is_name(c.left, nm) and len(c.ops) == 1 and isinstance(c.ops[0], (ast.Is, ast.IsNot))]
            rep.ob('C08.R6', ctx.loc(func, func.node), '`%s` = %s() in %s' % (nm, what, func.name), True,
                   'never tested for truth (%d `is None` comparisons)' % len(cmps), nontrivial=False, anchor=func.qualname)
    rep.floor('C08.R6', 'locals holding a failing line / offset', n, 4)


def r7_compile_error_line(ctx):
    """the failing line of a compile-time failure is the `lineno` attribute of the SyntaxError (its `offset` is the COLUMN)"""
    rr = run_roles(ctx)
    rep = ctx.rep
    f = rr.f
    sites = []
    for n in rr.g.nodes:
        if n.kind != 'stmt' or n.dup or not isinstance(n.ast, ast.Assign):
            continue
        if not any(field_name(t, 'self') == 'self.failed_tb_lineno' for t in n.ast.targets):
            continue
        for c in ast.walk(n.ast.value):
            if isinstance(c, ast.Call) and is_name(c.func, 'getattr') and len(c.args) >= 2 and isinstance(c.args[1], ast.Constant):
                sites.append((n, c, c.args[1].value))
            elif isinstance(c, ast.Attribute) and c.attr in ('lineno', 'offset', 'end_lineno', 'end_offset') and isinstance(c.value, ast.Name):
                sites.append((n, c, c.attr))
    rep.floor('C08.R7', 'failing line taken from an exception attribute', len(sites), 1)
    for (n, c, attr) in sites:
        ok = attr == 'lineno'
        rep.ob('C08.R7', ctx.loc(f, c), ctx.src(c), ok,
               'the line of the part the compiler rejected' if ok else
               'the failing line of a compile-time error is read from `.%s`, which is not the line (offset is the column): the report points at a wrong line' % attr, anchor=RUN)


def r8_google_block_offsets_count_newlines(ctx):
    """the offset of a google block is a number of lines of the docstring VALUE and is added to the source line of the docstring: a line of the
    value corresponds to a source line exactly at '\\n' (an escape such as \\f, \\x1e or \\r in a non-raw docstring puts a character into the value that
    str.splitlines breaks at, although the source has no line break there).  Every definition of the line list of split_google_docblocks must
    therefore split at '\\n' only -- and all of them alike."""
    rep = ctx.rep
    f0 = ctx.func('xdoctest.docstr.docscrape_google.split_google_docblocks')
    f = f0
    # the function itself and the module-level helpers it calls (inlining bound 1)
    hosts = [f0]
    for c in walk_scope(f0.node):
        if isinstance(c, ast.Call):
            r = ctx.res.resolve_call(f0, c)
            if r[0] == 'repo' and len(r[1]) == 1 and r[1][0].module is f0.module and r[1][0].cls is None and r[1][0] not in hosts:
                hosts.append(r[1][0])
    defs = []
    for h in hosts:
        params = [a.arg for a in h.node.args.args]
        for x in walk_scope(h.node):
            if isinstance(x, ast.Assign) and len(x.targets) == 1 and isinstance(x.targets[0], ast.Name) and isinstance(x.value, ast.Call) and isinstance(x.value.func, ast.Attribute) \
                    and x.value.func.attr in ('split', 'splitlines') and isinstance(x.value.func.value, ast.Name) and \
                    (x.value.func.value.id in params[:1] or (h is f0 and x.value.func.value.id == params[0])) and \
                    (x.value.func.attr == 'splitlines' or (x.value.args and isinstance(x.value.args[0], ast.Constant) and x.value.args[0].value in ('\n', '\r\n'))):
                defs.append(x)
    rep.floor('C08.R8', 'splits of the docstring into lines', len(defs), 1)
    for x in defs:
        c = x.value
        ok = c.func.attr == 'split' and len(c.args) == 1 and isinstance(c.args[0], ast.Constant) and c.args[0].value == '\n'
        rep.ob('C08.R8', ctx.loc(f, x), ctx.src(x), ok,
               "lines of the docstring value are counted at '\\n' only" if ok else
               "the docstring is cut into lines by %s: a form feed, FS/GS/RS, NEL ... or a lone carriage return inside the docstring value (written as an escape, so the source has no "
               "line break there) starts a new line for the block offsets, and every line number of the blocks after it is one too large" % ctx.src(c), anchor=f.qualname)


def r9_failing_line_recorded_with_the_failure(ctx):
    """PAIRING: failed_line_offset() adds `failed_tb_lineno` for every failure that is not a got/want, repr or event-loop error.  So each handler of
    DocTest.run that records such a failure (stores exc_info) also stores failed_tb_lineno on the same path -- otherwise the offset is computed
    from None (TypeError while rendering) or from the line of an EARLIER failure of the same object; a constant stored there is 1 (the first line
    of the part: the value is 1-based)"""
    rr = run_roles(ctx)
    rep = ctx.rep
    g, f = rr.g, rr.f
    special = {'GotWantException', 'ExtractGotReprException', 'ExistingEventLoopError'}
    n = 0
    for h in g.nodes:
        if h.kind != 'handler' or h.dup:
            continue
        names = {x.attr if isinstance(x, ast.Attribute) else x.id for x in ast.walk(h.ast.type) if isinstance(x, (ast.Attribute, ast.Name))} if h.ast.type is not None else {'BaseException'}
        if names & special and not (names - special - {'checker', 'exceptions'}):
            continue
        body = set(id(x) for x in g.nodes if any(fr.kind == 'try' and getattr(fr, 'handler', None) is h.ast for fr in x.frames))
        exc_stores = [x for x in g.nodes if id(x) in body and x.kind == 'stmt' and not x.dup and isinstance(x.ast, ast.Assign) and any(field_name(t, 'self') == 'self.exc_info' for t in x.ast.targets)
                      and not (isinstance(x.ast.value, ast.Constant) and x.ast.value.value is None)]
        if not exc_stores:
            continue
        tb_stores = [x for x in g.nodes if id(x) in body and x.kind == 'stmt' and not x.dup and isinstance(x.ast, ast.Assign) and any(field_name(t, 'self') == 'self.failed_tb_lineno' for t in x.ast.targets)]
        # a failure attributed to a pseudo part (`failed_part = '<IMPORT>'`) that failed_line_offset answers before it looks at the traceback line
        pseudo = [x.ast.value.value for x in g.nodes if id(x) in body and x.kind == 'stmt' and isinstance(x.ast, ast.Assign) and any(field_name(t, 'self') == 'self.failed_part' for t in x.ast.targets)
                  and isinstance(x.ast.value, ast.Constant) and isinstance(x.ast.value.value, str)]
        fo = ctx.func(DT + '.failed_line_offset')
        answered = {c.value for x in ast.walk(fo.node) if isinstance(x, ast.Compare) and isinstance(x.ops[0], (ast.Eq, ast.Is))
                    for c in list(x.comparators) + [x.left] if isinstance(c, ast.Constant) and isinstance(c.value, str)}
        if pseudo and set(pseudo) <= answered:
            continue
        for es in exc_stores:
            n += 1
            before = graph.path([h], lambda x: x is es, efilter=graph.normal_only, avoid=tb_stores)
            after = graph.path(es.nsucc(), lambda x: id(x) not in body, efilter=graph.normal_only, avoid=tb_stores)
            ok = before is None or after is None
            rep.ob('C08.R9', ctx.loc(f, es.ast), '%s in `except %s`' % (ctx.src(es.ast, 50), ctx.src(h.ast.type, 40) if h.ast.type is not None else ''), ok,
                   'the failing line is stored on every path that records this failure' if ok else
                   'this failure is recorded without its line: failed_line_offset() then adds a failed_tb_lineno that is None or left over from an earlier failure', anchor=RUN)
        for ts in tb_stores:
            v = ts.ast.value
            if isinstance(v, ast.Constant):
                rep.ob('C08.R9', ctx.loc(f, ts.ast), ctx.src(ts.ast), v.value == 1,
                       'the first line of the part (1-based)' if v.value == 1 else 'a constant failing line other than 1: the report points %s the statement that failed' % ('before' if isinstance(v.value, int) and v.value < 1 else 'past'),
                       anchor=RUN)
    rep.floor('C08.R9', 'recorded failures that need a traceback line', n, 2)


# ---------------------------------------------------------------------------
from ..selftest import fire, silent      # noqa: E402

DE = 'xdoctest/doctest_example.py'
SA = 'xdoctest/static_analysis.py'
CO = 'xdoctest/core.py'
PA = 'xdoctest/parser.py'
VARIANTS = [
    fire('every-frame-shown-at-the-recorded-line', 'C08.R1', ('xdoctest/doctest_example.py', "                        rel_lineno = self.failed_part.line_offset + tb_lineno\n", "                        rel_lineno = self.failed_part.line_offset + self.failed_tb_lineno\n")),
    silent('slicer-lifted-out-with-a-tuple-of-its-captures', ('xdoctest/parser.py', '        def slice_example(s1, s2, want_lines=None):\n            exec_lines = exec_source_lines[s1:s2]\n            orig_lines = source_lines[s1:s2]\n            directives = ps1_to_directive.get(s1, None)\n            example = doctest_part.DoctestPart(exec_lines,\n                                               want_lines=want_lines,\n                                               orig_lines=orig_lines,\n                                               line_offset=lineno + s1,\n                                               directives=directives)\n            return example\n', '        chunk = (exec_source_lines, source_lines, ps1_to_directive, lineno)\n'), ('xdoctest/parser.py', 'class DoctestParser:\n', 'def _slice_example(chunk, s1, s2, want_lines=None):\n    exec_source_lines, source_lines, ps1_to_directive, lineno = chunk\n    exec_lines = exec_source_lines[s1:s2]\n    orig_lines = source_lines[s1:s2]\n    directives = ps1_to_directive.get(s1, None)\n    example = doctest_part.DoctestPart(exec_lines,\n                                       want_lines=want_lines,\n                                       orig_lines=orig_lines,\n                                       line_offset=lineno + s1,\n                                       directives=directives)\n    return example\n\n\nclass DoctestParser:\n'), ('xdoctest/parser.py', 'example = slice_example(s1, s2)\n', 'example = _slice_example(chunk, s1, s2)\n', 3), ('xdoctest/parser.py', 'example = slice_example(s1, s2, want_lines)\n', 'example = _slice_example(chunk, s1, s2, want_lines)\n')),
    fire('slicer-lifted-out-with-a-shifted-offset', 'C08.R1', ('xdoctest/parser.py', '        def slice_example(s1, s2, want_lines=None):\n            exec_lines = exec_source_lines[s1:s2]\n            orig_lines = source_lines[s1:s2]\n            directives = ps1_to_directive.get(s1, None)\n            example = doctest_part.DoctestPart(exec_lines,\n                                               want_lines=want_lines,\n                                               orig_lines=orig_lines,\n                                               line_offset=lineno + s1,\n                                               directives=directives)\n            return example\n', '        chunk = (exec_source_lines, source_lines, ps1_to_directive, lineno)\n'), ('xdoctest/parser.py', 'class DoctestParser:\n', 'def _slice_example(chunk, s1, s2, want_lines=None):\n    exec_source_lines, source_lines, ps1_to_directive, lineno = chunk\n    exec_lines = exec_source_lines[s1:s2]\n    orig_lines = source_lines[s1:s2]\n    directives = ps1_to_directive.get(s1, None)\n    example = doctest_part.DoctestPart(exec_lines,\n                                       want_lines=want_lines,\n                                       orig_lines=orig_lines,\n                                       line_offset=lineno + s1 + 1,\n                                       directives=directives)\n    return example\n\n\nclass DoctestParser:\n'), ('xdoctest/parser.py', 'example = slice_example(s1, s2)\n', 'example = _slice_example(chunk, s1, s2)\n', 3), ('xdoctest/parser.py', 'example = slice_example(s1, s2, want_lines)\n', 'example = _slice_example(chunk, s1, s2, want_lines)\n')),
    fire('directive-failure-recorded-without-line', 'C08.R9', (DE, "                    self.failed_tb_lineno = 1  # is this the directive line?\n", "                    pass\n")),
    fire('directive-failure-on-line-zero', 'C08.R9', (DE, "                    self.failed_tb_lineno = 1  # is this the directive line?\n", "                    self.failed_tb_lineno = 0\n")),
    fire('google-blocks-split-with-splitlines', 'C08.R8', ('xdoctest/docstr/docscrape_google.py', "    docstr = textwrap.dedent(docstr)\n    docstr_lines = docstr.split('\\n')\n", "    docstr = textwrap.dedent(docstr)\n    docstr_lines = docstr.splitlines()\n")),
    fire('first-line-failure-has-no-line', 'C08.R6', (DE, "        offset = self.failed_line_offset()\n        if offset is None:\n", "        offset = self.failed_line_offset()\n        if not offset:\n")),
    fire('compile-error-column-taken-for-line', 'C08.R7', (DE, "getattr(ex_value, 'lineno', None) or 1", "getattr(ex_value, 'offset', None) or 1")),
    fire('trailing-comment-needs-a-blank', 'C08.R3b', ('xdoctest/static_analysis.py', "            pattern = re.escape(trip) + r'\\s*#.*$'\n", "            pattern = re.escape(trip) + r'\\s+#.*$'\n")),
    fire('single-mode-terminator-stored-in-exec-lines', 'C08.R5', ('xdoctest/parser.py', "        example = slice_example(s1, s2, want_lines)\n", "        example = slice_example(s1, s2, want_lines)\n        if mode_hint == 'single':\n            example.exec_lines = example.exec_lines + ['']\n")),
    fire('line-from-frame-f_lineno', 'C08.R2', ('xdoctest/doctest_example.py', "                            found_lineno = sub_tb.tb_lineno\n", "                            found_lineno = sub_tb.tb_frame.f_lineno\n")),
    fire('gotwant-offset-off-by-one', 'C08.R1', (DE, "                offset += self.failed_part.n_exec_lines + 1\n", "                offset += self.failed_part.n_exec_lines\n")),
    fire('offset-missing-minus-one', 'C08.R1', (DE, "            offset -= 1\n            return offset\n", "            return offset\n")),
    fire('tb-lineno-dropped', 'C08.R1', (DE, "                offset += self.failed_tb_lineno\n", "                offset += 1\n")),
    fire('eventloop-error-not-distinguished', 'C08.R1',
         (DE, "(checker.ExtractGotReprException, exceptions.ExistingEventLoopError)", "(checker.ExtractGotReprException,)")),
    fire('failed-lineno-plus-one', 'C08.R1', (DE, "            lineno = self.lineno + offset\n            return lineno\n", "            lineno = self.lineno + offset + 1\n            return lineno\n")),
    fire('google-body-line-is-tag-line', 'C08.R1', (CO, "        body_lineno = label_lineno + 1\n", "        body_lineno = label_lineno\n")),
    fire('freeform-lineno-ignores-offset', 'C08.R1', (CO, "                                          lineno=lineno + curr_offset,\n", "                                          lineno=lineno,\n")),
    fire('freeform-parts-not-rebased', 'C08.R1', (CO, "            p.line_offset -= unoffset\n", "            p.line_offset -= 0\n")),
    fire('part-offset-ignores-chunk-start', 'C08.R1', (PA, "                                               line_offset=lineno + s1,\n", "                                               line_offset=s1,\n")),
    fire('displayed-abs-line-off-by-one', 'C08.R1', (DE, "                        abs_lineno = self.lineno + rel_lineno - 1\n", "                        abs_lineno = self.lineno + rel_lineno\n")),
    fire('docstring-start-off-by-one', 'C08.R1', (SA, "                cand_start_ = stop - nlines - 1\n", "                cand_start_ = stop - nlines\n")),
    fire('doclineno-zero-based', 'C08.R1', (SA, "        doclineno = start + 1\n        doclineno_end = stop\n", "        doclineno = start\n        doclineno_end = stop\n")),
    fire('E4-innermost-frame-wins', 'C08.R2', (DE, "                            found_lineno = sub_tb.tb_lineno\n                            break\n", "                            found_lineno = sub_tb.tb_lineno\n")),
    fire('any-frame-accepted', 'C08.R2', (DE, "                        if tb_filename == self._partfilename:\n", "                        if tb_filename:\n")),
    fire('traversal-skips-first-entry', 'C08.R2', (DE, "    sub_tb = tb\n    yield sub_tb\n    while", "    sub_tb = tb\n    while")),
    fire('revert-fix-F5-docstring-prefixes', 'C08.R3',
         (SA, "if startline.strip().lower().startswith((trip, 'r' + trip, 'u' + trip)):", "if startline.strip().startswith((trip, 'r' + trip)):", 0)),
    fire('prefix-check-forgets-unicode', 'C08.R3',
         (SA, "if startline.strip().lower().startswith((trip, 'r' + trip, 'u' + trip)):", "if startline.strip().lower().startswith((trip, 'r' + trip)):", 0)),
    fire('revert-fix-F3-def-line-pattern', 'C08.R3', (SA, "            pattern = r'\\s*(async\\s+)?def\\s*' + node.name\n", "            pattern = r'\\s*def\\s*' + node.name\n")),
    silent('prefix-check-explicit-tuple',
           (SA, "if startline.strip().lower().startswith((trip, 'r' + trip, 'u' + trip)):", "if startline.strip().startswith((trip, 'r' + trip, 'R' + trip, 'u' + trip, 'U' + trip)):", 0)),
    fire('freeform-text-offset-off-by-one', 'C08.R4', (CO, "                if not curr_parts:\n                    curr_offset += part.count('\\n') + 1\n", "                if not curr_parts:\n                    curr_offset += part.count('\\n')\n")),
    fire('freeform-offset-keeps-growing', 'C08.R4', (CO, "                if not curr_parts:\n                    curr_offset += part.count('\\n') + 1\n", "                curr_offset += part.count('\\n') + 1\n")),
    fire('freeform-ignored-part-not-counted', 'C08.R4', (CO, "                if asone:\n                    if not curr_parts:\n                        curr_offset += part.n_lines\n", "                if asone:\n                    pass\n")),
    silent('offset-arithmetic-refolded',
           (DE, "                offset += self.failed_part.n_exec_lines\n            elif", "                offset += self.failed_part.n_exec_lines - 1\n            elif"),
           (DE, "                offset += self.failed_part.n_exec_lines + 1\n", "                offset += self.failed_part.n_exec_lines\n"),
           (DE, "                offset += self.failed_tb_lineno\n            offset -= 1\n", "                offset += self.failed_tb_lineno - 1\n"),
           note='the trailing -1 folded into each branch'),
    silent('google-line-inlined', (CO, "        label_lineno = lineno + offset\n        body_lineno = label_lineno + 1\n", "        body_lineno = 1 + offset + lineno\n")),
]
