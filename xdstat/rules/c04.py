"""
C04 -- directive scoping: block persists, inline is local, skipped code never runs.
"""
import ast

from ..context import need
from ..loader import AnalysisError
from .. import graph
from ..roles import run_roles, RUN, node_calls, is_self_attr
from ..dataflow import field_name
from ..resolve import walk_scope
from .common import fmt_facts, is_name, is_attr_of, fact_reads_key, keys_read, is_empty_container

EXPLANATION = (
    'Static rule conformance on directive.RuntimeState, Directive.extract, static_analysis.extract_comments and the part loop of DocTest.run: '
    'R1 the per-statement overlay is cleared before the directives of a part are applied and written nowhere else; '
    'R2 (alias-sensitive) under `directive.inline` no store or mutator call in update() or its callee set_report_style() may target the persistent state; '
    'R3 every subscript load on the overlay is preceded on every path by a store of that key or a membership test; '
    'R4 lookups prefer the overlay, to_dict applies persistent then overlay; '
    'R5 one state update per part dominates the skip test, which reads SKIP and REQUIRES and whose false edge dominates every exec/check site, '
    'while its true edge reaches the skip record and the next part without touching the namespace; '
    'R6 the directive regex only ever sees tokenizer COMMENT tokens; R7 command-line defaults reach the run state through one config key. '
    'Part-break placement for every statement shape and directive histories are not decided.'
    ' R12 RuntimeState.update never leaves its loops over directives / effects early. R13 the copy of a persistent set into the working state is guarded by `key not in state`.'
    ' R15 while effects are applied RuntimeState.update never deletes a single entry of the state it works on (an inline entry shadows the persistent one until the overlay is cleared whole).')
DECIDES = ['MUST-PASS overlay clear + WHO-MAY writers', 'alias-sensitive WHO-MAY under inline', 'read-before-write on overlay', 'lookup order', 'skip test dominance', 'FLOW comments only', 'defaults key agreement']
NOT_DECIDED = ['that the parser places a part break before every directive and after every inline one for every statement shape', 'behaviour over directive histories']

RS = 'xdoctest.directive.RuntimeState'
UPD = RS + '.update'
SRS = RS + '.set_report_style'
INLINE = '_inline_state'
GLOBAL = '_global_state'


def run(ctx):
    for fn in (r1_overlay_lifetime, r2_inline_never_persistent, r3_overlay_read_before_write, r4_lookup_order,
               r5_run_loop, r6_comments_only, r7_defaults_path, r8_break_placement, r9_inline_classification, r10_effects_at_call_time, r11_statement_starts,
               r12_every_effect_applied, r13_overlay_copy_on_first_write, r14_directive_arguments, r15_no_entry_deleted):
        ctx.rep.rule(fn, ctx)


def _recv(f):
    a = f.node.args.args
    return a[0].arg if a else 'self'


def _inline_fact_polarity(fa):
    """polarity if the fact is `<x>.inline` truthiness"""
    if isinstance(fa.expr, ast.Attribute) and fa.expr.attr == 'inline':
        return fa.polarity
    return None


def _inline_filter(cond):
    def ef(a, b, kind, tok):
        if b.kind == 'branch' and b.attrs['test'].kind == 'test':
            for fa in graph.facts_of(b.attrs['test'].ast, b.attrs['polarity']):
                p = _inline_fact_polarity(fa)
                if p is not None and p != cond:
                    return False
        return True
    return ef


# ---------------------------------------------------------------------------
def r1_overlay_lifetime(ctx):
    rep = ctx.rep
    f = ctx.func(UPD)
    g = ctx.cfg(f)
    recv = _recv(f)
    # reset of the overlay dominating the directive loop
    resets = []
    for n in g.nodes:
        if n.kind != 'stmt':
            continue
        for c in node_calls(n):
            if isinstance(c.func, ast.Attribute) and c.func.attr == 'clear' and field_name(c.func.value, recv) == recv + '.' + INLINE:
                resets.append(n)
        if isinstance(n.ast, ast.Assign) and any(field_name(t, recv) == recv + '.' + INLINE for t in n.ast.targets) and is_empty_container(n.ast.value):
            resets.append(n)
    loops = [n for n in g.nodes if n.kind == 'for' and not n.dup and not any(fr.kind == 'loop' for fr in n.frames)]
    need(loops, 'C04.R1: directive loop not found in RuntimeState.update')
    dom = ctx.dom(g, g.entry)
    for lp in loops:
        ok = any(dom.dominates(r, lp) for r in resets)
        rep.ob('C04.R1', ctx.loc(f, lp.ast), 'overlay reset before `for %s`' % ctx.src(lp.ast.target), ok,
               'a reset of the overlay dominates the directive loop' if ok else
               'the per-statement overlay is not cleared before the directives of the next part are applied: an inline directive leaks into the following statements', anchor=UPD)
    # writers of the overlay anywhere in the package
    writers = _field_writers(ctx, INLINE)
    rep.floor('C04.R1', 'writers of the overlay', len(writers), 2)
    for (func, node, how) in writers:
        ok = func.qualname in (RS + '.__init__', UPD)
        rep.ob('C04.R1', ctx.loc(func, node), ctx.src(node), ok,
               'overlay written (%s) by its owner' % how if ok else 'the overlay is written outside RuntimeState.__init__/update (%s)' % how,
               nontrivial=False, anchor=func.qualname)


def _field_writers(ctx, attr):
    """(func, node, how) for every store / mutator call whose target is `<x>.<attr>` or a local alias of it"""
    out = []
    MUT = ('clear', 'update', 'pop', 'popitem', 'setdefault', 'add', 'remove', 'discard', 'append', 'extend', '__setitem__', '__delitem__')
    for func in ctx.prog.funcs.values():
        if func.module.name == 'xdoctest._tokenize':
            continue
        aliases = set()
        for sub in walk_scope(func.node):
            if isinstance(sub, ast.Assign) and isinstance(sub.value, ast.Attribute) and sub.value.attr == attr:
                for t in sub.targets:
                    if isinstance(t, ast.Name):
                        aliases.add(t.id)

        def is_target(e):
            return (isinstance(e, ast.Attribute) and e.attr == attr) or (isinstance(e, ast.Name) and e.id in aliases)
        for sub in walk_scope(func.node):
            if isinstance(sub, (ast.Assign, ast.AugAssign)):
                tgts = sub.targets if isinstance(sub, ast.Assign) else [sub.target]
                for t in tgts:
                    if isinstance(t, ast.Attribute) and t.attr == attr:
                        out.append((func, sub, 'rebinding'))
                    elif isinstance(t, ast.Subscript) and is_target(t.value):
                        out.append((func, sub, 'item store'))
            elif isinstance(sub, ast.Delete):
                for t in sub.targets:
                    if (isinstance(t, ast.Subscript) and is_target(t.value)) or (isinstance(t, ast.Attribute) and t.attr == attr):
                        out.append((func, sub, 'delete'))
            elif isinstance(sub, ast.Call) and isinstance(sub.func, ast.Attribute) and sub.func.attr in MUT:
                base = sub.func.value
                if is_target(base):
                    out.append((func, sub, 'mutator .%s()' % sub.func.attr))
                elif isinstance(base, ast.Subscript) and is_target(base.value):
                    out.append((func, sub, 'mutator on an item .%s()' % sub.func.attr))
    return out


# ---------------------------------------------------------------------------
class StateWrites:
    """which state dict (overlay / persistent) each store or mutator call of a
    RuntimeState method may target, under a truth value of `directive.inline`."""

    def __init__(self, ctx):
        self.ctx = ctx

    def sites(self, f, cond, param_alias=None, depth=0):
        """[(func, ast node, set(fields), kind, site cfg node)]"""
        ctx = self.ctx
        g = ctx.cfg(f)
        rd = ctx.rd(f)
        recv = _recv(f)
        ef = _inline_filter(cond)
        param_alias = param_alias or {}
        reach = set(id(n) for n in graph.reachable([g.entry], efilter=self._with_param_filter(f, rd, param_alias, ef)))
        eff = self._with_param_filter(f, rd, param_alias, ef)
        out = []

        def aliases_of(node, expr):
            fn = field_name(expr, recv)
            if fn:
                return {fn.split('.', 1)[1]}
            if isinstance(expr, ast.Name):
                res = set()
                for d in rd.at(node, expr.id):
                    if id(d.node) not in reach:
                        continue
                    # the definition must reach `node` along edges consistent with the condition
                    others = [o.node for o in rd.defs_of(expr.id) if o is not d and o.node is not d.node]
                    if d.node is not node and graph.path(d.node.nsucc(), lambda x: x is node, efilter=eff, avoid=others) is None:
                        continue
                    if d.kind == 'param':
                        res |= set(param_alias.get(d.name, {'<param %s>' % d.name}))
                    elif isinstance(d.value, ast.AST):
                        res |= aliases_of(d.node, d.value)
                    else:
                        res.add('<?>')
                return res
            if isinstance(expr, ast.Constant) and expr.value is None:
                return {'<None>'}
            return {'<other>'}

        for n in g.nodes:
            if id(n) not in reach or n.dup or n.kind not in ('stmt', 'test'):
                continue
            if isinstance(n.ast, (ast.FunctionDef, ast.AsyncFunctionDef, ast.ClassDef)):
                continue
            for sub in ast.walk(n.ast):
                if isinstance(sub, (ast.Assign, ast.AugAssign)):
                    tgts = sub.targets if isinstance(sub, ast.Assign) else [sub.target]
                    for t in tgts:
                        if isinstance(t, ast.Subscript):
                            out.append((f, sub, aliases_of(n, t.value), 'item store', n))
                elif isinstance(sub, ast.Call) and isinstance(sub.func, ast.Attribute):
                    m = sub.func.attr
                    base = sub.func.value
                    if m in ('add', 'remove', 'discard', 'update', 'pop', 'clear', 'setdefault', 'append'):
                        if isinstance(base, ast.Subscript):
                            out.append((f, sub, aliases_of(n, base.value), 'mutator on item', n))
                        elif m in ('update', 'pop', 'clear', 'setdefault') and not (isinstance(base, ast.Attribute) and base.attr == INLINE and m == 'clear'):
                            al = aliases_of(n, base)
                            if al & {INLINE, GLOBAL}:
                                out.append((f, sub, al, 'mutator', n))
                    # calls of sibling methods that write state
                    r = ctx.res.resolve_call(f, sub)
                    if r[0] == 'repo' and depth < 1:
                        for callee in r[1]:
                            if callee.cls is f.cls and callee is not f and callee.name not in ('__init__',):
                                params = [a.arg for a in callee.node.args.args][1:]
                                pa = {}
                                for i, a in enumerate(sub.args):
                                    if i < len(params):
                                        pa[params[i]] = aliases_of(n, a)
                                for kw in sub.keywords:
                                    if kw.arg in params:
                                        pa[kw.arg] = aliases_of(n, kw.value)
                                for p_ in params:
                                    pa.setdefault(p_, {'<default>'})
                                for (cf, cn, al, kind, sn) in self.sites(callee, cond, pa, depth + 1):
                                    out.append((cf, cn, al, kind + ' via %s' % ctx.src(sub, 60), n))
        return out

    def _with_param_filter(self, f, rd, param_alias, ef):
        """also prune `param is None` tests decided by what the caller passed"""
        defaults = {}
        args = f.node.args
        pos = args.args
        for a, d in zip(pos[len(pos) - len(args.defaults):], args.defaults):
            defaults[a.arg] = d

        def flt(a, b, kind, tok):
            if not ef(a, b, kind, tok):
                return False
            if b.kind == 'branch' and b.attrs['test'].kind == 'test':
                e = b.attrs['test'].ast
                if isinstance(e, ast.Compare) and len(e.ops) == 1 and isinstance(e.left, ast.Name) and isinstance(e.comparators[0], ast.Constant) \
                        and e.comparators[0].value is None and isinstance(e.ops[0], (ast.Is, ast.IsNot)) and e.left.id in param_alias:
                    defs = rd.at(b.attrs['test'], e.left.id)
                    if len(defs) == 1 and defs[0].kind == 'param':
                        al = param_alias[e.left.id]
                        is_none = None
                        if al == {'<default>'}:
                            dv = defaults.get(e.left.id)
                            is_none = isinstance(dv, ast.Constant) and dv.value is None
                        elif al and al <= {INLINE, GLOBAL}:
                            is_none = False
                        if is_none is not None:
                            truth = is_none == isinstance(e.ops[0], ast.Is)
                            if b.attrs['polarity'] != truth:
                                return False
            return True
        return flt


def r2_inline_never_persistent(ctx):
    rep = ctx.rep
    f = ctx.func(UPD)
    sw = StateWrites(ctx)
    sites_inline = sw.sites(f, True)
    sites_block = sw.sites(f, False)
    rep.floor('C04.R2', 'state write sites under inline', len(sites_inline), 3)
    seen = set()
    for (func, node, al, kind, sn) in sites_inline:
        key = (func.qualname, id(node))
        if key in seen:
            continue
        seen.add(key)
        bad = GLOBAL in al or '<default>' in al or '<?>' in al
        rep.ob('C04.R2', ctx.loc(func, node), ctx.src(node), not bad,
               'under directive.inline the target may alias only %s (%s)' % (sorted(al), kind) if not bad else
               'an inline directive can write the persistent state (%s; target may alias %s): its effect outlives the statement' % (kind, sorted(al)),
               anchor=func.qualname)
    # setdefault / get with a persistent item as default put (or hand out) the persistent object itself
    r0 = _recv(f)
    for c in walk_scope(f.node):
        if isinstance(c, ast.Call) and isinstance(c.func, ast.Attribute) and c.func.attr in ('setdefault', 'get') and len(c.args) == 2:
            dflt = c.args[1]
            bare = isinstance(dflt, (ast.Subscript, ast.Attribute)) and any(field_name(x, r0) == r0 + '.' + GLOBAL for x in ast.walk(dflt))
            if bare:
                par = getattr(c, '_parent', None)
                mutated = isinstance(par, ast.Attribute) and par.attr in ('add', 'remove', 'discard', 'update', 'clear', 'pop', 'append', 'extend')
                stored = c.func.attr == 'setdefault'
                rep.ob('C04.R2', ctx.loc(f, c), ctx.src(par._parent if mutated and isinstance(getattr(par, '_parent', None), ast.Call) else c), not (mutated or stored),
                       'persistent item only read' if not (mutated or stored) else
                       'the persistent (mutable) item itself is %s: for an inline directive the persistent state is changed through the alias' %
                       ('placed in the overlay and mutated' if stored and mutated else 'placed in the overlay' if stored else 'mutated'), anchor=f.qualname)
    # item stores into the overlay must not alias mutable items of the persistent state
    recv = _recv(f)
    for (func, node, al, kind, sn) in sites_inline:
        if kind.startswith('item store') and INLINE in al and isinstance(node, ast.Assign):
            v = node.value
            r_ = _recv(func)
            aliased = isinstance(v, (ast.Subscript, ast.Attribute)) and any(field_name(x, r_) == r_ + '.' + GLOBAL for x in ast.walk(v)) or \
                (isinstance(v, ast.Call) and isinstance(v.func, ast.Attribute) and v.func.attr in ('get', 'setdefault', 'pop') and field_name(v.func.value, r_) == r_ + '.' + GLOBAL)
            if any(field_name(x, r_) == r_ + '.' + GLOBAL for x in ast.walk(v)):
                rep.ob('C04.R2', ctx.loc(func, node), ctx.src(node), not aliased,
                       'the overlay entry is a copy of the persistent value' if not aliased else
                       'the overlay entry aliases a (mutable) item of the persistent state: mutating it for an inline directive changes the persistent state', anchor=func.qualname)
    # and block directives do reach the persistent state (the other half of the table)
    ok = any(GLOBAL in al for (_, _, al, _, _) in sites_block)
    rep.ob('C04.R2', ctx.loc(f, f.node), 'block directive -> persistent state', ok,
           'under not directive.inline the writes target the persistent state' if ok else 'block directives no longer write the persistent state', anchor=UPD)
    rep.note('state_write_table', [{'at': ctx.loc(fn, nd), 'construct': ctx.src(nd), 'inline_targets': sorted(al), 'kind': k} for (fn, nd, al, k, _) in sites_inline])


# ---------------------------------------------------------------------------
def _audit_overlay_reads(ctx, f, g, rd, ef, may_alias, in_set_action, anchor, counts, depth=0):
    """reads of a set-valued entry through a name that may alias the (just cleared) overlay, inside function f:
    R3  a subscript load  <alias>[key]  must be preceded on every path by a store of that entry or a successful membership test;
    R3c a get-style read needs a default that reads the persistent set, and a store that seeds the entry (the one under `key not in <alias>`)
        must take its value from the persistent set (a copy, not the set object itself);
    calls that hand the alias to another method of the class are followed once (inlining bound 1)."""
    rep = ctx.rep
    recv = _recv(f)
    glob = recv + '.' + GLOBAL

    def reads_global(e, key_text):
        for x in ast.walk(e):
            if isinstance(x, ast.Subscript) and isinstance(x.ctx, ast.Load) and field_name(x.value, recv) == glob and ast.unparse(x.slice) == key_text:
                return True
            if isinstance(x, ast.Call) and isinstance(x.func, ast.Attribute) and x.func.attr == 'get' and field_name(x.func.value, recv) == glob and x.args and ast.unparse(x.args[0]) == key_text:
                return True
        return False
    reach = graph.reachable([g.entry], efilter=ef)
    dom = ctx.dom(g, g.entry, tag='c04-audit-%s' % f.qualname)
    for n in reach:
        if n.kind not in ('stmt', 'test') or n.dup or isinstance(n.ast, (ast.FunctionDef, ast.ClassDef)):
            continue
        facts = graph.guard_facts(dom, n)
        for sub in ast.walk(n.ast):
            # R3: subscript loads
            if isinstance(sub, ast.Subscript) and isinstance(sub.ctx, ast.Load) and isinstance(sub.value, ast.Name) and may_alias(n, sub.value.id):
                base = sub.value
                counts['loads'] += 1
                key_text = ast.unparse(sub.slice)
                starts = [g.entry]
                for fr in reversed(n.frames):
                    if fr.kind == 'loop':
                        starts = [b for b in fr.head.nsucc() if b.kind == 'branch' and b.attrs['polarity'] in ('iter', True)]
                        break
                through = []
                for m in reach:
                    if m.kind == 'stmt' and isinstance(m.ast, ast.Assign):
                        for t in m.ast.targets:
                            if isinstance(t, ast.Subscript) and is_name(t.value, base.id) and ast.unparse(t.slice) == key_text:
                                through.append(m)
                    if m.kind == 'branch' and m.attrs['test'].kind == 'test':
                        for fa in graph.facts_of(m.attrs['test'].ast, m.attrs['polarity']):
                            e = fa.expr
                            if isinstance(e, ast.Compare) and len(e.ops) == 1 and isinstance(e.ops[0], ast.In) and fa.polarity is True \
                                    and ast.unparse(e.left) == key_text and is_name(e.comparators[0], base.id):
                                through.append(m)
                wit = graph.must_pass(starts, lambda x: x is n, through=through, efilter=ef)
                rep.ob('C04.R3', ctx.loc(f, sub), ctx.src(sub._parent if isinstance(sub._parent, ast.Attribute) and isinstance(sub._parent._parent, ast.Call) else sub), wit is None,
                       'the overlay entry is stored or tested for membership on every path before it is read' if wit is None else
                       'for an inline directive the overlay is empty at this read (it was just cleared): KeyError(%s) -- an inline +REQUIRES(unmet) fails the doctest instead of '
                       'skipping one statement, an inline -REQUIRES(x) is silently ignored' % key_text,
                       witness=None if wit is None else graph.fmt_path(wit, f.module.relpath), anchor=anchor)
            # R3c: get-style reads
            if in_set_action(facts) and isinstance(sub, ast.Call) and isinstance(sub.func, ast.Attribute) and sub.func.attr in ('get', 'setdefault', 'pop') and \
                    isinstance(sub.func.value, ast.Name) and sub.args and may_alias(n, sub.func.value.id):
                counts['gets'] += 1
                key_text = ast.unparse(sub.args[0])
                dflt = sub.args[1] if len(sub.args) > 1 else None
                ok = dflt is not None and reads_global(dflt, key_text)
                rep.ob('C04.R3c', ctx.loc(f, sub), ctx.src(sub), ok,
                       'an empty overlay falls back to the persistent set' if ok else
                       'for an inline directive the overlay is empty here, and the fallback `%s` is not the persistent set: the requirements that are pending from block directives '
                       'are dropped for this statement' % (ctx.src(dflt) if dflt is not None else 'None'), anchor=anchor)
            # helper calls that receive the alias
            if depth < 1 and isinstance(sub, ast.Call) and in_set_action(facts):
                r = ctx.res.resolve_call(f, sub)
                cal = r[1] if r[0] == 'repo' else (r[2] if r[0] == 'method' else [])
                if len(cal) == 1 and cal[0].cls is not None and cal[0].cls is f.cls:
                    h = cal[0]
                    hparams = [a.arg for a in h.node.args.args][1:]
                    bound = {}
                    for i, a in enumerate(sub.args):
                        if i < len(hparams) and isinstance(a, ast.Name) and may_alias(n, a.id):
                            bound[hparams[i]] = True
                    for k in sub.keywords:
                        if k.arg in hparams and isinstance(k.value, ast.Name) and may_alias(n, k.value.id):
                            bound[k.arg] = True
                    if bound:
                        gh = ctx.cfg(h)
                        rdh = ctx.rd(h)

                        def may_alias_h(node, name, bound=bound, rdh=rdh):
                            return name in bound and all(d.kind == 'param' for d in rdh.at(node, name))
                        _audit_overlay_reads(ctx, h, gh, rdh, graph.normal_only if False else None, may_alias_h, lambda facts_: True, h.qualname, counts, depth + 1)
        # R3c: seeding stores
        if isinstance(n.ast, ast.Assign) and in_set_action(facts):
            for t in n.ast.targets:
                if isinstance(t, ast.Subscript) and isinstance(t.value, ast.Name) and may_alias(n, t.value.id):
                    key_text = ast.unparse(t.slice)
                    seeding = any(fa.polarity is False and isinstance(fa.expr, ast.Compare) and isinstance(fa.expr.ops[0], ast.In) and ast.unparse(fa.expr.left) == key_text and
                                  is_name(fa.expr.comparators[0], t.value.id) for fa in facts)
                    if seeding:
                        ok = reads_global(n.ast.value, key_text)
                        rep.ob('C04.R3c', ctx.loc(f, n.ast), ctx.src(n.ast), ok,
                               'the overlay entry is seeded with (a copy of) the persistent set' if ok else
                               'the overlay entry of a set-valued key is seeded with something else than the persistent set', anchor=anchor)
                        aliasing = isinstance(n.ast.value, ast.Subscript) and field_name(n.ast.value.value, recv) == glob
                        if aliasing:
                            rep.ob('C04.R3c', ctx.loc(f, n.ast), 'copy, not alias: ' + ctx.src(n.ast), False,
                                   'the overlay entry aliases the persistent set object: the in-place add/remove that follows changes the persistent state', anchor=anchor)


def r3_overlay_read_before_write(ctx):
    rep = ctx.rep
    f = ctx.func(UPD)
    g = ctx.cfg(f)
    rd = ctx.rd(f)
    recv = _recv(f)
    sw = StateWrites(ctx)
    ef = sw._with_param_filter(f, rd, {}, _inline_filter(True))

    def may_alias(n, name):
        for d in rd.at(n, name):
            if isinstance(d.value, ast.AST) and field_name(d.value, recv) == recv + '.' + INLINE:
                if graph.path([g.entry], lambda x, dn=d.node: x is dn, efilter=ef) is not None:
                    return True
        return False

    def in_set_action(facts):
        return any(fa.polarity is True and isinstance(fa.expr, ast.Compare) and is_name(fa.expr.left, 'action') and isinstance(fa.expr.comparators[0], ast.Constant) and
                   str(fa.expr.comparators[0].value).startswith('set.') for fa in facts)
    counts = {'loads': 0, 'gets': 0}
    _audit_overlay_reads(ctx, f, g, rd, ef, may_alias, in_set_action, UPD, counts)
    rep.ob('C04.R3', ctx.loc(f, f.node), 'set actions read the previous set', counts['loads'] + counts['gets'] >= 1,
           '%d subscript load(s), %d get-style read(s) on a possible overlay alias' % (counts['loads'], counts['gets']) if counts['loads'] + counts['gets'] else
           'no set action reads the value it is supposed to extend', nontrivial=False, anchor=UPD)


# ---------------------------------------------------------------------------
def r4_lookup_order(ctx):
    rep = ctx.rep
    f = ctx.func(RS + '.__getitem__')
    g = ctx.cfg(f)
    recv = _recv(f)
    dom = ctx.dom(g, g.entry)
    rets = [n for n in g.nodes if n.kind == 'stmt' and isinstance(n.ast, ast.Return) and n.ast.value is not None]
    seen = set()
    for rn in rets:
        v = rn.ast.value
        if isinstance(v, ast.Subscript):
            fld = field_name(v.value, recv)
            facts = graph.guard_facts(dom, rn)
            memb = [fa for fa in facts if isinstance(fa.expr, ast.Compare) and isinstance(fa.expr.ops[0], ast.In)
                    and field_name(fa.expr.comparators[0], recv) == recv + '.' + INLINE]
            if fld == recv + '.' + INLINE:
                seen.add('overlay')
                ok = any(fa.polarity is True for fa in memb)
                rep.ob('C04.R4', ctx.loc(f, rn.ast), ctx.src(rn.ast), ok,
                       'overlay value returned only when the key is in the overlay' if ok else 'overlay read without a membership test', anchor=f.qualname)
            elif fld == recv + '.' + GLOBAL:
                seen.add('persistent')
                ok = any(fa.polarity is False for fa in memb)
                rep.ob('C04.R4', ctx.loc(f, rn.ast), ctx.src(rn.ast), ok,
                       'persistent value returned only when the overlay has no entry' if ok else
                       'the persistent value can be returned although the overlay holds the key: an inline directive has no effect', anchor=f.qualname)
    rep.ob('C04.R4', ctx.loc(f, f.node), '__getitem__ returns from both states', seen == {'overlay', 'persistent'},
           'returns found: %s' % sorted(seen), nontrivial=False, anchor=f.qualname)
    # to_dict: persistent copy updated with the overlay
    f2 = ctx.func(RS + '.to_dict')
    g2 = ctx.cfg(f2)
    rd2 = ctx.rd(f2)
    recv2 = _recv(f2)
    ok = False
    for n in g2.nodes:
        for c in node_calls(n):
            if isinstance(c.func, ast.Attribute) and c.func.attr == 'update' and c.args and field_name(c.args[0], recv2) == recv2 + '.' + INLINE and isinstance(c.func.value, ast.Name):
                defs = rd2.at(n, c.func.value.id)
                if defs and all(isinstance(d.value, ast.Call) and any(field_name(x, recv2) == recv2 + '.' + GLOBAL for x in ast.walk(d.value)) for d in defs):
                    ok = True
    rep.ob('C04.R4', ctx.loc(f2, f2.node), 'to_dict: copy(persistent).update(overlay)', ok,
           'overlay entries override a copy of the persistent ones' if ok else 'to_dict no longer applies the overlay on top of a copy of the persistent state', anchor=f2.qualname)


# ---------------------------------------------------------------------------
def r5_run_loop(ctx):
    rr = run_roles(ctx)
    rep = ctx.rep
    f = rr.f
    dom = ctx.dom(rr.g, rr.iter_entry, rr.cut)
    rep.floor('C04.R5', 'RuntimeState.update call sites in RUN', len(rr.update_sites), 1)
    # the skip test: a test reading both SKIP and REQUIRES
    skip_tests = []
    named_reads = {}
    for n in rr.g.nodes:
        if n.kind == 'test' and rr.in_loop(n) and not n.dup:
            ks = {k for (_, k) in keys_read(n.ast)}
            # a condition held in a local first (`skip = runstate['SKIP'] or ...; if skip or ...:`)
            for nm in ast.walk(n.ast):
                if isinstance(nm, ast.Name) and isinstance(nm.ctx, ast.Load):
                    ds = rr.rd.at(n, nm.id)
                    if len(ds) == 1 and isinstance(ds[0].value, (ast.BoolOp, ast.Compare, ast.UnaryOp, ast.Subscript)):
                        ks |= {k for (_, k) in keys_read(ds[0].value)}
                        named_reads.setdefault(id(n), []).extend(keys_read(ds[0].value))
            if 'SKIP' in ks or 'REQUIRES' in ks:
                skip_tests.append((n, ks))
    if not skip_tests:
        rep.ob('C04.R5', ctx.loc(f, rr.loop.ast), 'skip test in the part loop', False,
               'no test of the run state keys SKIP / REQUIRES exists in the part loop: skipped statements are executed', anchor=RUN)
    for (t, ks) in skip_tests:
        ok = {'SKIP', 'REQUIRES'} <= ks
        rep.ob('C04.R5', ctx.loc(f, t.ast), ctx.src(t.ast), ok,
               'the skip test reads SKIP and REQUIRES' if ok else 'the skip test reads only %s: %s is ignored' % (sorted(ks), sorted({'SKIP', 'REQUIRES'} - ks)), anchor=RUN)
    # (a) one update per iteration, before the skip test, fed from part.directives
    upd_nodes = [n for (n, _) in rr.update_sites]
    for (t, ks) in skip_tests:
        res = graph.count_events(rr.iter_entry, lambda x: any(x is u for u in upd_nodes), lambda x: x is t, efilter=graph.normal_only)
        need(res, 'C04.R5: skip test unreachable')
        (_, lo, hi, wlo, whi) = next(iter(res.values()))
        rep.ob('C04.R5', ctx.loc(f, t.ast), 'state update before the skip test', (lo, hi) == (1, 1),
               'exactly one RuntimeState.update on every path to the skip test' if (lo, hi) == (1, 1) else 'between %d and %d updates precede the skip test' % (lo, hi),
               witness=None if (lo, hi) == (1, 1) else graph.fmt_path(wlo if lo != 1 else whi, f.module.relpath), anchor=RUN)
    for (n, c) in rr.update_sites:
        a0 = c.args[0] if c.args else None
        ok = a0 is not None and rr._depends_on(n, a0, rr.part_var) and _mentions_attr_flow(rr, n, a0, 'directives')
        rep.ob('C04.R5', ctx.loc(f, c), ctx.src(c), ok,
               'argument flows from %s.directives' % rr.part_var if ok else 'the state is not updated with the directives of the current part', anchor=RUN)
        # receiver is the object whose keys the skip test reads
        recv_txt = ast.unparse(c.func.value) if isinstance(c.func, ast.Attribute) else '?'
        for (t, ks) in skip_tests:
            bases = {b for (b, k) in list(keys_read(t.ast)) + named_reads.get(id(t), []) if k in ('SKIP', 'REQUIRES')}
            rep.ob('C04.R5', ctx.loc(f, t.ast), 'skip test reads the updated state object', bases == {recv_txt},
                   'both use `%s`' % recv_txt if bases == {recv_txt} else 'update on `%s` but skip test reads %s' % (recv_txt, sorted(bases)), nontrivial=False, anchor=RUN)
    # (b) false edge dominates the sites; true edge is effect free
    sites = [('exec site', n, c) for (n, c) in rr.exec_sites] + [('check site', n, c) for (n, c) in rr.check_sites] + \
            [('exception check', n, c) for (n, c) in rr.check_exc_sites] + [('namespace population', n, c) for (n, c) in rr.globals_sites] + \
            [('part compile', n, c) for (n, c) in rr.part_compiles]
    for (what, n, c) in sites:
        facts = graph.guard_facts(dom, n)
        ok = any(fact_reads_key(fa, 'SKIP') and fa.polarity is False for fa in facts) and any(fact_reads_key(fa, 'REQUIRES') and fa.polarity is False for fa in facts)
        rep.ob('C04.R5', ctx.loc(f, c), '%s: %s' % (what, ctx.src(c)), ok,
               'edge-dominated by the false edge of the skip test (SKIP off, no pending REQUIRES)' if ok else
               'can execute although SKIP is on or a REQUIRES is unmet (guards: %s)' % fmt_facts(facts), anchor=RUN)
    for (t, ks) in skip_tests:
        for b in t.nsucc():
            if b.kind == 'branch' and b.attrs['polarity'] is True:
                reach, _ = graph.env_search([b], efilter=graph.normal_only, stop=[rr.loop])
                bad = [(w, n) for (w, n, c) in sites if any(n is x for x in reach)]
                _, wit = graph.env_search([b], lambda x: x is rr.loop, efilter=graph.normal_only, avoid=rr.skip_records)
                ok = not bad and wit is None and any(x is rr.loop for x in reach)
                rep.ob('C04.R5', ctx.loc(f, t.ast), 'skip branch is effect free', ok,
                       'the skip branch records the part as skipped and continues with the next part; no exec/check site or namespace write on it' if ok else
                       ('skipped code still reaches %s' % [w for (w, _) in bad] if bad else 'the skip branch does not record the skip / does not continue'), anchor=RUN)


def _mentions_attr_flow(rr, node, expr, attr, depth=3):
    for nm in ast.walk(expr):
        if isinstance(nm, ast.Attribute) and nm.attr == attr:
            return True
    if depth > 0:
        for nm in ast.walk(expr):
            if isinstance(nm, ast.Name):
                for d in rr.rd.at(node, nm.id):
                    if isinstance(d.value, ast.AST) and _mentions_attr_flow(rr, d.node, d.value, attr, depth - 1):
                        return True
    return False


# ---------------------------------------------------------------------------
def r6_comments_only(ctx):
    rep = ctx.rep
    q = 'xdoctest.directive.Directive.extract'
    f = ctx.func(q)
    g = ctx.cfg(f)
    rd = ctx.rd(f)
    EC = 'xdoctest.static_analysis.extract_comments'
    n_uses = 0
    for n in g.nodes:
        for c in node_calls(n):
            if isinstance(c.func, ast.Attribute) and is_name(c.func.value, 'DIRECTIVE_RE') and c.func.attr in ('match', 'search', 'finditer', 'findall', 'fullmatch'):
                n_uses += 1
                a0 = c.args[0] if c.args else None
                names = [x for x in ast.walk(a0) if isinstance(x, ast.Name) and isinstance(x.ctx, ast.Load)] if a0 is not None else []
                ok = bool(names)
                src = []
                for nm in names:
                    for d in rd.at(n, nm.id):
                        good = d.kind == 'iter' and isinstance(d.value, ast.Call) and _resolves(ctx, f, d.value, EC)
                        src.append(repr(d))
                        if not good:
                            ok = False
                rep.ob('C04.R6', ctx.loc(f, c), ctx.src(c), ok,
                       'the matched text flows only from items yielded by extract_comments()' if ok else
                       'the directive regex is applied to text that is not a tokenizer comment (%s): directive-looking text inside string literals becomes a directive' % src,
                       anchor=q)
    rep.floor('C04.R6', 'uses of DIRECTIVE_RE in Directive.extract', n_uses, 1)
    # DIRECTIVE_RE used nowhere else on raw text
    for func in ctx.prog.funcs.values():
        if func is f or func.module.name == 'xdoctest._tokenize':
            continue
        for sub in walk_scope(func.node):
            if isinstance(sub, ast.Call) and isinstance(sub.func, ast.Attribute) and sub.func.attr in ('match', 'search', 'finditer', 'findall') and \
                    (is_name(sub.func.value, 'DIRECTIVE_RE') or (isinstance(sub.func.value, ast.Attribute) and sub.func.value.attr == 'DIRECTIVE_RE')):
                rep.ob('C04.R6', ctx.loc(func, sub), ctx.src(sub), False, 'the directive regex is applied outside Directive.extract, bypassing the tokenizer', anchor=func.qualname)
    fe = ctx.func(EC)
    ge = ctx.cfg(fe)
    dome = ctx.dom(ge, ge.entry)
    n_y = 0
    for n in ge.nodes:
        if n.kind == 'stmt' and any(isinstance(x, (ast.Yield, ast.YieldFrom)) for x in ast.walk(n.ast)) and not n.dup:
            n_y += 1
            facts = graph.guard_facts(dome, n)
            ok = any(isinstance(fa.expr, ast.Compare) and fa.polarity is True and isinstance(fa.expr.ops[0], ast.Eq) and
                     any(isinstance(x, ast.Attribute) and x.attr == 'COMMENT' for x in ast.walk(fa.expr)) for fa in facts)
            rep.ob('C04.R6', ctx.loc(fe, n.ast), ctx.src(n.ast), ok,
                   'yield is edge-dominated by `token type == tokenize.COMMENT`' if ok else 'extract_comments yields tokens that are not comments (guards: %s)' % fmt_facts(facts), anchor=EC)
    rep.floor('C04.R6', 'yields in extract_comments', n_y, 1)
    # the tokens come from the tokenizer
    tok = any(isinstance(x, ast.Call) and isinstance(x.func, ast.Attribute) and x.func.attr == 'generate_tokens' for x in ast.walk(fe.node))
    rep.ob('C04.R6', ctx.loc(fe, fe.node), 'tokenize.generate_tokens', tok, 'comments are produced by the tokenizer' if tok else 'extract_comments no longer tokenizes', nontrivial=False, anchor=EC)


def _resolves(ctx, f, call, qual):
    r = ctx.res.resolve_call(f, call)
    return r[0] == 'repo' and any(x.qualname == qual for x in r[1])


# ---------------------------------------------------------------------------
def r7_defaults_path(ctx):
    rr = run_roles(ctx)
    rep = ctx.rep
    KEY = 'default_runtime_state'
    # reader: RuntimeState(<value of self.config[KEY]>) in RUN
    ctor = [(rr.f, rr.rd, n, c) for (n, c, r) in rr.calls if r[0] == 'class' and r[1].qualname == RS]
    if not ctor:
        # the preparation of a run may be a method of its own (inlining bound 1)
        for (n0, c0, r0) in rr.calls:
            if r0[0] == 'repo' and len(r0[1]) == 1 and r0[1][0].cls is not None and r0[1][0].cls is rr.f.cls and not rr.in_loop(n0):
                h = r0[1][0]
                hg = ctx.cfg(h)
                for hn in hg.nodes:
                    if hn.dup:
                        continue
                    for c in node_calls(hn):
                        rc = ctx.res.resolve_call(h, c)
                        if rc[0] == 'class' and rc[1].qualname == RS:
                            ctor.append((h, ctx.rd(h), hn, c))
    rep.floor('C04.R7', 'RuntimeState constructions in RUN', len(ctor), 1)
    for (cf, crd, n, c) in ctor:
        a0 = c.args[0] if c.args else None
        ok = False
        if a0 is not None:
            exprs = [a0]
            if isinstance(a0, ast.Name):
                exprs = [d.value for d in crd.at(n, a0.id) if isinstance(d.value, ast.AST)]
            ok = bool(exprs) and all(any(k == KEY and 'config' in b for (b, k) in keys_read(e)) for e in exprs)
        rep.ob('C04.R7', ctx.loc(cf, c), ctx.src(c), ok,
               "run state is seeded from self.config['%s']" % KEY if ok else 'the run state is not seeded from the configured default directives', anchor=RUN)
    # RuntimeState.__init__ applies it to the persistent state
    fi = ctx.func(RS + '.__init__')
    recv = _recv(fi)
    params = [a.arg for a in fi.node.args.args][1:]
    ok = False
    for sub in ast.walk(fi.node):
        if isinstance(sub, ast.Call) and isinstance(sub.func, ast.Attribute) and sub.func.attr == 'update' and field_name(sub.func.value, recv) == recv + '.' + GLOBAL \
                and sub.args and isinstance(sub.args[0], ast.Name) and sub.args[0].id in params:
            ok = True
    rep.ob('C04.R7', ctx.loc(fi, fi.node), 'RuntimeState.__init__ applies default_state to the persistent state', ok,
           'defaults behave like a leading block directive' if ok else 'default_state is not applied to the persistent state', anchor=fi.qualname)
    # writer: _populate_from_cli returns {KEY: dict filled from parse_directive_optstr}
    fp = ctx.func('xdoctest.doctest_example.DoctestConfig._populate_from_cli')
    gp = ctx.cfg(fp)
    rdp = ctx.rd(fp)
    ok = False
    detail = 'no dict literal with key %r' % KEY
    for n in gp.nodes:
        if n.kind == 'stmt' and isinstance(getattr(n.ast, 'value', None), ast.Dict):
            d = n.ast.value
            for k, v in zip(d.keys, d.values):
                if isinstance(k, ast.Constant) and k.value == KEY and isinstance(v, ast.Name):
                    # item stores into that dict: value flows from parse_directive_optstr(...)
                    stores = [s for s in ast.walk(fp.node) if isinstance(s, ast.Assign) and any(isinstance(t, ast.Subscript) and is_name(t.value, v.id) for t in s.targets)]
                    good = bool(stores)
                    # the value stored under the directive's name is that directive's polarity (`-SKIP` on the command line switches SKIP off)
                    for s in stores:
                        t0 = [t for t in s.targets if isinstance(t, ast.Subscript)][0]
                        keyobj = t0.slice.value if isinstance(t0.slice, ast.Attribute) and t0.slice.attr == 'name' else None
                        if keyobj is not None:
                            pol_ok = isinstance(s.value, ast.Attribute) and s.value.attr == 'positive' and ast.unparse(s.value.value) == ast.unparse(keyobj)
                            rep.ob('C04.R7', ctx.loc(fp, s), ctx.src(s), pol_ok,
                                   'default options carry their sign' if pol_ok else
                                   'the default state stores %s under the name of the parsed directive instead of its polarity: `--options=-SKIP` then behaves like `+SKIP`' % ctx.src(s.value), anchor=fp.qualname)
                    for s in stores:
                        names = [x for x in ast.walk(s) if isinstance(x, ast.Name) and isinstance(x.ctx, ast.Load) and x.id not in (v.id,)]
                        src_ok = False
                        for sn in gp.nodes_containing(s):
                            for nm in names:
                                for df in rdp.at(sn, nm.id):
                                    if isinstance(df.value, ast.Call) and _resolves(ctx, fp, df.value, 'xdoctest.directive.parse_directive_optstr'):
                                        src_ok = True
                        good = good and src_ok
                    ok = good
                    detail = 'config key %r is filled from parse_directive_optstr results' % KEY if ok else 'the default state dict is not built from parsed directives'
    rep.ob('C04.R7', ctx.loc(fp, fp.node), "_populate_from_cli -> {'%s': ...}" % KEY, ok, detail, anchor=fp.qualname)


# ---------------------------------------------------------------------------
CHUNK = 'xdoctest.parser.DoctestParser._package_chunk'


def r8_break_placement(ctx):
    """a statement that carries a directive starts a part; an inline one also ends it (together with the
    tiling invariant C01.R6 this scopes a block directive to everything after it and an inline one to its statement)"""
    rep = ctx.rep
    f = ctx.func(CHUNK)
    g = ctx.cfg(f)
    rd = ctx.rd(f)
    EXTRACT = 'xdoctest.directive.Directive.extract'
    ext = [(n, c) for n in g.nodes if not n.dup for c in node_calls(n) if ctx.res.resolve_call(f, c)[0] == 'repo' and ctx.res.resolve_call(f, c)[1][0].qualname == EXTRACT]
    need(len(ext) == 1, 'C04.R8: Directive.extract call not found in _package_chunk')
    en, ec = ext[0]
    loops = [fr for fr in en.frames if fr.kind == 'loop']
    need(loops, 'C04.R8: directives are not extracted per statement')
    head = loops[-1].head
    it = head.ast.iter
    tg = head.ast.target
    need(isinstance(tg, ast.Tuple) and len(tg.elts) == 2 and all(isinstance(e, ast.Name) for e in tg.elts), 'C04.R8: unrecognised loop target')
    s1, s2 = tg.elts[0].id, tg.elts[1].id
    # (a) consecutive statement starts including the open end of the last statement
    ok = isinstance(it, ast.Call) and is_name(it.func, 'zip') and len(it.args) == 2 and isinstance(it.args[0], ast.Name)
    if ok:
        P = it.args[0].id
        second = it.args[1]
        ok = isinstance(second, ast.BinOp) and isinstance(second.op, ast.Add) and isinstance(second.left, ast.Subscript) and is_name(second.left.value, P) and \
            isinstance(second.left.slice, ast.Slice) and isinstance(second.left.slice.lower, ast.Constant) and second.left.slice.lower.value == 1 and \
            isinstance(second.right, ast.List) and len(second.right.elts) == 1 and isinstance(second.right.elts[0], ast.Constant) and second.right.elts[0].value is None
        if ok:
            pd = rd.at(head, P)
            ok = bool(pd) and all(isinstance(d.base, ast.Call) and ctx.res.resolve_call(f, d.base)[0] == 'repo' and ctx.res.resolve_call(f, d.base)[1][0].name == '_locate_ps1_linenos' for d in pd)
    rep.ob('C04.R8', ctx.loc(f, head.ast), ctx.src(it), ok,
           'every statement (start, next start | None) of the chunk is inspected, the last one included' if ok else
           'the directive scan does not visit every statement interval of the chunk', anchor=CHUNK)
    # (b) the text scanned is the statement's own lines
    arg = ec.args[0] if ec.args else None
    ok = False
    def has_stmt_slice(node, e, depth=0):
        for x in ast.walk(e):
            if isinstance(x, ast.Subscript) and isinstance(x.slice, ast.Slice) and is_name(x.slice.lower, s1) and is_name(x.slice.upper, s2) and x.slice.step is None:
                return True
        if depth < 3:
            for nm in [x for x in ast.walk(e) if isinstance(x, ast.Name) and isinstance(x.ctx, ast.Load)]:
                ds = [d for d in rd.at(node, nm.id) if d.kind == 'assign' and isinstance(d.value, ast.AST) and graph.in_loop_body(d.node, head.ast)]
                if ds and all(has_stmt_slice(d.node, d.value, depth + 1) for d in ds):
                    return True
        return False
    if arg is not None:
        ok = has_stmt_slice(en, arg)
    rep.ob('C04.R8', ctx.loc(f, ec), ctx.src(ec), ok, 'directives are read from the lines [%s:%s] of that statement only' % (s1, s2) if ok else 'directives are not extracted from exactly the lines of one statement', anchor=CHUNK)
    # result variable
    dvar = en.ast.targets[0].id if isinstance(en.ast, ast.Assign) and isinstance(en.ast.targets[0], ast.Name) else None
    need(dvar, 'C04.R8: extracted directives are not bound to a local')
    entry, cut = graph.region_of_loop(g, head)
    dom = ctx.dom(g, entry, cut)
    apps = []
    for n in g.nodes:
        if n.dup or not graph.in_loop_body(n, head.ast):
            continue
        for c in node_calls(n):
            if isinstance(c.func, ast.Attribute) and c.func.attr == 'append' and isinstance(c.func.value, ast.Name) and c.args and isinstance(c.args[0], ast.Name) and c.args[0].id in (s1, s2):
                apps.append((n, c))
    breakvars = {c.func.value.id for (_, c) in apps}
    before = [(n, c) for (n, c) in apps if c.args[0].id == s1]
    after = [(n, c) for (n, c) in apps if c.args[0].id == s2]
    if not before and not after:
        # breaks may be placed in a separate pass over collected (start, stop, directives) records: a different idiom, not a missing break
        sorted_lists = {y.id for x in ast.walk(f.node) if isinstance(x, ast.Call) and is_name(x.func, 'sorted') for y in ast.walk(x) if isinstance(y, ast.Name)}
        elsewhere = [c for c in ast.walk(f.node) if isinstance(c, ast.Call) and isinstance(c.func, ast.Attribute) and c.func.attr in ('append', 'extend', 'add', 'update') and
                     isinstance(c.func.value, ast.Name) and c.func.value.id in sorted_lists]
        need(not elsewhere, 'C04.R8: part breaks are not placed inside the directive scan loop (they are added to `%s` elsewhere): idiom not recognised' %
             (elsewhere[0].func.value.id if elsewhere else '?'))
    rep.ob('C04.R8', ctx.loc(f, head.ast), 'break before a statement with directives', len(before) == 1, '%d append(s) of %s' % (len(before), s1),
           nontrivial=False, anchor=CHUNK)
    rep.ob('C04.R8', ctx.loc(f, head.ast), 'break after a statement with an inline directive', len(after) == 1, '%d append(s) of %s' % (len(after), s2),
           nontrivial=False, anchor=CHUNK)

    def canon(fa):
        e = fa.expr
        if is_name(e, dvar):
            return ('has-directives', fa.polarity)
        if isinstance(e, ast.Attribute) and e.attr == 'inline' and isinstance(e.value, ast.Subscript) and is_name(e.value.value, dvar):
            return ('inline', fa.polarity)
        if isinstance(e, ast.Compare) and len(e.ops) == 1 and isinstance(e.ops[0], ast.Is) and is_name(e.left, s2) and isinstance(e.comparators[0], ast.Constant) and e.comparators[0].value is None:
            return ('last-statement', fa.polarity)
        if fa.polarity in ('iter', 'done'):
            return None
        return ('other:' + fa.text, fa.polarity)
    for (n, c) in before:
        got = {canon(fa) for fa in graph.guard_facts(dom, n)} - {None}
        ok = got == {('has-directives', True)}
        rep.ob('C04.R8', ctx.loc(f, c), ctx.src(c), ok,
               'a part break is placed before every statement that carries a directive, and only there' if ok else
               'the break before a directive statement is controlled by %s (required: exactly "statement has directives")' % sorted(map(str, got)), anchor=CHUNK)
    for (n, c) in after:
        got = {canon(fa) for fa in graph.guard_facts(dom, n)} - {None}
        ok = got == {('has-directives', True), ('inline', True), ('last-statement', False)}
        rep.ob('C04.R8', ctx.loc(f, c), ctx.src(c), ok,
               'a second break is placed after a statement whose directive is inline (unless it is the last statement)' if ok else
               'the break after an inline directive is controlled by %s (required: has directives, inline, not the last statement)' % sorted(map(str, got)), anchor=CHUNK)
    # the break list feeds the tiling loop
    if len(breakvars) == 1:
        bv = next(iter(breakvars))
        used = any(isinstance(x, ast.Call) and is_name(x.func, 'sorted') and any(is_name(y, bv) for y in ast.walk(x)) for x in ast.walk(f.node))
        rep.ob('C04.R8', ctx.loc(f, head.ast), 'breaks collected in `%s` drive the slices' % bv, used, 'the collected breaks are the tile boundaries (see C01.R6)' if used else 'the collected breaks are not used for slicing', nontrivial=False, anchor=CHUNK)
    # (e) directives attached to the part that starts at s1
    stores = [n for n in g.nodes if not n.dup and n.kind == 'stmt' and isinstance(n.ast, ast.Assign) and any(isinstance(t, ast.Subscript) and is_name(t.slice, s1) for t in n.ast.targets) and is_name(n.ast.value, dvar)]
    slicer = f.nested.get('slice_example')
    reads = []
    if slicer is not None:
        sp0 = slicer.node.args.args[0].arg
        reads = [c for c in ast.walk(slicer.node) if isinstance(c, ast.Call) and isinstance(c.func, ast.Attribute) and c.func.attr == 'get' and c.args and is_name(c.args[0], sp0)]
    ok = len(stores) == 1 and len(reads) == 1 and isinstance(stores[0].ast.targets[0].value, ast.Name) and is_name(reads[0].func.value, stores[0].ast.targets[0].value.id)
    rep.ob('C04.R8', ctx.loc(f, stores[0].ast if stores else f.node), 'directives keyed by the start line of their part', ok,
           'the part that starts at the directive statement receives its directives' if ok else 'directives are not attached to the part that starts at their statement', anchor=CHUNK)


# ---------------------------------------------------------------------------
def r11_statement_starts(ctx):
    """a directive at the end of a statement affects that statement whatever its shape: the parser must know where each statement starts -- for a decorated
    definition at its first decorator and only there (same clause as C01.R7)"""
    from . import c01
    from .common import run_as
    run_as(ctx, c01.r7_decorated_statement_starts, 'C01.R7', 'C04.R11')


def r9_inline_classification(ctx):
    """Directive.extract flags a directive as inline iff the statement text contains a line that is not a comment.  The classifying expression is
    evaluated on the finite domain of line-kind sequences (comment / code, length 1..3) and compared with that specification."""
    import itertools
    rep = ctx.rep
    q = 'xdoctest.directive.Directive.extract'
    f = ctx.func(q)
    g = ctx.cfg(f)
    rd = ctx.rd(f)
    text = [a.arg for a in f.node.args.args if a.arg not in ('cls', 'self')][0]
    # the value handed to parse_directive_optstr as `inline`
    calls = [(n, c) for n in g.nodes if not n.dup for c in node_calls(n) if isinstance(c.func, ast.Name) and c.func.id == 'parse_directive_optstr']
    rep.floor('C04.R9', 'directive constructions in extract', len(calls), 1)

    class Unrec(Exception):
        pass

    def ev(e, node, lines, env):
        """evaluate a boolean expression over a list of line kinds ('#' comment, 'x' code)"""
        if isinstance(e, ast.UnaryOp) and isinstance(e.op, ast.Not):
            return not ev(e.operand, node, lines, env)
        if isinstance(e, ast.BoolOp):
            vs = [ev(v, node, lines, env) for v in e.values]
            return all(vs) if isinstance(e.op, ast.And) else any(vs)
        if isinstance(e, ast.Call) and isinstance(e.func, ast.Name) and e.func.id in ('all', 'any') and len(e.args) == 1 and isinstance(e.args[0], (ast.GeneratorExp, ast.ListComp)):
            ge = e.args[0]
            if len(ge.generators) != 1 or ge.generators[0].ifs or not isinstance(ge.generators[0].target, ast.Name):
                raise Unrec(ast.unparse(e))
            it = ge.generators[0].iter
            if not (isinstance(it, ast.Call) and isinstance(it.func, ast.Attribute) and it.func.attr == 'splitlines' and is_name(it.func.value, text)):
                raise Unrec(ast.unparse(it))
            var = ge.generators[0].target.id
            vals = [ev(ge.elt, node, lines, dict(env, **{var: k})) for k in lines]
            return all(vals) if e.func.id == 'all' else any(vals)
        if isinstance(e, ast.Call) and isinstance(e.func, ast.Attribute) and e.func.attr == 'startswith' and len(e.args) == 1 and isinstance(e.args[0], ast.Constant) and e.args[0].value == '#':
            r = e.func.value
            if isinstance(r, ast.Call) and isinstance(r.func, ast.Attribute) and r.func.attr in ('strip', 'lstrip') and not r.args and isinstance(r.func.value, ast.Name) and r.func.value.id in env:
                return env[r.func.value.id] == '#'
            raise Unrec(ast.unparse(e))
        if isinstance(e, ast.Name):
            ds = rd.at(node, e.id)
            if len(ds) == 1 and ds[0].kind == 'assign' and isinstance(ds[0].value, ast.AST):
                return ev(ds[0].value, ds[0].node, lines, env)
        if isinstance(e, ast.Constant) and isinstance(e.value, bool):
            return e.value
        raise Unrec(ast.unparse(e))
    for (n, c) in calls:
        arg = c.args[1] if len(c.args) > 1 else next((k.value for k in c.keywords if k.arg == 'inline'), None)
        need(arg is not None, 'C04.R9: parse_directive_optstr is called without the inline flag')
        bad = []
        try:
            for k in (1, 2, 3):
                for lines in itertools.product('#x', repeat=k):
                    got = ev(arg, n, list(lines), {})
                    want = 'x' in lines
                    if got != want:
                        bad.append((''.join(lines), got))
        except Unrec as ex:
            raise AnalysisError('C04.R9: unrecognised inline classification `%s`' % ex)
        rep.ob('C04.R9', ctx.loc(f, c), 'inline flag of %s' % ctx.src(c), not bad,
               'inline <=> some line of the statement is not a comment (8+4+2 line-kind sequences)' if not bad else
               'the inline flag is wrong for the line-kind sequences %s (# = comment line, x = code line): a directive on a multi-line statement that contains a comment-only line is treated as a '
               'block directive and changes the persistent state' % bad[:4], anchor=q)


def r10_effects_at_call_time(ctx):
    """the effect of a REQUIRES directive depends on the environment (sys.argv, environment variables, importable modules) at the moment the part is
    reached.  Directive objects live in the parsed parts and are reused by every run, so they must stay immutable after construction: no method other
    than __init__ stores to a field, in particular effects() must not remember its answer."""
    rep = ctx.rep
    ci = ctx.cls('xdoctest.directive.Directive')
    n = 0
    for name, m in sorted(ci.methods.items()):
        a = m.node.args.args
        if not a:
            continue
        recv = a[0].arg
        for x in ast.walk(m.node):
            tgt = None
            if isinstance(x, ast.Assign):
                tgt = x.targets
            elif isinstance(x, (ast.AugAssign, ast.AnnAssign)):
                tgt = [x.target]
            for t in tgt or []:
                for tt in ([t] if not isinstance(t, (ast.Tuple, ast.List)) else t.elts):
                    base = tt.value if isinstance(tt, ast.Subscript) else tt
                    if isinstance(base, ast.Attribute) and is_name(base.value, recv):
                        n += 1
                        ok = name == '__init__'
                        rep.ob('C04.R10', ctx.loc(m, x), '%s: %s' % (name, ctx.src(x)), ok,
                               'set once at construction' if ok else
                               'a Directive is modified after construction (in %s): the object is shared by every run of the doctest, so what it remembers from one run '
                               '(e.g. the evaluated REQUIRES condition) is what the next run sees' % name, nontrivial=not ok, anchor=m.qualname)
    rep.floor('C04.R10', 'field stores in Directive', n, 4)
    # module-level memo tables for effects
    mod = ctx.prog.module('xdoctest.directive')
    fe = ctx.func('xdoctest.directive.Directive.effects')
    decos = [ast.unparse(d) for d in fe.node.decorator_list if any(k in ast.unparse(d) for k in ('cache', 'memo'))]
    rep.ob('C04.R10', ctx.loc(fe, fe.node), 'effects() is not memoised', not decos, 'plain method' if not decos else 'effects() is wrapped by %s' % decos, nontrivial=False, anchor=fe.qualname)


def r12_every_effect_applied(ctx):
    """RuntimeState.update applies EVERY effect of EVERY directive it is given: an iteration of the directive / effect loops may be cut short
    (`continue` on a no-op) but the loops are never left early -- a `break` or `return` drops the effects that follow (e.g. the unmet second
    argument of `+REQUIRES(met, unmet)`)"""
    rep = ctx.rep
    f = ctx.func(RS + '.update')
    g = ctx.cfg(f)
    loops = [n for n in g.nodes if n.kind == 'for' and not n.dup]
    rep.floor('C04.R12', 'loops over directives and their effects in update', len(loops), 2)
    bad = []
    for n in g.nodes:
        if n.kind != 'stmt' or n.dup or not isinstance(n.ast, (ast.Break, ast.Return)):
            continue
        if any(fr.kind == 'loop' for fr in n.frames):
            bad.append(n)
    for n in bad:
        rep.ob('C04.R12', ctx.loc(f, n.ast), ctx.src(n.ast), False,
               'the loop over the effects of the directives is left early: the remaining effects of this directive (and of the directives after it) are not applied', anchor=f.qualname)
    for lp in loops:
        rep.ob('C04.R12', ctx.loc(f, lp.ast), 'for %s in %s' % (ctx.src(lp.ast.target), ctx.src(lp.ast.iter, 50)), not bad,
               'never left by break / return: every element is processed' if not bad else 'left early (see above)', anchor=f.qualname)


def r13_overlay_copy_on_first_write(ctx):
    """an inline set-valued directive works on a COPY of the persistent set, made when the overlay does not hold the key yet.  The copy has to be
    guarded by exactly that test: copying again on a later effect of the same comment throws away what the earlier effects did to the overlay"""
    rep = ctx.rep
    cls = ctx.cls(RS)
    n_copies = 0
    for f in cls.methods.values():
        if not f.node.args.args:
            continue
        recv = _recv(f)
        if not any(isinstance(x, ast.Subscript) and field_name(x.value, recv) == recv + '.' + GLOBAL for x in ast.walk(f.node)):
            continue
        g = ctx.cfg(f)
        dom = ctx.dom(g, g.entry)
        for n in g.nodes:
            if n.kind != 'stmt' or n.dup or not isinstance(n.ast, ast.Assign) or not isinstance(n.ast.targets[0], ast.Subscript):
                continue
            reads_global = any(isinstance(x, ast.Subscript) and field_name(x.value, recv) == recv + '.' + GLOBAL for x in ast.walk(n.ast.value))
            if not (reads_global and isinstance(n.ast.targets[0].value, ast.Name)):
                continue
            n_copies += 1
            tgt = n.ast.targets[0]
            state, key = tgt.value.id, ctx.src(tgt.slice)
            facts = [fa for fa in graph.guard_facts(dom, n) if fa.polarity in (True, False) and isinstance(fa.expr, ast.AST)]
            ok = any(isinstance(fa.expr, ast.Compare) and len(fa.expr.ops) == 1 and
                     ((isinstance(fa.expr.ops[0], ast.NotIn) and fa.polarity is True) or (isinstance(fa.expr.ops[0], ast.In) and fa.polarity is False)) and
                     ctx.src(fa.expr.left) == key and is_name(fa.expr.comparators[0], state) for fa in facts)
            rep.ob('C04.R13', ctx.loc(f, n.ast), ctx.src(n.ast), ok,
                   'copied only when `%s` is not in `%s` yet' % (key, state) if ok else
                   'the persistent set is copied into the working state without testing that the key is absent (guards: %s): a second REQUIRES effect of the same inline comment '
                   'starts from the persistent set again and undoes the first' % fmt_facts(facts), anchor=f.qualname)
    rep.floor('C04.R13', 'copies of a persistent set into the working state', n_copies, 1)


def r15_no_entry_deleted(ctx):
    """the overlay of an inline directive holds, for every key it has touched, the value in force for this statement; lookups fall back to the
    persistent state for absent keys.  Deleting a single entry while effects are applied (a "tidy-up" of an entry that became empty) therefore
    puts the persistent value back in force -- `-REQUIRES(a)` after a block `+REQUIRES(a)` would skip the statement again.  The overlay may
    only be emptied whole, before the effects (R1)."""
    rep = ctx.rep
    f = ctx.func(UPD)
    recv = _recv(f)
    loops = [n for n in ast.walk(f.node) if isinstance(n, (ast.For, ast.While))]
    need(loops, 'C04.R15: no loop in RuntimeState.update')
    states = {recv + '.' + INLINE, recv + '.' + GLOBAL}
    for n in ast.walk(f.node):
        if isinstance(n, ast.Assign) and len(n.targets) == 1 and isinstance(n.targets[0], ast.Name) and field_name(n.value, recv) in states:
            states.add(n.targets[0].id)

    def is_state(e):
        return (isinstance(e, ast.Name) and e.id in states) or field_name(e, recv) in states
    bad = []
    for lp in loops:
        for x in ast.walk(lp):
            if isinstance(x, ast.Delete) and any(isinstance(t, ast.Subscript) and is_state(t.value) for t in x.targets):
                bad.append(x)
            elif isinstance(x, ast.Call) and isinstance(x.func, ast.Attribute) and x.func.attr in ('pop', 'popitem', '__delitem__') and is_state(x.func.value):
                bad.append(x)
    seen = []
    for x in bad:
        if any(x is y for y in seen):
            continue
        seen.append(x)
        rep.ob('C04.R15', ctx.loc(f, x), ctx.src(x), False,
               'an entry of the working state is deleted while effects are applied: for an inline directive the lookup falls back to the persistent value, so the '
               'effect that emptied the entry is undone (an inline -REQUIRES(a) after a block +REQUIRES(a) skips the statement again)', anchor=UPD)
    rep.ob('C04.R15', ctx.loc(f, f.node), 'no single entry of the working state is deleted in the effect loops', not seen,
           'entries are only written; the overlay is emptied whole before the effects' if not seen else '%d deletion(s)' % len(seen), nontrivial=False, anchor=UPD)


def r14_directive_arguments(ctx):
    """the conditions of `REQUIRES(a, b)` are the text strictly between the parentheses and the option name is the text before the opening one:
    with the opening parenthesis left in the first argument (`(a`) no requirement is ever recognised as met or named again by -REQUIRES"""
    rep = ctx.rep
    f = ctx.func('xdoctest.directive.parse_directive_optstr')
    g = ctx.cfg(f)
    rd = ctx.rd(f)
    opens = {d.name for d in rd.defs if isinstance(d.value, ast.Call) and isinstance(d.value.func, ast.Attribute) and d.value.func.attr in ('find', 'index') and d.value.args
             and isinstance(d.value.args[0], ast.Constant) and d.value.args[0].value == '('}
    need(opens, 'C04.R14: the position of the opening parenthesis is not computed by find/index')
    n = 0
    for x in walk_scope(f.node):
        if not (isinstance(x, ast.Subscript) and isinstance(x.slice, ast.Slice) and isinstance(x.ctx, ast.Load)):
            continue
        lo, hi = x.slice.lower, x.slice.upper
        lo_names = {y.id for y in ast.walk(lo) if isinstance(y, ast.Name)} if lo is not None else set()
        hi_names = {y.id for y in ast.walk(hi) if isinstance(y, ast.Name)} if hi is not None else set()
        if lo_names & opens:
            n += 1
            ok = isinstance(lo, ast.BinOp) and isinstance(lo.op, ast.Add) and isinstance(lo.left, ast.Name) and lo.left.id in opens and isinstance(lo.right, ast.Constant) and lo.right.value == 1
            rep.ob('C04.R14', ctx.loc(f, x), ctx.src(x, 70), ok,
                   'the arguments start one past the opening parenthesis' if ok else
                   'the argument text starts at %s, not one past the opening parenthesis: the first condition of REQUIRES(...) carries the parenthesis (or loses its first character), so it is '
                   'never met and never removed' % ctx.src(lo), anchor=f.qualname)
        elif hi is not None and lo is None and hi_names & opens:
            n += 1
            ok = isinstance(hi, ast.Name)
            rep.ob('C04.R14', ctx.loc(f, x), ctx.src(x, 70), ok, 'the option name is the text before the opening parenthesis' if ok else 'the option name is not cut at the opening parenthesis (%s)' % ctx.src(hi), anchor=f.qualname)
    rep.floor('C04.R14', 'slices around the parentheses of a directive', n, 2)


# ---------------------------------------------------------------------------
from ..selftest import fire, silent      # noqa: E402

DE = 'xdoctest/doctest_example.py'
DI = 'xdoctest/directive.py'
SA = 'xdoctest/static_analysis.py'
VARIANTS = [
    fire('empty-inline-entry-tidied-away', 'C04.R15', ('xdoctest/directive.py', "                        state[key].remove(value)\n                    except KeyError:\n                        pass\n",
                                                        "                        state[key].remove(value)\n                    except KeyError:\n                        pass\n                    if not state[key] and state is self._inline_state:\n                        del state[key]\n")),
    fire('default-options-lose-their-sign', 'C04.R7', (DE, "                default_runtime_state[directive.name] = directive.positive\n", "                default_runtime_state[directive.name] = True\n")),
    fire('requires-argument-keeps-the-parenthesis', 'C04.R14', ('xdoctest/directive.py', "        body = optpart[paren_pos + 1:optpart.find(')')]\n", "        body = optpart[paren_pos + 0:optpart.find(')')]\n")),
    fire('noop-effect-ends-the-directive', 'C04.R12', ('xdoctest/directive.py', "                if action == 'noop':\n                    continue\n", "                if action == 'noop':\n                    break\n")),
    fire('overlay-recopied-for-every-inline-effect', 'C04.R13', ('xdoctest/directive.py', "                elif action == 'set.add':\n                    if key not in state:\n", "                elif action == 'set.add':\n                    if directive.inline:\n")),
    fire('inline-iff-no-comment-line', 'C04.R9', (DI, "        inline = not all(line.strip().startswith('#')\n", "        inline = not any(line.strip().startswith('#')\n")),
    silent('inline-any-not-comment', (DI, "        inline = not all(line.strip().startswith('#')\n                         for line in text.splitlines())\n", "        inline = any(not line.lstrip().startswith('#')\n                     for line in text.splitlines())\n")),
    fire('effects-remembered-on-the-directive', 'C04.R10', (DI, "        self.positive = positive\n", "        self.positive = positive\n        self._effects = None\n"), (DI, "    def effects(self, argv=None, environ=None):\n", "    def effects(self, argv=None, environ=None):\n        if self._effects is None:\n            self._effects = self._effects_uncached(argv, environ)\n        return self._effects\n\n    def _effects_uncached(self, argv=None, environ=None):\n")),
    fire('overlay-never-cleared', 'C04.R1', (DI, "        self._inline_state.clear()\n", "")),
    fire('overlay-cleared-after-loop', 'C04.R1',
         (DI, "        self._inline_state.clear()\n", ""),
         (DI, "                else:\n                    raise KeyError('unknown action {}'.format(action))\n", "                else:\n                    raise KeyError('unknown action {}'.format(action))\n        self._inline_state.clear()\n")),
    fire('inline-assign-writes-global', 'C04.R2',
         (DI, "                    state[key] = value\n", "                    self._global_state[key] = value\n")),
    fire('inline-flag-ignored', 'C04.R2',
         (DI, "                if directive.inline:\n                    state = self._inline_state\n                else:\n                    state = self._global_state\n",
              "                state = self._global_state\n")),
    fire('getitem-ignores-overlay', 'C04.R4',
         (DI, "        if key in self._inline_state:\n            return self._inline_state[key]\n        else:\n            return self._global_state[key]\n",
              "        return self._global_state[key]\n")),
    fire('getitem-inverted', 'C04.R4',
         (DI, "        if key in self._inline_state:\n            return self._inline_state[key]\n        else:\n            return self._global_state[key]\n",
              "        if key not in self._inline_state:\n            return self._inline_state[key]\n        else:\n            return self._global_state[key]\n")),
    fire('skip-test-ignores-requires', 'C04.R5',
         (DE, "                if runstate['SKIP'] or len(runstate['REQUIRES']) > 0:\n", "                if runstate['SKIP']:\n")),
    fire('skip-after-exec', 'C04.R5',
         (DE, "                if runstate['SKIP'] or len(runstate['REQUIRES']) > 0:\n", "                if False:\n")),
    fire('state-updated-after-skip-test', 'C04.R5',
         (DE, "                        runstate.update(part_directive)\n", "                        pass\n"),
         (DE, "                if not part.has_any_code():\n", "                runstate.update(part_directive)\n                if not part.has_any_code():\n")),
    fire('directives-from-raw-lines', 'C04.R6',
         (DI, "        for comment in static.extract_comments(text):\n", "        for comment in [ln[ln.index('#'):] for ln in text.splitlines() if '#' in ln]:\n")),
    fire('extract-comments-yields-all-tokens', 'C04.R6',
         (SA, "            if t[0] == tokenize.COMMENT:\n                yield t[1]\n", "            if True:\n                yield t[1]\n")),
    fire('defaults-not-applied', 'C04.R7',
         (DE, "        default_state = self.config['default_runtime_state']\n", "        default_state = {}\n")),
    fire('revert-fix-F2-overlay-read-before-write', 'C04.R3',
         (DI, "                    if key not in state:\n                        # inline directives work on a copy of the persistent set\n                        state[key] = set(self._global_state[key])\n                    state[key].add(value)\n", "                    state[key].add(value)\n")),
    fire('revert-fix-F9-report-style-written-globally', 'C04.R2',
         (DI, "                    self.set_report_style(key.replace('REPORT_', ''), state=state)\n", "                    self.set_report_style(key.replace('REPORT_', ''))\n")),
    fire('overlay-seeded-by-alias-not-copy', 'C04.R2',
         (DI, "                        state[key] = set(self._global_state[key])\n                    state[key].add(value)\n", "                        state[key] = self._global_state[key]\n                    state[key].add(value)\n")),
    silent('overlay-seed-with-setdefault',
           (DI, "                    if key not in state:\n                        # inline directives work on a copy of the persistent set\n                        state[key] = set(self._global_state[key])\n                    state[key].add(value)\n",
                "                    if key not in state:\n                        state[key] = self._global_state[key].copy()\n                    state[key].add(value)\n")),
    fire('no-break-after-inline-directive', 'C04.R8', ('xdoctest/parser.py', "                if directives[0].inline:\n                    if s2 is not None:\n                        break_linenos.append(s2)\n", "")),
    fire('break-after-every-directive', 'C04.R8', ('xdoctest/parser.py', "                if directives[0].inline:\n                    if s2 is not None:\n", "                if True:\n                    if s2 is not None:\n")),
    fire('last-statement-not-scanned', 'C04.R8', ('xdoctest/parser.py', "        for s1, s2 in zip(ps1_linenos, ps1_linenos[1:] + [None]):\n", "        for s1, s2 in zip(ps1_linenos, ps1_linenos[1:]):\n")),
    fire('directives-keyed-by-next-start', 'C04.R8', ('xdoctest/parser.py', "                ps1_to_directive[s1] = directives\n", "                ps1_to_directive[s2] = directives\n")),
    fire('break-only-for-block-directives', 'C04.R8', ('xdoctest/parser.py', "                ps1_to_directive[s1] = directives\n                break_linenos.append(s1)\n", "                ps1_to_directive[s1] = directives\n                if not directives[0].inline:\n                    break_linenos.append(s1)\n")),
    fire('overlay-setdefault-aliases-persistent-set', 'C04.R2',
         (DI, "                    if key not in state:\n                        # inline directives work on a copy of the persistent set\n                        state[key] = set(self._global_state[key])\n                    try:\n                        state[key].remove(value)\n                    except KeyError:\n                        pass\n",
              "                    state.setdefault(key, self._global_state[key]).discard(value)\n")),
    silent('overlay-reset-by-new-dict', (DI, "        self._inline_state.clear()\n", "        self._inline_state = {}\n")),
    silent('state-selected-by-ifexp-kept-as-if',
           (DI, "                if directive.inline:\n                    state = self._inline_state\n                else:\n                    state = self._global_state\n",
                "                if not directive.inline:\n                    state = self._global_state\n                else:\n                    state = self._inline_state\n")),
    silent('skip-test-split',
           (DE, "                if runstate['SKIP'] or len(runstate['REQUIRES']) > 0:\n", "                if len(runstate['REQUIRES']) > 0 or runstate['SKIP']:\n")),
]
