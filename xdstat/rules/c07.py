"""
C07 -- collection is exact: every documented callable yields its doctests once.
"""
import ast

from ..context import need
from ..loader import AnalysisError
from .. import graph, consts
from ..roles import node_calls
from ..dataflow import field_name
from ..resolve import walk_scope
from .common import fmt_facts, is_name, is_attr_of

EXPLANATION = (
    'Static rule conformance on static_analysis.TopLevelVisitor, package_modpaths and the example constructors in core: '
    'R1 the visitor (or a repository base) binds a handler for every AST node class that can carry a docstring (Module, ClassDef, '
    'FunctionDef, AsyncFunctionDef), by def or class-level alias -- an unbound kind falls back to generic_visit, which both loses the '
    'definition and descends into its body; R2 the function handlers never reach generic_visit / visit; R3 in the class handler the record store '
    'and the descent are edge-dominated by "no enclosing class" and the nesting field is set before and reset after the descent; '
    'R4 the function handler has early exits guarded by decorator attribute == "setter" and == "deleter" and by nothing that names the getter; '
    'R5 the If handler skips exactly the `__name__ == "__main__"` guard and descends otherwise; R6 the package walk empties the directory list '
    'in place on the non-package branch and yields nothing there; R7 one example per google block with the index taken from enumerate, one '
    'parse per calldef keyed by the calldefs key. Google/freeform block splitting and numbering of every docstring are not decided.'
    ' R6 also: every path joined inside the os.walk loop starts at the walked directory. R8 also: a generic_visit override that filters children must let ast.stmt, ast.excepthandler and ast.match_case through. R9 REGEX-FACT on the folded google block-label pattern (12 samples).')
DECIDES = ['EXHAUSTIVE handler table', 'no descent into function bodies', 'GUARD-DOM class nesting + PAIRING', 'setter/deleter exits', 'main-guard exit', 'package walk pruning', 'example keying']
NOT_DECIDED = ['what the Google block splitter and the freeform grouper do for every docstring', 'uniqueness of identifiers for duplicate definitions (last one wins by mapping semantics)']

V = 'xdoctest.static_analysis.TopLevelVisitor'
KINDS = ('Module', 'ClassDef', 'FunctionDef', 'AsyncFunctionDef')


def run(ctx):
    for fn in (r1_exhaustive_kinds, r2_no_descent, r3_class_level, r3b_reset_ownership, r4_property_accessors, r4b_delegation, r5_main_guard, r6_package_walk, r7_keys, r8_compound_statements_descend, r9_google_tag_pattern, r10_collection_options_are_forwarded):
        ctx.rep.rule(fn, ctx)


def visitor_binding(ctx, kind):
    """('def', Func) | ('alias', name, Func) | None for visit_<kind> on the visitor or its repo bases"""
    ci = ctx.cls(V)
    classes, _ = ctx.prog.mro(ci)
    name = 'visit_' + kind
    for c in classes:
        if name in c.methods:
            return ('def', c.methods[name])
        if name in c.assigns:
            v = c.assigns[name]
            if isinstance(v, ast.Name) and v.id in c.methods:
                return ('alias', v.id, c.methods[v.id])
            if isinstance(v, ast.Name):
                for c2 in classes:
                    if v.id in c2.methods:
                        return ('alias', v.id, c2.methods[v.id])
            return ('alias?', ast.unparse(v), None)
    return None


def r1_exhaustive_kinds(ctx, rule='C07.R1'):
    rep = ctx.rep
    ci = ctx.cls(V)
    for k in KINDS:
        need(hasattr(ast, k), 'C07.R1: ast.%s does not exist in this Python' % k)
    _, ext = ctx.prog.mro(ci)
    need(any(e.endswith('NodeVisitor') for e in ext), 'C07.R1: TopLevelVisitor no longer derives from ast.NodeVisitor (dispatch model unknown)')
    for k in KINDS:
        b = visitor_binding(ctx, k)
        ok = b is not None and b[0] in ('def', 'alias')
        rep.ob(rule, ctx.mloc(ci.module, ci.node), 'TopLevelVisitor.visit_%s' % k, ok,
               ('handler bound by %s' % ('def' if b[0] == 'def' else 'alias of %s' % b[1])) if ok else
               'no handler for ast.%s: ast.NodeVisitor falls back to generic_visit, so the docstring of such a definition is never collected and definitions '
               'nested in its body are recorded under a top-level name' % k, anchor=V)


def _handler_funcs(ctx, with_delegates=True):
    """handlers of the two function kinds; a handler that only delegates to
    another visit_* method of the visitor is followed once"""
    out = []
    for k in ('FunctionDef', 'AsyncFunctionDef'):
        b = visitor_binding(ctx, k)
        if b and b[-1] is not None and b[-1] not in out:
            out.append(b[-1])
    if with_delegates:
        ci = ctx.cls(V)
        for f in list(out):
            recv = f.node.args.args[0].arg
            for c in walk_scope(f.node):
                if isinstance(c, ast.Call) and isinstance(c.func, ast.Attribute) and is_name(c.func.value, recv) and c.func.attr.startswith('visit_'):
                    m = ctx.prog.find_method(ci, c.func.attr)
                    if m is not None and m not in out:
                        out.append(m)
    return out


def _visit_calls(ctx, f):
    g = ctx.cfg(f)
    out = []
    for n in g.nodes:
        for c in node_calls(n):
            if isinstance(c.func, ast.Attribute) and c.func.attr in ('generic_visit', 'visit') and is_name(c.func.value, f.node.args.args[0].arg):
                out.append((n, c))
    return g, out


def r2_no_descent(ctx):
    rep = ctx.rep
    hs = _handler_funcs(ctx)
    rep.floor('C07.R2', 'function-kind handlers', len(hs), 1)
    for f in hs:
        g, calls = _visit_calls(ctx, f)
        reach = graph.reachable([g.entry])
        bad = [(n, c) for (n, c) in calls if any(n is x for x in reach)]
        rep.ob('C07.R2', ctx.loc(f, f.node), '%s never descends' % f.name, not bad,
               'no generic_visit / visit call is reachable: nested functions and classes are not collected' if not bad else
               'the function handler descends into the body (`%s`): nested definitions are collected under top-level names' % ctx.src(bad[0][1]), anchor=f.qualname)


def _record_stores(ctx, f):
    """nodes storing self.calldefs[...] = ..."""
    g = ctx.cfg(f)
    recv = f.node.args.args[0].arg
    out = []
    for n in g.nodes:
        if n.kind == 'stmt' and isinstance(n.ast, ast.Assign):
            for t in n.ast.targets:
                if isinstance(t, ast.Subscript) and field_name(t.value, recv) == recv + '.calldefs':
                    out.append(n)
    return g, out


def _classname_none_fact(fa, recv):
    e = fa.expr
    if isinstance(e, ast.Compare) and len(e.ops) == 1 and isinstance(e.ops[0], ast.Is) and field_name(e.left, recv) == recv + '._current_classname' \
            and isinstance(e.comparators[0], ast.Constant) and e.comparators[0].value is None:
        return fa.polarity
    return None


def r3_class_level(ctx):
    rep = ctx.rep
    b = visitor_binding(ctx, 'ClassDef')
    need(b and b[-1] is not None, 'C07.R3: no visit_ClassDef')
    f = b[-1]
    recv = f.node.args.args[0].arg
    g, stores = _record_stores(ctx, f)
    _, calls = _visit_calls(ctx, f)
    dom = ctx.dom(g, g.entry)
    rep.floor('C07.R3', 'record stores in visit_ClassDef', len(stores), 1)
    rep.floor('C07.R3', 'descent calls in visit_ClassDef', len(calls), 1)
    for what, nodes in (('record store', stores), ('descent', [n for (n, _) in calls])):
        for n in nodes:
            facts = graph.guard_facts(dom, n)
            ok = any(_classname_none_fact(fa, recv) is True for fa in facts)
            rep.ob('C07.R3', ctx.loc(f, n.ast), '%s: %s' % (what, ctx.src(n.ast)), ok,
                   'edge-dominated by "not inside a class": only one level of class nesting is collected' if ok else
                   'the class handler %s for classes nested in classes as well (guards: %s)' % ('records' if what == 'record store' else 'descends', fmt_facts(facts)), anchor=f.qualname)
    # pairing: field set before, reset to None after the descent
    rd = ctx.rd(f)
    for (n, c) in calls:
        defs_before = rd.at(n, recv + '._current_classname')
        set_before = bool(defs_before) and all(not (isinstance(d.value, ast.Constant) and d.value.value is None) and d.kind == 'assign' for d in defs_before)
        resets = [d.node for d in rd.defs_of(recv + '._current_classname') if isinstance(d.value, ast.Constant) and d.value.value is None]
        wit = graph.must_pass(n.nsucc(), lambda x: x is g.exit, through=resets, efilter=graph.normal_only)
        ok = set_before and wit is None
        rep.ob('C07.R3', ctx.loc(f, c), '_current_classname set / reset around %s' % ctx.src(c), ok,
               'the nesting field names the class during the descent and is None again on every normal exit' if ok else
               ('the nesting field is not set before the descent' if not set_before else 'the nesting field is not reset after the descent: later top-level functions would be named Class.func'),
               anchor=f.qualname)


def r3b_reset_ownership(ctx):
    """only the activation that entered a class may leave it: every store of None to the nesting field in the class
    handler is edge-dominated by the true edge of "no enclosing class" (all finally copies included)"""
    rep = ctx.rep
    b = visitor_binding(ctx, 'ClassDef')
    need(b and b[-1] is not None, 'C07.R3: no visit_ClassDef')
    f = b[-1]
    recv = f.node.args.args[0].arg
    g = ctx.cfg(f)
    dom = ctx.dom(g, g.entry)
    n_resets = 0
    for n in g.nodes:
        if n.kind == 'stmt' and isinstance(n.ast, ast.Assign) and any(field_name(t, recv) == recv + '._current_classname' for t in n.ast.targets) and \
                isinstance(n.ast.value, ast.Constant) and n.ast.value.value is None and dom.has(n):
            n_resets += 1
            facts = graph.guard_facts(dom, n)
            ok = any(_classname_none_fact(fa, recv) is True for fa in facts)
            rep.ob('C07.R3', ctx.loc(f, n.ast), ctx.src(n.ast) + (' {%s}' % n.dup[-1][1] if n.dup else ''), ok,
                   'the nesting field is cleared only by the activation that set it' if ok else
                   'the nesting field is cleared on a path where this activation did not set it (a nested class that is merely skipped): the methods that follow '
                   'the nested class are recorded under bare names and later nested classes are collected as top-level', anchor=f.qualname)
    rep.floor('C07.R3', 'resets of the nesting field', n_resets, 1)


def _deep_parts(ctx, f, rd, node, expr, depth=2, _seen=None):
    """sub-expressions that take part in deciding `expr` at `node`: the expression itself, the defining expressions of the local names it reads
    (single plain definition) and the bodies of the repository predicates it calls (inlining bound 1).  Used by presence rules that ask
    which constants / operator classes a decision depends on, so that a condition that was given a name or moved into a helper is still seen."""
    _seen = _seen if _seen is not None else set()
    out = [expr]
    if depth <= 0:
        return out
    for x in ast.walk(expr):
        if isinstance(x, ast.Name) and isinstance(x.ctx, ast.Load) and rd is not None:
            ds = rd.at(node, x.id)
            if len(ds) == 1 and ds[0].kind == 'assign' and isinstance(ds[0].value, ast.AST) and id(ds[0]) not in _seen:
                _seen.add(id(ds[0]))
                out += _deep_parts(ctx, f, rd, ds[0].node, ds[0].value, depth - 1, _seen)
        if isinstance(x, ast.Call):
            r = ctx.res.resolve_call(f, x)
            cal = r[1] if r[0] == 'repo' else (r[2] if r[0] == 'method' else [])
            if len(cal) == 1 and id(cal[0]) not in _seen and cal[0].module is f.module:
                _seen.add(id(cal[0]))
                for st in cal[0].node.body:
                    if isinstance(st, ast.Expr) and isinstance(st.value, ast.Constant):
                        continue        # docstring
                    out.append(st)
    return out


def _str_consts_compared(parts):
    """string constants that occur as operands of == / in comparisons inside the given expressions / statements"""
    out = set()
    for p_ in parts:
        for e in ast.walk(p_):
            if isinstance(e, ast.Compare) and len(e.ops) == 1 and isinstance(e.ops[0], (ast.Eq, ast.In)):
                for side in (e.left, e.comparators[0]):
                    if isinstance(side, ast.Constant) and isinstance(side.value, str):
                        out.add(side.value)
                    if isinstance(side, (ast.Tuple, ast.List, ast.Set)):
                        out |= {x.value for x in side.elts if isinstance(x, ast.Constant) and isinstance(x.value, str)}
    return out


def r4_property_accessors(ctx):
    rep = ctx.rep
    recording = [f for f in _handler_funcs(ctx) if _record_stores(ctx, f)[1]]
    rep.floor('C07.R4', 'function-kind handlers that record', len(recording), 1)
    for f in recording:
        g, stores = _record_stores(ctx, f)
        dom = ctx.dom(g, g.entry)
        consts_guarding_exit = {}
        for n in g.nodes:
            if n.kind == 'stmt' and isinstance(n.ast, ast.Return) and not n.dup:
                # an early exit: the record store is not reachable before it, i.e. it is not dominated by a store
                if any(dom.dominates(s, n) for s in stores):
                    continue
                rd_ = ctx.rd(f)
                for fa in graph.guard_facts(dom, n):
                    if fa.polarity is not True or not isinstance(fa.expr, ast.AST) or fa.origin is None or fa.origin.kind != 'branch':
                        continue
                    tn = fa.origin.attrs['test']
                    for cst in _str_consts_compared(_deep_parts(ctx, f, rd_, tn, fa.expr)):
                        consts_guarding_exit.setdefault(cst, n)
        # the accessor exits depend on the ATTRIBUTE name of the decorator only, not on how the property is reached (`@x.setter`, `@Base.x.setter`)
        for req in ('setter', 'deleter'):
            if req not in consts_guarding_exit:
                continue
            en = consts_guarding_exit[req]
            narrowing = [fa for fa in graph.guard_facts(dom, en) if fa.polarity in (True, False) and isinstance(fa.expr, ast.AST) and
                         any(isinstance(x, ast.Attribute) and x.attr == 'value' and isinstance(x.value, ast.Name) for x in ast.walk(fa.expr))]
            rep.ob('C07.R4', ctx.loc(f, en.ast), '@<anything>.%s is an accessor' % req, not narrowing,
                   'the exit is taken whatever expression the property is reached through' if not narrowing else
                   'the %s exit additionally requires %s: an accessor written through a qualified name (`@Base.prop.%s`) is recorded as a definition of its own and replaces the getter entry' %
                   (req, fmt_facts(narrowing), req), anchor=f.qualname)
        for req in ('setter', 'deleter'):
            ok = req in consts_guarding_exit
            rep.ob('C07.R4', ctx.loc(f, consts_guarding_exit[req].ast if ok else f.node), 'exit for @<prop>.%s' % req, ok,
                   'property %ss are not recorded' % req if ok else 'no early exit for decorator attribute %r: the %s would overwrite / duplicate the getter entry' % (req, req), anchor=f.qualname)
        for bad in ('getter', 'property'):
            ok = bad not in consts_guarding_exit
            rep.ob('C07.R4', ctx.loc(f, f.node), 'no exit for %s' % bad, ok,
                   'getters are collected' if ok else 'the handler skips definitions decorated with %r: property getters lose their doctests' % bad, nontrivial=False, anchor=f.qualname)
        # every non-exit path reaches the record store
        exits_guarded = list(consts_guarding_exit.values())
        wit = graph.must_pass([g.entry], lambda x: x is g.exit, through=stores + exits_guarded, efilter=graph.normal_only)
        rep.ob('C07.R4', ctx.loc(f, f.node), 'every other path records the definition', wit is None,
               'all normal paths other than the accessor exits store the calldef' if wit is None else 'a function definition can be dropped without being recorded',
               witness=None if wit is None else graph.fmt_path(wit, f.module.relpath), anchor=f.qualname)


def r4b_delegation(ctx):
    rep = ctx.rep
    recording = [f for f in _handler_funcs(ctx) if _record_stores(ctx, f)[1]]
    for k in ('FunctionDef', 'AsyncFunctionDef'):
        b = visitor_binding(ctx, k)
        if b and b[-1] is not None:
            ok = _reaches_recording(ctx, b[-1], recording)
            rep.ob('C07.R4', ctx.loc(b[-1], b[-1].node), 'visit_%s records the definition' % k, ok,
                   'the handler stores the calldef (directly or by delegating to the function handler on every path)' if ok else
                   'the handler of ast.%s does not record the definition' % k, anchor=b[-1].qualname)


def _reaches_recording(ctx, f, recording, depth=0):
    if f in recording:
        return True
    if depth > 1:
        return False
    ci = ctx.cls(V)
    recv = f.node.args.args[0].arg
    g = ctx.cfg(f)
    calls = []
    for n in g.nodes:
        for c in node_calls(n):
            if isinstance(c.func, ast.Attribute) and is_name(c.func.value, recv) and c.func.attr.startswith('visit_'):
                m = ctx.prog.find_method(ci, c.func.attr)
                if m is not None and _reaches_recording(ctx, m, recording, depth + 1):
                    calls.append(n)
    if not calls:
        return False
    return graph.must_pass([g.entry], lambda x: x is g.exit, through=calls, efilter=graph.normal_only) is None


def r5_main_guard(ctx):
    rep = ctx.rep
    ci = ctx.cls(V)
    f = ctx.prog.find_method(ci, 'visit_If')
    if f is None:
        rep.ob('C07.R5', ctx.mloc(ci.module, ci.node), 'TopLevelVisitor.visit_If', False,
               'no If handler: code under `if __name__ == "__main__":` is collected', anchor=V)
        return
    g, calls = _visit_calls(ctx, f)
    descents = [n for (n, c) in calls if c.func.attr == 'generic_visit']

    rd_if = ctx.rd(f)

    def deep(n):
        return _deep_parts(ctx, f, rd_if, n.attrs['test'], n.attrs['test'].ast)

    def is_main_branch(n):
        if n.kind != 'branch' or n.attrs['test'].kind != 'test' or n.attrs['polarity'] is not True:
            return False
        cs = {x.value for p_ in deep(n) for x in ast.walk(p_) if isinstance(x, ast.Constant) and isinstance(x.value, str)}
        return {'__name__', '__main__'} <= cs
    main_branches = [n for n in g.nodes if is_main_branch(n)]
    # (a) some exit without descent exists and is guarded by the main test
    skip = None
    for mb in main_branches:
        skip = skip or graph.path([mb], lambda x: x is g.exit, efilter=graph.normal_only, avoid=descents)
    rep.ob('C07.R5', ctx.loc(f, f.node), 'exit without descent under the __main__ test', skip is not None,
           'the `__name__ == "__main__"` block is skipped' if skip is not None else 'the main guard is not skipped: doctests of code under it are collected', anchor=f.qualname)
    dom_if = ctx.dom(g, g.entry)
    for mb in main_branches:
        # the skip must also be conditional on the comparison operator being ==
        ops = set()
        for gb in dom_if.guards(mb) + [mb]:
            if gb.kind == 'branch' and gb.attrs['test'].kind == 'test' and gb.attrs['polarity'] is True:
                ops |= {x.attr if isinstance(x, ast.Attribute) else x.id for p_ in deep(gb) for x in ast.walk(p_) if isinstance(x, (ast.Attribute, ast.Name))}
        ok_op = 'Eq' in ops
        rep.ob('C07.R5', ctx.loc(f, mb.attrs['test'].ast), 'main guard is an == comparison', ok_op,
               'the skip is conditional on the operator being ast.Eq' if ok_op else
               'the operator of the comparison is not examined: `if __name__ != "__main__":` (which does run on import) is skipped as well', anchor=f.qualname)
    for mb in main_branches:
        # the three conditions (operator, left side, right side) hold TOGETHER: combined by `any` / `or` the block of every `if X == <anything>:` and
        # every comparison of __name__ is skipped like the main guard
        t_ = mb.attrs['test'].ast
        disj = (isinstance(t_, ast.Call) and is_name(t_.func, 'any')) or (isinstance(t_, ast.BoolOp) and isinstance(t_.op, ast.Or))
        mentions = {x.value for x in ast.walk(t_) if isinstance(x, ast.Constant) and isinstance(x.value, str)}
        if {'__name__', '__main__'} & mentions:
            rep.ob('C07.R5', ctx.loc(f, t_), 'the conditions of the main guard hold together', not disj,
                   'conjunction of the operator, name and value tests' if not disj else
                   'the tests that recognise `if __name__ == "__main__":` are combined by `%s`: any ONE of them suffices, so every `if <name> == ...:` block and every comparison of '
                   '__name__ is skipped, with all functions and classes defined in it' % ('any' if isinstance(t_, ast.Call) else 'or'), anchor=f.qualname)
    for mb in main_branches:
        p = graph.path([mb], lambda x: any(x is d for d in descents), efilter=graph.normal_only)
        rep.ob('C07.R5', ctx.loc(f, mb.attrs['test'].ast), 'main-guard branch: %s' % ctx.src(mb.attrs['test'].ast, 90), p is None,
               'the branch taken for `if __name__ == "__main__":` leaves without descending' if p is None else
               'a branch that recognised the main guard still descends into it (line %d): doctests under the main guard are collected' % p[-1].lineno, anchor=f.qualname)
    # (b) every other path descends
    wit = graph.must_pass([g.entry], lambda x: x is g.exit, through=descents + main_branches)
    rep.ob('C07.R5', ctx.loc(f, f.node), 'all other paths descend', wit is None,
           'definitions under ordinary conditionals are collected' if wit is None else 'an If that is not the main guard can be skipped',
           witness=None if wit is None else graph.fmt_path(wit, f.module.relpath), anchor=f.qualname)


def r6_package_walk(ctx):
    rep = ctx.rep
    q = 'xdoctest.static_analysis.package_modpaths'
    f = ctx.func(q)
    g = ctx.cfg(f)
    rd = ctx.rd(f)
    walks = [n for n in g.nodes if n.kind == 'for' and not n.dup and isinstance(n.ast.iter, ast.Call) and ast.unparse(n.ast.iter.func) in ('os.walk', 'walk')]
    need(len(walks) == 1, 'C07.R6: os.walk loop not found in package_modpaths')
    lp = walks[0]
    tgt = lp.ast.target
    need(isinstance(tgt, ast.Tuple) and len(tgt.elts) == 3 and all(isinstance(e, ast.Name) for e in tgt.elts), 'C07.R6: unrecognised os.walk target')
    dnames = tgt.elts[1].id
    dpath = tgt.elts[0].id
    # every path built inside the walk starts at the directory being walked (not at the root, which is the same thing on the first iteration only)
    joins = [c for st in lp.ast.body for c in ast.walk(st) if isinstance(c, ast.Call) and ast.unparse(c.func) in ('join', 'os.path.join', 'path.join') and c.args]
    rep.floor('C07.R6', 'paths joined inside the walk loop', len(joins), 2)
    for c in joins:
        ok = is_name(c.args[0], dpath)
        need(ok or isinstance(c.args[0], ast.Name), 'C07.R6: base of %s is not a plain name' % ctx.src(c))
        rep.ob('C07.R6', ctx.loc(f, c), ctx.src(c), ok,
               'relative to the walked directory `%s`' % dpath if ok else
               'the path is joined to `%s` instead of the walked directory `%s`: below the first level the file tested / yielded is not the one in the directory being visited '
               '(the __init__.py of nested sub-packages is never yielded)' % (ctx.src(c.args[0]), dpath), anchor=q)
    entry, cut = graph.region_of_loop(g, lp)
    dom = ctx.dom(g, entry, cut)
    # the package test: a test mentioning a name defined from an expression that mentions '__init__.py'
    pk_tests = []
    for n in g.nodes:
        if n.kind == 'test' and graph.in_loop_body(n, lp.ast) and not n.dup:
            for nm in ast.walk(n.ast):
                if isinstance(nm, ast.Name):
                    for d in rd.at(n, nm.id):
                        if isinstance(d.value, ast.AST) and any(isinstance(x, ast.Constant) and x.value == '__init__.py' for x in ast.walk(d.value)) and graph.in_loop_body(d.node, lp.ast):
                            if n not in pk_tests:
                                pk_tests.append(n)
            # ... or that mentions '__init__.py' itself (the condition written into the test)
            if n not in pk_tests and any(isinstance(x, ast.Constant) and x.value == '__init__.py' for x in ast.walk(n.ast)):
                pk_tests.append(n)
    # only tests that directly follow the definition (top-level in the loop body)
    pk_tests = [t for t in pk_tests if not any(fr.kind == 'loop' and fr.stmt is not lp.ast for fr in t.frames)]
    need(pk_tests, 'C07.R6: package test (__init__.py existence) not found in the walk loop')
    t = pk_tests[0]
    # which branch is "certainly not a package": the one whose facts contain the package flag with polarity False
    pk_names = set()
    for nm in ast.walk(t.ast):
        if isinstance(nm, ast.Name):
            for d in rd.at(t, nm.id):
                if isinstance(d.value, ast.AST) and any(isinstance(x, ast.Constant) and x.value == '__init__.py' for x in ast.walk(d.value)):
                    pk_names.add(nm.id)
    fb, tb = [], []
    for b in t.nsucc():
        if b.kind != 'branch':
            continue
        fs_ = graph.facts_of(t.ast, b.attrs['polarity'], b)
        if any(isinstance(fa.expr, ast.Name) and fa.expr.id in pk_names and fa.polarity is False for fa in fs_):
            fb.append(b)
        else:
            tb.append(b)
    need(len(fb) == 1 and len(tb) == 1, 'C07.R6: the package test does not split into a "not a package" branch and its complement')
    region = [n for n in graph.reachable(fb, efilter=graph.normal_only, stop=[lp]) if dom.has(n) and any(dom.dominates(b, n) for b in fb)]
    cleared = False
    clear_nodes = []
    for n in region:
        if n.kind != 'stmt':
            continue
        s = n.ast
        was = cleared
        if isinstance(s, ast.Delete) and any(isinstance(x, ast.Subscript) and is_name(x.value, dnames) and isinstance(x.slice, ast.Slice) and x.slice.lower is None and x.slice.upper is None for x in s.targets):
            cleared = True
        if isinstance(s, ast.Assign) and any(isinstance(x, ast.Subscript) and is_name(x.value, dnames) and isinstance(x.slice, ast.Slice) for x in s.targets) and \
                isinstance(s.value, (ast.List, ast.Tuple)) and not s.value.elts:
            cleared = True
        for c in node_calls(n):
            if isinstance(c.func, ast.Attribute) and c.func.attr == 'clear' and is_name(c.func.value, dnames):
                cleared = True
        if cleared and not was:
            clear_nodes.append(n)
            cleared = False
    cleared = bool(clear_nodes)
    # the list that is emptied must be the very object os.walk handed out (os.walk reads it back to decide where to descend)
    rebound = []
    for n in clear_nodes:
        for d in rd.at(n, dnames):
            if d.kind != 'iter':
                rebound.append(d)
    if clear_nodes:
        rep.ob('C07.R6', ctx.loc(f, clear_nodes[0].ast), '`%s` is still the list handed out by os.walk' % dnames, not rebound,
               'the name has not been rebound inside the loop body' if not rebound else
               '`%s` was rebound by `%s`: emptying it no longer prunes the walk, which now descends into directories without __init__.py and yields the modules of packages below them'
               % (dnames, ctx.src(rebound[0].node.ast)), anchor=q)
    yields_in = [n for n in region if n.kind == 'stmt' and any(isinstance(x, (ast.Yield, ast.YieldFrom)) for x in ast.walk(n.ast))]
    rep.ob('C07.R6', ctx.loc(f, t.ast), 'not a package -> prune `%s` in place' % dnames, cleared,
           'the directory list handed out by os.walk is emptied in place on the non-package branch' if cleared else
           'directories without __init__.py are not pruned: the walk descends into directories outside the package', anchor=q)
    rep.ob('C07.R6', ctx.loc(f, t.ast), 'no yield on the non-package branch', not yields_in,
           'nothing is yielded for a directory that is not a package' if not yields_in else 'modules of a non-package directory are yielded', anchor=q)
    # all yields in the loop are under the package branch
    for n in g.nodes:
        if n.kind == 'stmt' and graph.in_loop_body(n, lp.ast) and not n.dup and any(isinstance(x, (ast.Yield, ast.YieldFrom)) for x in ast.walk(n.ast)):
            ok = dom.has(n) and any(dom.dominates(b, n) for b in tb)
            rep.ob('C07.R6', ctx.loc(f, n.ast), ctx.src(n.ast), ok,
                   'yield is edge-dominated by the package test' if ok else 'a path is yielded without the package test', anchor=q)


def r7_keys(ctx):
    rep = ctx.rep
    # (a) google examples: num from enumerate, one yield per block
    q = 'xdoctest.core.parse_google_docstr_examples'
    f = ctx.func(q)
    g = ctx.cfg(f)
    rd = ctx.rd(f)
    ctor = []
    for n in g.nodes:
        for c in node_calls(n):
            r = ctx.res.resolve_call(f, c)
            if r[0] == 'class' and r[1].qualname == 'xdoctest.doctest_example.DocTest':
                ctor.append((n, c))
    rep.floor('C07.R7', 'DocTest constructions in the google parser', len(ctor), 1)
    for (n, c) in ctor:
        num = c.args[3] if len(c.args) >= 4 else None
        for kw in c.keywords:
            if kw.arg == 'num':
                num = kw.value
        ok = False
        if isinstance(num, ast.Name):
            defs = rd.at(n, num.id)
            ok = bool(defs) and all(d.kind == 'iter' and isinstance(d.base, ast.Call) and is_name(d.base.func, 'enumerate') and isinstance(d.value, tuple) and d.value[2] == 0 for d in defs)
        rep.ob('C07.R7', ctx.loc(f, c), 'num=%s' % (ctx.src(num) if num is not None else '?'), ok,
               'the per-docstring index is the enumerate counter of the example blocks' if ok else 'the example index does not come from enumerating the example blocks', anchor=q)
        loops = [fr for fr in n.frames if fr.kind == 'loop']
        if loops:
            lp = loops[-1].head
            entry, cut = graph.region_of_loop(g, lp)
            ys = lambda x: x.kind == 'stmt' and any(isinstance(y, ast.Yield) for y in ast.walk(x.ast))
            res = graph.count_events(entry, ys, lambda x: x is lp, efilter=graph.normal_only)
            if res:
                (_, lo, hi, _, _) = next(iter(res.values()))
                rep.ob('C07.R7', ctx.loc(f, lp.ast), 'yields per example block', (lo, hi) == (1, 1),
                       'exactly one example is yielded per block' if (lo, hi) == (1, 1) else 'between %d and %d examples per block' % (lo, hi), anchor=q)
    # (a3) which blocks are examples: decided on the label by PREFIX.  The splitter derives the label with .strip().rstrip(':'), which keeps
    # a blank written before the colon (`Example :` -> 'Example ') and plural / aliased spellings it does not canonicalise: an exact
    # comparison of the label silently drops such blocks
    tags = {'Example', 'Doctest'}
    label_tests = []
    for x in walk_scope(f.node):
        if isinstance(x, ast.Call) and isinstance(x.func, ast.Attribute) and x.func.attr == 'startswith' and isinstance(x.func.value, ast.Name) and x.args:
            try:
                v = consts.Folder(ctx.prog).fold(f.module, x.args[0], None, f)
            except consts.NotConstant:
                v = None
            v = (v,) if isinstance(v, str) else v
            if isinstance(v, (tuple, list, set, frozenset)) and tags <= set(v):
                label_tests.append((x, True))
            elif v is None and x.func.value.id in ('type', 'type_', 'tag', 'label', 'key', 'kind', 'block_type'):
                label_tests.append((x, True))       # prefix test against a tag held in a variable
        if isinstance(x, ast.Compare) and len(x.ops) == 1 and isinstance(x.ops[0], (ast.In, ast.Eq)) and isinstance(x.left, ast.Name):
            try:
                v = consts.Folder(ctx.prog).fold(f.module, x.comparators[0], None, f)
            except consts.NotConstant:
                v = None
            v = (v,) if isinstance(v, str) else v
            if isinstance(v, (tuple, list, set, frozenset)) and (tags & set(v)):
                label_tests.append((x, False))
    need(label_tests, 'C07.R7: how example blocks are told from the other google blocks was not recognised')
    for (x, okk) in label_tests:
        rep.ob('C07.R7', ctx.loc(f, x), ctx.src(x, 70), okk,
               'example blocks are recognised by the prefix of their label' if okk else
               'the block label is compared exactly: the splitter keeps a blank written before the colon in the label (`Example :` is labelled "Example "), so such a block is '
               'not an example any more and its doctests are silently not collected', anchor=q)
    # (a2) the filtered list is one pass over the split blocks, in their order
    blocks_defs = [d for d in rd.defs if isinstance(d.base, ast.Call) and ctx.res.resolve_call(f, d.base)[0] == 'repo' and ctx.res.resolve_call(f, d.base)[1][0].name == 'split_google_docblocks']
    need(blocks_defs, 'C07.R7: result of split_google_docblocks not bound')
    bname = blocks_defs[0].name
    enum_loops = [n for n in g.nodes if n.kind == 'for' and not n.dup and isinstance(n.ast.iter, ast.Call) and is_name(n.ast.iter.func, 'enumerate') and n.ast.iter.args and isinstance(n.ast.iter.args[0], ast.Name)]
    for el in enum_loops:
        lst = el.ast.iter.args[0].id
        if lst == bname:
            continue
        apps = [n for n in g.nodes if not n.dup and any(isinstance(c.func, ast.Attribute) and c.func.attr in ('append', 'extend', 'insert') and is_name(c.func.value, lst) for c in node_calls(n))]
        ok = bool(apps)
        why = ''
        if not apps:
            # a single comprehension over the split blocks keeps their order as well
            ldefs = [d for d in rd.defs if d.name == lst]
            comp = ldefs[0].value if len(ldefs) == 1 and isinstance(ldefs[0].value, ast.AST) else None
            if isinstance(comp, ast.Call) and is_name(comp.func, 'list') and len(comp.args) == 1:
                comp = comp.args[0]
            if isinstance(comp, (ast.ListComp, ast.GeneratorExp)):
                ok = len(comp.generators) == 1 and is_name(comp.generators[0].iter, bname)
                why = '' if ok else 'comprehension over %s' % [ctx.src(gn.iter) for gn in comp.generators]
            else:
                need(False, 'C07.R7: how `%s` is filled from the split blocks is not a recognised form' % lst)
        for a in apps:
            lf = [fr for fr in a.frames if fr.kind == 'loop']
            if len(lf) != 1 or not is_name(lf[0].stmt.iter, bname):
                ok = False
                why = 'filled inside %d loop(s) over %s' % (len(lf), [ctx.src(fr.stmt.iter) for fr in lf])
            if any(isinstance(c.func, ast.Attribute) and c.func.attr == 'insert' for c in node_calls(a)):
                ok = False
                why = 'filled with insert()'
        resorted = [c for c in ast.walk(f.node) if isinstance(c, ast.Call) and ((isinstance(c.func, ast.Name) and c.func.id in ('sorted', 'reversed')) or (isinstance(c.func, ast.Attribute) and c.func.attr in ('sort', 'reverse')))
                    and any(is_name(x, lst) for x in ast.walk(c))]
        ok = ok and not resorted
        rep.ob('C07.R7', ctx.loc(f, el.ast), 'example list `%s` keeps the order of the docstring blocks' % lst, ok,
               'filled by a single pass over the split blocks, never re-ordered' if ok else
               'the example blocks are not collected in docstring order (%s): indices and order of the doctests of one docstring change' % (why or 're-sorted'), anchor=q)
    # (b) parse_doctestables: callname from the calldefs key
    q2 = 'xdoctest.core.parse_doctestables'
    f2 = ctx.func(q2)
    g2 = ctx.cfg(f2)
    rd2 = ctx.rd(f2)
    n_calls = 0
    for n in g2.nodes:
        for c in node_calls(n):
            r = ctx.res.resolve_call(f2, c)
            if r[0] == 'repo' and r[1][0].qualname == 'xdoctest.core.parse_docstr_examples':
                n_calls += 1
                cn = None
                for kw in c.keywords:
                    if kw.arg == 'callname':
                        cn = kw.value
                if cn is None and len(c.args) >= 2:
                    cn = c.args[1]
                ok = False
                if isinstance(cn, ast.Name):
                    defs = rd2.at(n, cn.id)
                    ok = bool(defs) and all(d.kind == 'iter' and isinstance(d.base, ast.Call) and isinstance(d.base.func, ast.Attribute) and d.base.func.attr == 'items' and isinstance(d.value, tuple) and d.value[2] == 0 for d in defs)
                rep.ob('C07.R7', ctx.loc(f2, c), 'callname=%s' % (ctx.src(cn) if cn is not None else '?'), ok,
                       'the doctest name is the key of the calldefs mapping' if ok else 'the doctest name does not come from the calldefs key', anchor=q2)
    rep.floor('C07.R7', 'parse_docstr_examples calls in parse_doctestables', n_calls, 1)
    # (c) calldefs is a mapping
    ci = ctx.cls(V)
    init = ctx.prog.find_method(ci, '__init__')
    ok = False
    for sub in ast.walk(init.node):
        if isinstance(sub, ast.Assign) and any(isinstance(t, ast.Attribute) and t.attr == 'calldefs' for t in sub.targets):
            v = sub.value
            ok = isinstance(v, ast.Dict) or (isinstance(v, ast.Call) and ast.unparse(v.func).split('.')[-1] in ('OrderedDict', 'dict'))
    rep.ob('C07.R7', ctx.loc(init, init.node), 'calldefs is a mapping', ok, 'duplicates cannot yield two tests under one name' if ok else 'calldefs is not a mapping', nontrivial=False, anchor=V)


# ---------------------------------------------------------------------------
# statement kinds that can hold definitions in nested statement lists, and the fields holding them
COMPOUND_FIELDS = {
    'Try': ('body', 'handlers', 'orelse', 'finalbody'), 'TryStar': ('body', 'handlers', 'orelse', 'finalbody'),
    'With': ('body',), 'AsyncWith': ('body',), 'For': ('body', 'orelse'), 'AsyncFor': ('body', 'orelse'), 'While': ('body', 'orelse'),
    'Match': ('cases',), 'ExceptHandler': ('body',), 'match_case': ('body',),
}


def r8_compound_statements_descend(ctx, rule='C07.R8'):
    """definitions under try / with / for / while / match are module-level definitions at import time (the dynamic collector sees
    them): a visitor override for such a statement kind must still visit every nested statement list.  (`If` has its own rule R5.)"""
    rep = ctx.rep
    ci = ctx.cls(V)
    n = 0
    for kind, fields in sorted(COMPOUND_FIELDS.items()):
        b = visitor_binding(ctx, kind)
        if b is None:
            continue            # ast.NodeVisitor.generic_visit descends everywhere
        n += 1
        f = b[-1]
        if f is None:
            rep.ob(rule, ctx.mloc(ci.module, ci.node), 'TopLevelVisitor.visit_%s' % kind, False, 'bound to something that is not a method of the visitor', anchor=V)
            continue
        g, calls = _visit_calls(ctx, f)
        recv = f.node.args.args[0].arg
        node_p = f.node.args.args[1].arg if len(f.node.args.args) > 1 else None
        gv = [nn for (nn, c) in calls if c.func.attr == 'generic_visit' and c.args and is_name(c.args[0], node_p)]
        wit = graph.must_pass([g.entry], lambda x: x is g.exit, through=gv, efilter=graph.normal_only)
        if wit is None and gv:
            rep.ob(rule, ctx.loc(f, f.node), 'visit_%s descends' % kind, True, 'generic_visit(node) on every normal path', anchor=f.qualname)
            continue
        # explicit visits of some fields
        visited = {x.attr for x in ast.walk(f.node) if isinstance(x, ast.Attribute) and is_name(x.value, node_p) and x.attr in fields}
        missing = [fl for fl in fields if fl not in visited]
        visits_any = any(c.func.attr == 'visit' for (_, c) in calls)
        ok = not missing and visits_any
        rep.ob(rule, ctx.loc(f, f.node), 'visit_%s descends' % kind, ok,
               'every nested statement list is visited explicitly' if ok else
               'the override for ast.%s does not visit %s: definitions written there exist after import (the dynamic collector yields them) but are invisible to static collection'
               % (kind, missing or 'its children'), anchor=f.qualname)
    rep.note('compound_statement_overrides', n)
    # an override of generic_visit replaces the descent of ast.NodeVisitor for EVERY node kind without a handler
    bgv = None
    classes, _ = ctx.prog.mro(ci)
    for c in classes:
        if 'generic_visit' in c.methods:
            bgv = c.methods['generic_visit']
            break
    if bgv is not None:
        fg = bgv
        g, calls = _visit_calls(ctx, fg)
        node_p = fg.node.args.args[1].arg if len(fg.node.args.args) > 1 else None
        # (a) delegates to the stock implementation on every path
        sup = [nn for nn in g.nodes for c in node_calls(nn) if isinstance(c.func, ast.Attribute) and c.func.attr == 'generic_visit' and
               (ast.unparse(c.func.value) in ('super()', 'ast.NodeVisitor') or (isinstance(c.func.value, ast.Call) and is_name(c.func.value.func, 'super')))]
        wit = graph.must_pass([g.entry], lambda x: x is g.exit, through=sup, efilter=graph.normal_only)
        if sup and wit is None:
            rep.ob(rule, ctx.loc(fg, fg.node), 'generic_visit override delegates to ast.NodeVisitor', True, 'stock descent on every path', anchor=fg.qualname)
        else:
            txt = ast.unparse(fg.node)
            generic = any(k in txt for k in ('iter_child_nodes', 'iter_fields', '_fields'))
            consts_ = {x.value for x in ast.walk(fg.node) if isinstance(x, ast.Constant) and isinstance(x.value, str)}
            # field lists kept in a class-level or module-level constant
            for x in ast.walk(fg.node):
                nm = x.attr if isinstance(x, ast.Attribute) and is_name(x.value, fg.node.args.args[0].arg) else (x.id if isinstance(x, ast.Name) else None)
                for holder in [c_.assigns for c_ in classes] + [fg.module.assigns]:
                    if nm in holder and isinstance(holder[nm], (ast.Tuple, ast.List, ast.Set)):
                        consts_ |= {e.value for e in holder[nm].elts if isinstance(e, ast.Constant) and isinstance(e.value, str)}
            required = set()
            for fs_ in COMPOUND_FIELDS.values():
                required |= set(fs_)
            if generic and not (consts_ & required):
                # a generic walk may still filter the children it visits: the filter has to let through every node kind that
                # can stand between a statement and the statements nested in it (ast.stmt, ast.excepthandler, ast.match_case)
                dom_g = ctx.dom(g, g.entry)
                vis = [(nn, c) for (nn, c) in calls if c.func.attr == 'visit']
                need(vis, '%s: the generic_visit override never calls visit' % rule)
                carriers = {'stmt', 'excepthandler', 'match_case'}
                bad = None
                for (nn, c) in vis:
                    for x in graph.guard_facts(dom_g, nn):
                        e = x.expr
                        if isinstance(e, ast.Call) and is_name(e.func, 'isinstance') and len(e.args) == 2:
                            ts = e.args[1].elts if isinstance(e.args[1], (ast.Tuple, ast.List)) else [e.args[1]]
                            names = {t.attr if isinstance(t, ast.Attribute) else getattr(t, 'id', None) for t in ts}
                            if x.polarity is True:
                                if 'AST' in names or carriers <= names:
                                    continue
                                if names & (carriers | {'expr', 'mod'}) or all(nm_ is not None for nm_ in names):
                                    bad = (c, sorted(carriers - names))
                                    continue
                            elif x.polarity is False and not (names & (carriers | {'AST'})):
                                continue
                            if x.polarity is False and names & carriers:
                                bad = (c, sorted(names & carriers))
                                continue
                        if x.origin is not None and x.origin.attrs.get('polarity') == 'iter':
                            continue
                        if isinstance(e, ast.Compare) and any(isinstance(o, (ast.Is, ast.IsNot)) for o in e.ops) and any(isinstance(cm, ast.Constant) and cm.value is None for cm in e.comparators):
                            continue
                        raise AnalysisError('%s: the generic_visit override visits children under a condition that was not recognised: %s' % (rule, ctx.src(e, 80)))
                rep.ob(rule, ctx.loc(fg, fg.node), 'generic_visit override walks all fields', bad is None,
                       'iterates the fields of the node generically' if bad is None else
                       'the overriding generic_visit only descends into children of some node classes and leaves out ast.%s: definitions nested under such a node '
                       '(e.g. in a `match ... case` arm) exist after import but are invisible to static collection' % ', ast.'.join(bad[1]), anchor=fg.qualname)
            elif consts_ & required:
                missing = sorted(required - consts_)
                rep.ob(rule, ctx.loc(fg, fg.node), 'generic_visit override descends into %s' % sorted(consts_ & required), not missing,
                       'every field that can hold nested statements is listed' if not missing else
                       'the overriding generic_visit only descends into a fixed list of fields and misses %s: definitions written there (e.g. under `match ... case`) are not collected' % missing,
                       anchor=fg.qualname)
            else:
                raise AnalysisError('C07.R8: generic_visit is overridden in a way that was not recognised')


def r9_google_tag_pattern(ctx):
    """REGEX-FACT (finite samples on the folded pattern): a google block label is recognised with one or two colons and with blanks before the
    colon and after it -- an `Example: ` line with a trailing blank is still the label of an example block, not prose"""
    import re as _re
    from .common import fold_text
    rep = ctx.rep
    f = ctx.func('xdoctest.docstr.docscrape_google.split_google_docblocks')
    uses = [c for c in walk_scope(f.node) if isinstance(c, ast.Call) and isinstance(c.func, ast.Attribute) and is_name(c.func.value, 're') and c.func.attr in ('match', 'search', 'fullmatch') and c.args]
    # ... or through a pattern object compiled in this function: rx = re.compile(P); rx.match(line)
    compiled = {}
    for x in walk_scope(f.node):
        if isinstance(x, ast.Assign) and len(x.targets) == 1 and isinstance(x.targets[0], ast.Name) and isinstance(x.value, ast.Call) and isinstance(x.value.func, ast.Attribute) \
                and is_name(x.value.func.value, 're') and x.value.func.attr == 'compile' and x.value.args:
            compiled[x.targets[0].id] = x.value.args[0]
    via = [c for c in walk_scope(f.node) if isinstance(c, ast.Call) and isinstance(c.func, ast.Attribute) and isinstance(c.func.value, ast.Name) and c.func.value.id in compiled
           and c.func.attr in ('match', 'search', 'fullmatch')]
    rep.floor('C07.R9', 'applications of the block-label pattern', len(uses) + len(via), 2)
    def leaves(e):
        if isinstance(e, ast.BinOp) and isinstance(e.op, ast.Add):
            return leaves(e.left) + leaves(e.right)
        return [e]

    def pattern_text(e):
        if isinstance(e, ast.Name):
            ds = [x for x in walk_scope(f.node) if isinstance(x, ast.Assign) and len(x.targets) == 1 and is_name(x.targets[0], e.id)]
            need(len(ds) == 1, 'C07.R9: the block-label pattern `%s` has several definitions' % e.id)
            e = ds[0].value
        out = ''
        for lf in leaves(e):
            if isinstance(lf, ast.Call) and isinstance(lf.func, ast.Attribute) and lf.func.attr == 'join' and isinstance(lf.func.value, ast.Constant) and lf.func.value.value == '|':
                out += 'Example|Doctest|Args|Returns'     # the alternation of tag names (a table, not part of the shape that is decided here)
            else:
                out += fold_text(ctx, f, lf)
        return out
    pats = {}
    for c in uses:
        pats.setdefault(pattern_text(c.args[0]), []).append(c)
    for c in via:
        pats.setdefault(pattern_text(compiled[c.func.value.id]), []).append(c)
    for pat, cs in pats.items():
        rx = _re.compile(pat)
        meth = cs[0].func.attr
        samples = [('Example:', True), ('Example::', True), ('Example: ', True), ('Example:   ', True), ('Example :', True), ('Doctest:', True), ('Args:', True), ('Returns:  ', True),
                   ('Example: text after', False), ('Examples of use', False), ('    Example:', False), ('NotATag:', False)]
        bad = [(t, bool(getattr(rx, meth)(t))) for (t, w) in samples if bool(getattr(rx, meth)(t)) != w]
        rep.ob('C07.R9', ctx.loc(f, cs[0]), 'block label pattern %r' % pat[-24:], not bad,
               'labels with one or two colons and surrounding blanks are recognised, prose is not (12 samples)' if not bad else
               'the block label pattern decides wrongly for %s: such a block is not split off (with google style its doctests are dropped, with auto the indices shift)' % bad, anchor=f.qualname)


def r10_collection_options_are_forwarded(ctx):
    """CONFIG-FLOW along the collection chain: parse_doctestables hands `style` (and the parser options) to parse_docstr_examples and
    `analysis`, `exclude`, `ignore_syntax_errors` to package_calldefs, which hands `analysis` to parse_calldefs -- an option that is not handed on
    silently becomes the callee's default (`auto` style for everybody).  And the walk over a package asks for modules AND package
    `__init__` files (`with_pkg=True`, `with_mod` left on): otherwise the doctests of every `__init__.py` are never collected"""
    rep = ctx.rep
    chain = [('xdoctest.core.parse_doctestables', 'xdoctest.core.parse_docstr_examples'),
             ('xdoctest.core.parse_doctestables', 'xdoctest.core.package_calldefs'),
             ('xdoctest.core.package_calldefs', 'xdoctest.core.parse_calldefs')]
    n = 0
    for (qa, qb) in chain:
        fa_, fb = ctx.func(qa), ctx.func(qb)
        pa = [a.arg for a in fa_.node.args.args + fa_.node.args.kwonlyargs]
        pb = [a.arg for a in fb.node.args.args + fb.node.args.kwonlyargs]
        calls = [c for c in walk_scope(fa_.node) if isinstance(c, ast.Call) and ctx.res.resolve_call(fa_, c)[0] == 'repo' and ctx.res.resolve_call(fa_, c)[1][0] is fb]
        need(calls, 'C07.R10: %s does not call %s' % (fa_.name, fb.name))
        for c in calls:
            passed = {k.arg for k in c.keywords if k.arg} | set(pb[:len(c.args)])
            for opt in pb:
                if opt in pa:
                    n += 1
                    ok = opt in passed
                    rep.ob('C07.R10', ctx.loc(fa_, c), '%s -> %s(%s=...)' % (fa_.name, fb.name, opt), ok, 'handed on' if ok else
                           'the option `%s` of %s is not handed on to %s: the callee uses its own default whatever the user chose (for `style` every docstring is then parsed as `auto`)' % (opt, fa_.name, fb.name),
                           anchor=qa)
    rep.floor('C07.R10', 'options shared along the collection chain', n, 6)
    # the package walk
    fp = ctx.func('xdoctest.core.package_calldefs')
    walks = [c for c in walk_scope(fp.node) if isinstance(c, ast.Call) and ast.unparse(c.func).endswith('package_modpaths')]
    need(walks, 'C07.R10: package_calldefs does not walk the package through package_modpaths')
    fw = ctx.func('xdoctest.static_analysis.package_modpaths')
    a = fw.node.args
    dflt = dict(zip([x.arg for x in a.args[len(a.args) - len(a.defaults):]], a.defaults))
    for c in walks:
        for opt in ('with_pkg', 'with_mod'):
            v = next((k.value for k in c.keywords if k.arg == opt), dflt.get(opt))
            ok = isinstance(v, ast.Constant) and v.value is True
            rep.ob('C07.R10', ctx.loc(fp, c), 'package walk: %s=%s' % (opt, ctx.src(v) if v is not None else '?'), ok,
                   'both module files and package __init__ files are visited' if ok else
                   'the package walk runs with %s off: %s are never collected' % (opt, 'the doctests of package __init__.py files' if opt == 'with_pkg' else 'the module files of the package'), anchor=fp.qualname)


# ---------------------------------------------------------------------------
from ..selftest import fire, silent      # noqa: E402

SA = 'xdoctest/static_analysis.py'
CO = 'xdoctest/core.py'
VARIANTS = [
    fire('main-guard-conditions-combined-by-any', 'C07.R5', (SA, "                if IS_PY_GE_312:\n                    if all([\n", "                if IS_PY_GE_312:\n                    if any([\n")),
    fire('accessor-exit-only-for-plain-names', 'C07.R4', (SA, "                if isinstance(decor, ast.Attribute):\n", "                if (isinstance(decor, ast.Attribute) and\n                        isinstance(decor.value, ast.Name)):\n")),
    fire('style-not-forwarded-to-the-docstring-parser', 'C07.R10', ('xdoctest/core.py', "                    style=style, parser_kw=parser_kw)\n", "                    parser_kw=parser_kw)\n")),
    fire('package-init-files-not-walked', 'C07.R10', ('xdoctest/core.py', "            pkgpath, with_pkg=True, with_libs=True))\n", "            pkgpath, with_libs=True))\n")),
    fire('example-blocks-by-exact-label', 'C07.R7', ('xdoctest/core.py', "        if type.startswith(example_tags):\n", "        if type in example_tags:\n")),
    fire('subpackage-init-looked-up-under-the-root', 'C07.R6', (SA, "                        path = join(dpath, dname, '__init__.py')\n", "                        path = join(pkgpath, dname, '__init__.py')\n")),
    fire('block-label-rejects-trailing-blanks', 'C07.R9', ('xdoctest/docstr/docscrape_google.py', "') *::? *$'", "') *::?$'")),
    fire('generic-visit-with-fixed-field-list', 'C07.R8', (SA, "    # -- helpers ---\n", "    def generic_visit(self, node):\n        for field in ('body', 'orelse', 'handlers', 'finalbody'):\n            for child in getattr(node, field, None) or []:\n                self.visit(child)\n\n    # -- helpers ---\n")),
    fire('try-handlers-not-visited', 'C07.R8', (SA, "    # -- helpers ---\n", "    def visit_Try(self, node):\n        for child in node.body + node.orelse + node.finalbody:\n            self.visit(child)\n\n    # -- helpers ---\n")),
    fire('generic-visit-statements-only', 'C07.R8', (SA, "    # -- helpers ---\n", "    def generic_visit(self, node):\n        for child in ast.iter_child_nodes(node):\n            if isinstance(child, (ast.stmt, ast.excepthandler)):\n                self.visit(child)\n\n    # -- helpers ---\n")),
    silent('generic-visit-statement-carriers', (SA, "    # -- helpers ---\n", "    def generic_visit(self, node):\n        for child in ast.iter_child_nodes(node):\n            if isinstance(child, (ast.stmt, ast.excepthandler, ast.match_case)):\n                self.visit(child)\n\n    # -- helpers ---\n")),
    silent('try-visited-explicitly', (SA, "    # -- helpers ---\n", "    def visit_Try(self, node):\n        self.generic_visit(node)\n\n    # -- helpers ---\n")),
    fire('walk-list-rebound-before-pruning', 'C07.R6', (SA, "            ispkg = exists(join(dpath, '__init__.py'))\n", "            dnames = sorted(dnames)\n            ispkg = exists(join(dpath, '__init__.py'))\n")),
    silent('walk-list-sorted-in-place', (SA, "            ispkg = exists(join(dpath, '__init__.py'))\n", "            dnames.sort()\n            ispkg = exists(join(dpath, '__init__.py'))\n")),
    fire('M7-nested-classes-collected', 'C07.R3',
         (SA, "        if self._current_classname is None:\n            callname = node.name\n            self._current_classname = callname\n", "        if True:\n            callname = node.name\n            self._current_classname = callname\n")),
    fire('classname-not-reset', 'C07.R3', (SA, "            self.generic_visit(node)\n            self._current_classname = None\n", "            self.generic_visit(node)\n")),
    fire('S4-main-guard-collected', 'C07.R5',
         (SA, "                        node.test.comparators[0].value == '__main__',\n                    ]):\n                        # Ignore main block\n                        return\n",
              "                        node.test.comparators[0].value == '__main__',\n                    ]):\n                        # Ignore main block\n                        pass\n")),
    fire('all-ifs-skipped', 'C07.R5', (SA, "        self.generic_visit(node)  # nocover\n", "        return  # nocover\n")),
    fire('function-bodies-visited', 'C07.R2', (SA, "        self._finish_queue.append(calldef)\n\n    # Coroutine", "        self._finish_queue.append(calldef)\n        self.generic_visit(node)\n\n    # Coroutine")),
    fire('setter-collected', 'C07.R4', (SA, "                    if decor.attr == 'setter':\n                        # callname = callname + '.fset'\n                        return\n", "")),
    fire('getter-skipped', 'C07.R4', (SA, "                    if decor.id == 'property':\n", "                    if decor.id == 'property':\n                        return\n                    if decor.id == 'getter':\n")),
    fire('walk-not-pruned', 'C07.R6', (SA, "                del dnames[:]\n", "                pass\n")),
    fire('walk-prune-rebinds', 'C07.R6', (SA, "                del dnames[:]\n", "                dnames = []\n")),
    fire('google-num-constant', 'C07.R7', (CO, "        example = doctest_example.DocTest(docsrc, modpath, callname, num,\n", "        example = doctest_example.DocTest(docsrc, modpath, callname, 0,\n")),
    fire('revert-fix-F3-no-async-handler', 'C07.R1',
         (SA, "    # Coroutine functions are documented callables like any other function\n    visit_AsyncFunctionDef = visit_FunctionDef\n", "")),
    fire('async-handler-descends', 'C07.R2',
         (SA, "    visit_AsyncFunctionDef = visit_FunctionDef\n", "    def visit_AsyncFunctionDef(self, node):\n        self.visit_FunctionDef(node)\n        self.generic_visit(node)\n")),
    silent('async-handler-by-def',
           (SA, "    visit_AsyncFunctionDef = visit_FunctionDef\n", "    def visit_AsyncFunctionDef(self, node):\n        return self.visit_FunctionDef(node)\n")),
    fire('classname-reset-in-finally-for-skipped-nested-class', 'C07.R3',
         (SA, "        if self._current_classname is None:\n            callname = node.name\n            self._current_classname = callname\n", "        try:\n          if self._current_classname is None:\n            callname = node.name\n            self._current_classname = callname\n"),
         (SA, "            self.generic_visit(node)\n            self._current_classname = None\n\n            self._finish_queue.append(calldef)\n", "            self.generic_visit(node)\n            self._finish_queue.append(calldef)\n        finally:\n            self._current_classname = None\n")),
    fire('main-guard-operator-not-checked', 'C07.R5',
         (SA, "                        isinstance(node.test.ops[0], ast.Eq),\n                        node.test.left.id == '__name__',\n                        node.test.comparators[0].value == '__main__',\n", "                        node.test.left.id == '__name__',\n                        node.test.comparators[0].value == '__main__',\n")),
    fire('google-blocks-grouped-by-tag', 'C07.R7',
         (CO, "    for type, block in blocks:\n        if type.startswith(example_tags):\n            example_blocks.append((type, block))\n", "    for tag in example_tags:\n        for type, block in blocks:\n            if type.startswith(tag):\n                example_blocks.append((type, block))\n")),
    silent('classname-reset-in-finally-inside-guard',
           (SA, "            self.generic_visit(node)\n            self._current_classname = None\n", "            try:\n                self.generic_visit(node)\n            finally:\n                self._current_classname = None\n")),
    silent('prune-by-clear', (SA, "                del dnames[:]\n", "                dnames.clear()\n")),
    silent('prune-by-slice-assign', (SA, "                del dnames[:]\n", "                dnames[:] = []\n")),
]
